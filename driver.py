#!/usr/bin/env python3
"""Driver behind ./check: builds a check's test binary against /repo's working tree,
runs replay tier + enumerators + sharded rapid campaigns (+ native fuzzing in thorough),
merges evidence, prints VIOLATION / KNOWN-FINDING lines.

exit 0  property held on everything explored (known findings are printed, not alarms)
exit 1  violation not listed in known_findings.json
exit 2  inconclusive: build error, timeout, worker death not attributable to the code under test
"""
import hashlib
import json
import os
import re
import shutil
import signal
import subprocess
import sys
import time

ROOT = os.path.dirname(os.path.abspath(__file__))
GO124 = "/root/go/pkg/mod/golang.org/toolchain@v0.0.1-go1.24.0.linux-amd64/bin"


def env_base():
    e = dict(os.environ)
    e["PATH"] = GO124 + ":" + e.get("PATH", "")
    e.update(GOTOOLCHAIN="local", GOFLAGS="-mod=mod", GOPROXY="off", GOSUMDB="off", LOG_LEVEL="fatal")
    e.setdefault("GOCACHE", os.path.join(os.path.expanduser("~"), ".cache", "go-build"))
    return e


def alt_repo():
    """VERIF_REPO=<dir>: build against a scratch copy/worktree of seq-db instead of /repo
    (used for sensitivity trials; registered commands never set it)."""
    r = os.environ.get("VERIF_REPO", "")
    if not r or os.path.abspath(r) == "/repo":
        return None, ""
    r = os.path.abspath(r)
    tag = hashlib.sha256(r.encode()).hexdigest()[:8]
    os.makedirs(os.path.join(ROOT, ".build"), exist_ok=True)
    mod = os.path.join(ROOT, ".build", "alt-%s.mod" % tag)
    with open(os.path.join(ROOT, "go.mod")) as f:
        txt = f.read().replace("=> /repo", "=> " + r)
    with open(mod, "w") as f:
        f.write(txt)
    shutil.copy(os.path.join(ROOT, "go.sum"), mod[:-4] + ".sum")
    return mod, "." + tag


def log(*a):
    print(*a, file=sys.stderr, flush=True)


def load_plan(prop):
    p = os.path.join(ROOT, "checks", prop.lower(), "plan.json")
    with open(p) as f:
        return json.load(f)


def build(prop, plan, race=False):
    os.makedirs(os.path.join(ROOT, ".build"), exist_ok=True)
    pkg = "./checks/" + prop.lower()
    mod, tag = alt_repo()
    out = os.path.join(ROOT, ".build", prop.lower() + tag + (".race" if race else "") + ".test")
    cmd = ["go", "test", "-c", "-tags", "verif", "-o", out]
    if mod:
        cmd.append("-modfile=" + mod)
    if race:
        cmd.append("-race")
    cmd.append(pkg)
    r = subprocess.run(cmd, cwd=ROOT, env=env_base(), capture_output=True, text=True)
    if r.returncode != 0:
        log("BUILD FAILED (inconclusive, not a violation):\n" + r.stdout + r.stderr)
        sys.exit(2)
    for need in plan.get("needs", []):
        o = os.path.join(ROOT, ".build", need + tag)
        # "seqdb" is the real executable of the repository under test, everything else a helper of this module
        pkg = "github.com/ozontech/seq-db/cmd/seq-db" if need == "seqdb" else "./cmd/" + need
        r = subprocess.run(["go", "build", "-tags", "verif", "-o", o] + (["-modfile=" + mod] if mod else []) + [pkg], cwd=ROOT, env=env_base(),
                           capture_output=True, text=True)
        if r.returncode != 0:
            log("BUILD FAILED (inconclusive):\n" + r.stdout + r.stderr)
            sys.exit(2)
    return out


class Proc:
    def __init__(self, label, cmd, env, outdir, requested=0, cwd=None):
        self.label, self.outdir, self.requested = label, outdir, requested
        os.makedirs(outdir, exist_ok=True)
        self.logpath = os.path.join(outdir, "output.log")
        self.logf = open(self.logpath, "w")
        self.p = subprocess.Popen(cmd, cwd=cwd or ROOT, env=env, stdout=self.logf, stderr=subprocess.STDOUT,
                                  start_new_session=True)
        self.timed_out = False

    def wait(self, deadline):
        while True:
            rc = self.p.poll()
            if rc is not None:
                break
            if time.time() > deadline:
                self.timed_out = True
                try:
                    os.killpg(self.p.pid, signal.SIGKILL)
                except ProcessLookupError:
                    pass
                self.p.wait()
                break
            time.sleep(0.1)
        self.logf.close()
        return self.p.returncode

    def output(self):
        try:
            with open(self.logpath, errors="replace") as f:
                return f.read()
        except OSError:
            return ""


def shard_files(outdir):
    res = []
    if not os.path.isdir(outdir):
        return res
    for fn in sorted(os.listdir(outdir)):
        if fn.endswith(".shard.json"):
            try:
                with open(os.path.join(outdir, fn)) as f:
                    res.append(json.load(f))
            except (OSError, ValueError):
                pass
    return res


def journal_cases(outdir):
    res = []
    if not os.path.isdir(outdir):
        return res
    for fn in sorted(os.listdir(outdir)):
        if fn.endswith(".current.json"):
            try:
                with open(os.path.join(outdir, fn)) as f:
                    res.append((fn[:-len(".current.json")], json.load(f)))
            except (OSError, ValueError):
                pass
    return res


class Run:
    def __init__(self, prop, tier, seed):
        self.prop, self.tier, self.seed = prop, tier, seed
        self.plan = load_plan(prop)
        self.alt_mod, self.alt_tag = alt_repo()
        self.rundir = os.path.join(ROOT, ".run", prop, "%s-%d%s" % (tier, seed, self.alt_tag))
        shutil.rmtree(self.rundir, ignore_errors=True)
        os.makedirs(self.rundir, exist_ok=True)
        self.shards = []       # merged shard dicts
        self.failures = []     # {sig,msg,case,test}
        self.inconclusive = []  # reasons
        self.t0 = time.time()
        self.requested = 0
        self.passed = 0
        self.fuzz = []

    def env(self, outdir, extra=None):
        e = env_base()
        e.update(VERIF_OUT=outdir, VERIF_PROP=self.prop, VERIF_TIER=self.tier, VERIF_SEED=str(self.seed),
                 VERIF_ROOT=ROOT, VERIF_BUILD=os.path.join(ROOT, ".build"), VERIF_BIN_TAG=self.alt_tag)
        if extra:
            e.update(extra)
        return e

    def collect(self, proc, rc, what):
        out = proc.output()
        shards = shard_files(proc.outdir)
        self.shards.extend(shards)
        recorded = [f for s in shards for f in (s.get("failures") or [])]
        for f in recorded:
            self.failures.append(f)
        m = re.findall(r"OK, passed (\d+) tests", out)
        passed = sum(int(x) for x in m)
        self.passed += passed
        if proc.timed_out:
            # a hang inside a case is attributable if the journal names the case
            j = journal_cases(proc.outdir)
            if j and self.plan.get("hang_is_violation"):
                for test, case in j:
                    self.failures.append({"sig": "hang", "msg": "%s did not finish within its budget; case was executing" % what,
                                          "case": case, "test": test})
            else:
                self.inconclusive.append("%s: wall-clock budget exceeded" % what)
            return
        if rc != 0 and not recorded:
            j = journal_cases(proc.outdir)
            if j:
                tail = out[-4000:]
                for test, case in j:
                    self.failures.append({"sig": "process-death", "msg": "test process died (rc=%s) while executing this case:\n%s" % (rc, tail),
                                          "case": case, "test": test})
            else:
                self.inconclusive.append("%s: exit %s without a recorded failure:\n%s" % (what, rc, out[-3000:]))
        elif rc == 0 and proc.requested and passed < proc.requested:
            self.inconclusive.append("%s: rapid reported %d of %d requested cases" % (what, passed, proc.requested))

    def run_replay(self, binary, src):
        if not os.path.exists(src) or (os.path.isdir(src) and not any(f.endswith(".json") for f in os.listdir(src))):
            return
        outdir = os.path.join(self.rundir, "replay")
        p = Proc("replay", [binary, "-test.run", "^TestReplay", "-test.timeout", "0", "-test.v"],
                 self.env(outdir, {"VERIF_REPLAY": src}), outdir)
        rc = p.wait(time.time() + self.plan.get("replay_budget_s", 600))
        self.collect(p, rc, "replay")

    def run_enums(self, binary):
        for i, en in enumerate(self.plan.get("enums", {}).get(self.tier, [])):
            shards = en.get("shards", 1)
            procs = []
            for sh in range(shards):
                outdir = os.path.join(self.rundir, "enum-%d" % i if shards == 1 else "enum-%d-%d" % (i, sh))
                extra = {k: str(v) for k, v in en.get("env", {}).items()}
                if shards > 1:
                    extra["VERIF_ENUM_SHARD"], extra["VERIF_ENUM_SHARDS"] = str(sh), str(shards)
                procs.append(Proc("enum", [binary, "-test.run", "^" + en["test"] + "$", "-test.timeout", "0", "-test.v"],
                                  self.env(outdir, extra), outdir))
            deadline = time.time() + en.get("budget_s", 600)
            for sh, p in enumerate(procs):
                rc = p.wait(deadline)
                self.collect(p, rc, "enumerator " + en["test"] + (" shard %d" % sh if shards > 1 else ""))

    def run_campaigns(self, binaries):
        for ci, camp in enumerate(self.plan.get("campaigns", {}).get(self.tier, [])):
            binary = binaries["race" if camp.get("race") else "plain"]
            shards = camp.get("shards", 4)
            total = camp["checks"]
            per = max(1, total // shards)
            chunk = camp.get("chunk", 0) or per
            deadline = time.time() + camp.get("budget_s", 900)
            # each shard runs its chunks sequentially; shards run in parallel
            state = [{"left": per, "j": 0, "proc": None} for _ in range(shards)]
            active = True
            stop = False
            while active:
                active = False
                for i, st in enumerate(state):
                    pr = st["proc"]
                    if pr is not None:
                        rc = pr.p.poll()
                        if rc is None:
                            if time.time() > deadline:
                                rc = pr.wait(0)
                            else:
                                active = True
                                continue
                        else:
                            pr.logf.close()
                        self.collect(pr, rc, "campaign %s shard %d.%d" % (camp["test"], i, st["j"] - 1))
                        st["proc"] = None
                        if self.alarms() or self.inconclusive:
                            stop = True
                    if st["left"] > 0 and not stop and time.time() < deadline:
                        n = min(chunk, st["left"])
                        st["left"] -= n
                        seed = (self.seed * 1_000_003 + ci * 100_003 + i * 1009 + st["j"] + 1) % (2**62) or 1
                        outdir = os.path.join(self.rundir, "c%d-s%d-%d" % (ci, i, st["j"]))
                        st["j"] += 1
                        os.makedirs(outdir, exist_ok=True)
                        cmd = [binary, "-test.run", "^" + camp["test"] + "$", "-test.timeout", "0", "-test.v",
                               "-rapid.checks=%d" % n, "-rapid.seed=%d" % seed,
                               "-rapid.failfile=" + os.path.join(outdir, "rapid.fail"),
                               "-rapid.shrinktime=%s" % camp.get("shrinktime", "30s")]
                        extra = {k: str(v) for k, v in camp.get("env", {}).items()}
                        extra["VERIF_SHARD"] = str(i)
                        if camp.get("gomaxprocs"):
                            extra["GOMAXPROCS"] = str(camp["gomaxprocs"])
                        st["proc"] = Proc("camp", cmd, self.env(outdir, extra), outdir, requested=n, cwd=outdir)
                        self.requested += n
                        active = True
                    elif st["left"] > 0 and not stop and st["proc"] is None:
                        self.inconclusive.append("campaign %s: wall-clock budget exceeded before all cases ran" % camp["test"])
                        st["left"] = 0
                time.sleep(0.05)

    def run_fuzz(self):
        for fz in self.plan.get("fuzz", {}).get(self.tier, []):
            pkgdir = os.path.join(ROOT, "checks", self.prop.lower())
            corpus = os.path.join(pkgdir, "testdata", "fuzz", fz["target"])
            before = set(os.listdir(corpus)) if os.path.isdir(corpus) else set()
            outdir = os.path.join(self.rundir, "fuzz-" + fz["target"])
            cmd = ["go", "test", "-tags", "verif", "-run", "^$", "-fuzz", "^" + fz["target"] + "$",
                   "-fuzztime", fz.get("fuzztime", "60s"), "-parallel", str(fz.get("parallel", 8))] + (["-modfile=" + self.alt_mod] if self.alt_mod else []) + ["."]
            p = Proc("fuzz", cmd, self.env(outdir), outdir, cwd=pkgdir)
            rc = p.wait(time.time() + fz.get("budget_s", 900))
            out = p.output()
            execs = [int(x) for x in re.findall(r"execs: (\d+)", out)]
            self.fuzz.append({"target": fz["target"], "execs": max(execs) if execs else 0, "rc": rc})
            self.shards.extend(shard_files(outdir))
            after = set(os.listdir(corpus)) if os.path.isdir(corpus) else set()
            new = sorted(after - before)
            if p.timed_out:
                self.inconclusive.append("fuzz %s: budget exceeded" % fz["target"])
            elif rc != 0:
                if new:
                    for fn in new:
                        with open(os.path.join(corpus, fn)) as f:
                            data = f.read()
                        os.remove(os.path.join(corpus, fn))
                        self.failures.append({"sig": "fuzz-crasher", "msg": out[-3000:], "case": {"fuzz_target": fz["target"], "go_fuzz_input": data},
                                              "test": fz["target"]})
                else:
                    self.inconclusive.append("fuzz %s exited %s without a crasher:\n%s" % (fz["target"], rc, out[-2000:]))

    # ------------------------------------------------------------ reporting
    def known(self):
        try:
            with open(os.path.join(ROOT, "known_findings.json")) as f:
                k = json.load(f)
        except OSError:
            return []
        return [e for e in k.get("known", []) if e.get("property") == self.prop]

    def alarms(self):
        """failures that are not a recorded finding (a known finding shown by its replay must not end the campaigns early)"""
        known = self.known()
        out = []
        for f in self.failures:
            sig = str(f.get("sig", ""))
            if any(k.get("sig") == sig or (k.get("sig_prefix") and sig.startswith(k["sig_prefix"])) for k in known):
                continue
            out.append(f)
        return out

    def report(self, write_evidence=True):
        known = self.known()
        viol, hits = [], {}
        seen = set()
        for f in self.failures:
            key = (f.get("sig"), json.dumps(f.get("case"), sort_keys=True))
            if key in seen:
                continue
            seen.add(key)
            match = None
            for k in known:
                if k.get("sig") == f.get("sig") or (k.get("sig_prefix") and str(f.get("sig", "")).startswith(k["sig_prefix"])):
                    match = k
                    break
            if match:
                hits[match["sig"] if "sig" in match else match["sig_prefix"]] = match
                continue
            viol.append(f)
        fdir = os.path.join(ROOT, "failures" + self.alt_tag, self.prop)
        lines = []
        for f in viol:
            os.makedirs(fdir, exist_ok=True)
            raw = json.dumps({"sig": f.get("sig"), "msg": f.get("msg"), "case": f.get("case"), "test": f.get("test")}, indent=1)
            h = hashlib.sha256(raw.encode()).hexdigest()[:12]
            path = os.path.join(fdir, h + ".json")
            with open(path, "w") as fh:
                fh.write(raw)
            lines.append("VIOLATION property=%s replay=%s" % (self.prop, path))
            log("  sig=%s  %s" % (f.get("sig"), str(f.get("msg"))[:700]))
        for k in hits.values():
            print("KNOWN-FINDING: property=%s %s" % (self.prop, k.get("what", k.get("sig"))), flush=True)
        for l in lines:
            print(l, flush=True)
        if write_evidence and not self.alt_tag:
            self.write_evidence(len(viol), sorted(hits.keys()))
        if viol:
            return 1
        if self.inconclusive:
            for r in self.inconclusive:
                log("INCONCLUSIVE: " + r)
            return 2
        return 0

    def write_evidence(self, nviol, known_hits):
        hashes = set()
        labels = {}
        samples = []
        evals = cases = excluded = dbc = 0
        exhaustive = {}
        notes = {}
        for s in self.shards:
            hashes.update(s.get("hashes") or [])
            evals += s.get("evaluations", 0)
            cases += s.get("cases", 0)
            excluded += s.get("excluded", 0)
            dbc += s.get("distinct_by_construction", 0)
            for k, v in (s.get("labels") or {}).items():
                labels[k] = labels.get(k, 0) + v
            for smp in (s.get("samples") or []):
                if len(samples) < 6:
                    samples.append(smp)
            exhaustive.update(s.get("exhaustive") or {})
            for k, v in (s.get("notes") or {}).items():
                if isinstance(v, (int, float)) and isinstance(notes.get(k), (int, float)):
                    notes[k] += v
                else:
                    notes[k] = v
        plan = self.plan
        cov = {
            "evaluations": evals,
            "cases": cases,
            "distinct_nontrivial": len(hashes) + dbc,
            "rule": plan.get("rule", ""),
            "samples": samples,
            "class_histogram": dict(sorted(labels.items())),
            "rapid_cases_requested": self.requested,
            "rapid_cases_passed": self.passed,
            "excluded_by_construction": excluded,
            "known_findings_hit": known_hits,
            "inconclusive": self.inconclusive,
        }
        if exhaustive:
            cov["exhaustive"] = all(exhaustive.values()) and bool(plan.get("exhaustive_claim"))
            cov["exhaustive_parts"] = exhaustive
        if notes:
            cov["notes"] = notes
        if self.fuzz:
            cov["native_fuzz"] = self.fuzz
        ev = {
            "property_id": self.prop,
            "tier": self.tier,
            "seed": self.seed,
            "level": plan.get("level", "exploration"),
            "coverage": cov,
            "assumptions": plan.get("assumptions", []),
            "wall_s": round(time.time() - self.t0, 2),
            "violations": nviol,
        }
        os.makedirs(os.path.join(ROOT, "evidence"), exist_ok=True)
        tmp = os.path.join(ROOT, "evidence", self.prop + ".json.tmp")
        with open(tmp, "w") as f:
            json.dump(ev, f, indent=1, ensure_ascii=False)
        os.replace(tmp, os.path.join(ROOT, "evidence", self.prop + ".json"))


def main():
    if len(sys.argv) < 3:
        log("usage: check CNN quick|thorough | check CNN --replay <file>")
        sys.exit(2)
    prop = sys.argv[1].upper()
    seed = int(os.environ.get("VERIF_SEED", "1") or "1")
    if seed == 0:
        seed = 1
    if sys.argv[2] == "--replay":
        path = os.path.abspath(sys.argv[3])
        run = Run(prop, os.environ.get("VERIF_TIER", "quick"), seed)
        race = bool(run.plan.get("replay_race"))
        binary = build(prop, run.plan, race=race)
        rec = None
        if not os.path.isdir(path):
            try:
                with open(path) as f:
                    rec = json.load(f)
            except (OSError, ValueError) as e:
                log("cannot read replay file: %s" % e)
                sys.exit(2)
        case = rec.get("case") if isinstance(rec, dict) else None
        if isinstance(case, dict) and "go_fuzz_input" in case:
            sys.exit(replay_fuzz(run, case))
        run.run_replay(binary, path)
        rc = run.report(write_evidence=False)
        shutil.rmtree(run.rundir, ignore_errors=True)
        sys.exit(rc)
    tier = sys.argv[2]
    if tier not in ("quick", "thorough"):
        log("tier must be quick or thorough")
        sys.exit(2)
    tier = os.environ.get("VERIF_TIER_OVERRIDE", tier)
    run = Run(prop, tier, seed)
    plan = run.plan
    need_race = any(c.get("race") for c in plan.get("campaigns", {}).get(tier, []))
    need_plain = any(not c.get("race") for c in plan.get("campaigns", {}).get(tier, [])) or plan.get("enums", {}).get(tier) or True
    binaries = {}
    if need_plain:
        binaries["plain"] = build(prop, plan, race=False)
    if need_race:
        binaries["race"] = build(prop, plan, race=True)
    run.run_replay(binaries["race"] if plan.get("replay_race") and need_race else binaries["plain"], os.path.join(ROOT, "replays", prop))
    if not run.failures:
        run.run_enums(binaries["plain"])
    run.run_campaigns(binaries)
    if tier == "thorough" and not run.failures:
        run.run_fuzz()
    rc = run.report()
    # scratch of the run (case data dirs are removed by the cases themselves)
    if rc == 0:
        shutil.rmtree(run.rundir, ignore_errors=True)
    sys.exit(rc)


def replay_fuzz(run, case):
    pkgdir = os.path.join(ROOT, "checks", run.prop.lower())
    tgt = case["fuzz_target"]
    corpus = os.path.join(pkgdir, "testdata", "fuzz", tgt)
    os.makedirs(corpus, exist_ok=True)
    name = "replay-" + hashlib.sha256(case["go_fuzz_input"].encode()).hexdigest()[:12]
    path = os.path.join(corpus, name)
    with open(path, "w") as f:
        f.write(case["go_fuzz_input"])
    try:
        r = subprocess.run(["go", "test", "-tags", "verif", "-run", "^%s$/%s" % (tgt, name), "."], cwd=pkgdir,
                           env=run.env(os.path.join(run.rundir, "fuzzreplay")), capture_output=True, text=True)
    finally:
        os.remove(path)
    if r.returncode != 0:
        log(r.stdout[-3000:] + r.stderr[-2000:])
        print("VIOLATION property=%s replay=%s" % (run.prop, os.path.abspath(sys.argv[3])), flush=True)
        return 1
    return 0


if __name__ == "__main__":
    main()
