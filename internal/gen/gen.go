// Package gen holds the rapid generators shared by the checks.  Everything is built by
// construction (no filtering), and every random choice is a rapid draw so that shrinking
// and replay work.
package gen

import (
	"fmt"
	"sort"
	"strconv"
	"strings"

	"pgregory.net/rapid"

	"verif/internal/model"
)

const BaseMID = uint64(1_700_000_000_000) // 2023-11-14, milliseconds

// Field vocabulary.  Store-level tokens are what the proxy would have produced: lower
// case, `_all_:""` on every document, `_exists_:<field>` for each present field.
var (
	KeywordFields = []string{"svc", "lvl", "trace"}
	TextField     = "msg" // multi-valued (as a text field's words)
	NumField      = "num" // single-valued, numeric-looking values (plus a few non-numbers)

	svcVals   = []string{"a", "ab", "abc", "abab", "b", "ba", "bab", "abba", "x*y", "a b", "é", "ab-1", "aé", "zz", "", "a\"b", "a'b", `a\b`, "a`b", "a|b", "a|b|c"}
	lvlVals   = []string{"info", "warn", "error", "debug", "inf", "err"}
	traceVals = []string{"t0", "t1", "t2", "t3", "t4", "t5", "t6", "t7", "t8", "t9", "t10", "t11", "t100", "t101"}
	msgVals   = []string{"get", "post", "put", "ok", "fail", "failed", "timeout", "time", "user", "users", "x1", "x2", "x10", "код", "ошибка"}
	NumVals   = []string{"0", "1", "2", "3", "5", "10", "11", "100", "-1", "-2", "-10", "2.5", "-0.5", "1e2", "1.5e1", "007", "0.0", "3.00", "12345678901234567890", "k1", "zz", "v-1"}
)

func ValsOf(field string) []string {
	switch field {
	case "svc":
		return svcVals
	case "lvl":
		return lvlVals
	case "trace":
		return traceVals
	case "msg":
		return msgVals
	case "num":
		return NumVals
	case "dur":
		return DurVals
	case "_exists_":
		return []string{"svc", "lvl", "trace", "msg", "num", "dur", "nope"}
	case "_all_":
		return []string{""}
	}
	return []string{"a"}
}

var AllFields = []string{"svc", "lvl", "trace", "msg", "num", "dur"}

// CorpusOpts steers the shape of a generated corpus.
type CorpusOpts struct {
	MinDocs, MaxDocs int
	// MIDSpread: timestamps are BaseMID + [0, MIDSpread); a small spread gives many equal
	// timestamps (the random part then decides the order).
	MIDSpread uint64
	BodyMax   int
}

func pick(t *rapid.T, vals []string, label string) string {
	return vals[rapid.IntRange(0, len(vals)-1).Draw(t, label)]
}

// DocTokens draws the field values of one document and returns its token multiset.
func DocTokens(t *rapid.T) []model.Tok {
	toks := []model.Tok{{F: "_all_", V: ""}}
	add := func(f, v string) { toks = append(toks, model.Tok{F: f, V: v}) }
	present := rapid.IntRange(0, 63).Draw(t, "present")
	if present&1 != 0 {
		add("_exists_", "svc")
		add("svc", pick(t, svcVals, "svc"))
	}
	if present&2 != 0 {
		add("_exists_", "lvl")
		add("lvl", pick(t, lvlVals, "lvl"))
	}
	if present&4 != 0 {
		add("_exists_", "trace")
		add("trace", pick(t, traceVals, "trace"))
	}
	if present&8 != 0 {
		add("_exists_", "msg")
		n := rapid.IntRange(1, 4).Draw(t, "nwords")
		for i := 0; i < n; i++ {
			add("msg", pick(t, msgVals, "word")) // repeats allowed: a multiset
		}
	}
	if present&16 != 0 {
		add("_exists_", "num")
		add("num", pick(t, NumVals, "num"))
	}
	if present&32 != 0 {
		add("_exists_", "dur")
		add("dur", pick(t, DurVals, "dur"))
	}
	return toks
}

// DurVals: the numeric-only field used by aggregations (negatives, decimals, exponents,
// long mantissas; two spellings of the same number on purpose).
var DurVals = []string{"0", "1", "2", "3", "10", "-1", "-7", "2.5", "-0.5", "1e2", "100", "1.5e1", "15", "0.1", "0.2", "0.30000000000000004", "123456789.125", "1e-3", "4e15", "9007199254740993", "1e19", "-1.7320508e19"}

// AggSpecs draws 0..3 aggregation requests over the generated vocabulary.
func AggSpecs(t *rapid.T, max int) []model.AggSpec {
	n := rapid.IntRange(0, max).Draw(t, "naggs")
	var out []model.AggSpec
	for i := 0; i < n; i++ {
		s := model.AggSpec{Func: rapid.SampledFrom([]string{"count", "sum", "min", "max", "avg", "quantile", "unique"}).Draw(t, "func")}
		groups := []string{"svc", "lvl", "trace"}
		switch s.Func {
		case "count", "unique":
			s.GroupBy = pick(t, groups, "group")
		default:
			s.Field = "dur"
			if rapid.Bool().Draw(t, "grouped") {
				s.GroupBy = pick(t, groups, "group")
			}
		}
		if s.Func != "unique" {
			s.Interval = rapid.SampledFrom([]int64{0, 0, 1, 7, 1000, 60_000}).Draw(t, "agginterval")
		}
		if s.Func == "quantile" {
			nq := rapid.IntRange(1, 3).Draw(t, "nq")
			for j := 0; j < nq; j++ {
				s.Quantiles = append(s.Quantiles, rapid.SampledFrom([]float64{0.5, 0, 1, 0.25, 0.9, 0.99}).Draw(t, "q"))
			}
		}
		out = append(out, s)
	}
	return out
}

func Body(t *rapid.T, i int, max int) []byte {
	if max <= 0 {
		max = 64
	}
	pad := rapid.IntRange(0, max).Draw(t, "pad")
	return []byte(fmt.Sprintf(`{"i":%d,"p":"%s"}`, i, strings.Repeat("x", pad)))
}

// Corpus draws documents with pairwise distinct IDs in arrival order (independent of ID
// order).
func Corpus(t *rapid.T, o CorpusOpts) model.Corpus {
	if o.MaxDocs == 0 {
		o.MaxDocs = 40
	}
	if o.MIDSpread == 0 {
		o.MIDSpread = rapid.SampledFrom([]uint64{1, 3, 20, 1000, 100_000}).Draw(t, "spread")
	}
	n := rapid.IntRange(o.MinDocs, o.MaxDocs).Draw(t, "ndocs")
	seen := map[model.ID]bool{}
	c := make(model.Corpus, 0, n)
	for i := 0; i < n; i++ {
		id := model.ID{
			MID: BaseMID + rapid.Uint64Range(0, o.MIDSpread-1).Draw(t, "mid"),
			RID: rapid.Uint64Range(0, 15).Draw(t, "rid"),
		}
		if rapid.IntRange(0, 3).Draw(t, "ridwide") == 0 {
			id.RID = rapid.Uint64().Draw(t, "rid64")
		}
		for seen[id] { // make distinct by construction, deterministically
			id.RID++
		}
		seen[id] = true
		c = append(c, model.Doc{ID: id, Body: Body(t, i, o.BodyMax), Toks: DocTokens(t)})
	}
	return c
}

// ---------------------------------------------------------------- queries

func cutPattern(t *rapid.T, v string) model.Pattern {
	// choose 1..3 wildcard positions replacing arbitrary substrings of v
	b := []byte(v)
	kind := rapid.IntRange(0, 5).Draw(t, "patkind")
	n := len(b)
	cut := func(label string) int { return rapid.IntRange(0, n).Draw(t, label) }
	switch kind {
	case 0: // prefix*
		i := cut("i")
		return model.Pattern{{Text: string(b[:i])}, {Wild: true}}
	case 1: // *suffix
		i := cut("i")
		return model.Pattern{{Wild: true}, {Text: string(b[i:])}}
	case 2: // *infix*
		i, j := cut("i"), cut("j")
		if i > j {
			i, j = j, i
		}
		return model.Pattern{{Wild: true}, {Text: string(b[i:j])}, {Wild: true}}
	case 3: // pre*suf
		i, j := cut("i"), cut("j")
		if i > j {
			i, j = j, i
		}
		return model.Pattern{{Text: string(b[:i])}, {Wild: true}, {Text: string(b[j:])}}
	case 4: // pre*mid*suf, possibly overlapping pieces (taken from independent cuts)
		i, j, k, l := cut("i"), cut("j"), cut("k"), cut("l")
		if j > k {
			j, k = k, j
		}
		return model.Pattern{{Text: string(b[:i])}, {Wild: true}, {Text: string(b[j:k])}, {Wild: true}, {Text: string(b[l:])}}
	default: // adjacent wildcards
		i := cut("i")
		return model.Pattern{{Text: string(b[:i])}, {Wild: true}, {Wild: true}, {Text: string(b[i:])}}
	}
}

// normPattern drops empty text fragments (they cannot be written in the query language
// separately) but keeps adjacent wildcards.
func normPattern(p model.Pattern) model.Pattern {
	out := make(model.Pattern, 0, len(p))
	for _, f := range p {
		if !f.Wild && f.Text == "" {
			continue
		}
		out = append(out, f)
	}
	if len(out) == 0 {
		return model.Pattern{{Text: ""}}
	}
	return out
}

// validUTF8Cut: patterns are cut at byte positions; keep only cuts that leave every text
// fragment valid UTF-8 (the query language is text).  Done by snapping, not rejection.
func snapPattern(p model.Pattern) model.Pattern {
	for i := range p {
		if !p[i].Wild {
			p[i].Text = strings.ToValidUTF8(p[i].Text, "")
		}
	}
	return p
}

func Atom(t *rapid.T) *model.Q {
	kind := rapid.IntRange(0, 9).Draw(t, "atomkind")
	fields := []string{"svc", "lvl", "trace", "msg", "num", "_exists_"}
	f := pick(t, fields, "field")
	vals := ValsOf(f)
	switch {
	case kind <= 3: // exact
		v := pick(t, vals, "val")
		if rapid.IntRange(0, 9).Draw(t, "absent") == 0 {
			v += "q"
		}
		return model.Lit(f, model.Exact(v))
	case kind <= 6: // wildcard
		v := pick(t, vals, "val")
		return model.Lit(f, normPattern(snapPattern(cutPattern(t, v))))
	case kind == 7: // in-list
		n := rapid.IntRange(1, 3).Draw(t, "nin")
		q := &model.Q{Op: "in", Field: f}
		for i := 0; i < n; i++ {
			v := pick(t, vals, "val")
			if rapid.Bool().Draw(t, "inwild") {
				q.In = append(q.In, normPattern(snapPattern(cutPattern(t, v))))
			} else {
				q.In = append(q.In, model.Exact(v))
			}
		}
		return q
	default: // range
		return Range(t)
	}
}

var rangeEndsNum = []string{"-100", "-10", "-2", "-1.5", "-1", "-0.5", "0", "0.5", "1", "2", "2.5", "3", "4", "10", "10.5", "11", "15", "99", "100", "101", "1e2", "1e19", "2e19"}
var rangeEndsTxt = []string{"a", "ab", "abc", "b", "info", "j", "k", "k1", "k2", "t1", "t10", "t2", "warn", "z", "zz", "zzz", "é"}

func Range(t *rapid.T) *model.Q {
	q := &model.Q{Op: "range"}
	numeric := rapid.IntRange(0, 3).Draw(t, "rnum") != 0
	var ends []string
	if numeric {
		q.Field = "num"
		ends = rangeEndsNum
	} else {
		q.Field = pick(t, []string{"svc", "lvl", "trace", "num", "msg"}, "rfield")
		ends = rangeEndsTxt
		if rapid.IntRange(0, 3).Draw(t, "mixed") == 0 {
			// one numeric end and one text end: string comparison by the documented rule
			ends = append(append([]string{}, rangeEndsTxt...), "1", "10", "2")
		}
	}
	shape := rapid.IntRange(0, 9).Draw(t, "rshape")
	a, b := pick(t, ends, "ra"), pick(t, ends, "rb")
	switch {
	case shape == 0:
		q.To = &b
	case shape == 1:
		q.From = &a
	default:
		q.From, q.To = &a, &b
	}
	if !numeric && q.From != nil && q.To != nil {
		// keep "every given end is a number" false for the text class
		if _, ok := model.IsNum(*q.From); ok {
			if _, ok2 := model.IsNum(*q.To); ok2 {
				q.To = &ends[0]
			}
		}
	}
	if !numeric && (q.From == nil || q.To == nil) {
		// a single given end decides: make sure it is a text end
		if q.From != nil {
			if _, ok := model.IsNum(*q.From); ok {
				q.From = &ends[0]
			}
		}
		if q.To != nil {
			if _, ok := model.IsNum(*q.To); ok {
				q.To = &ends[0]
			}
		}
	}
	q.IncFrom = rapid.Bool().Draw(t, "incfrom")
	q.IncTo = rapid.Bool().Draw(t, "incto")
	return q
}

// Query draws a boolean tree with at most maxAtoms atoms; NOT at any depth.
func Query(t *rapid.T, maxAtoms int) *model.Q {
	n := rapid.IntRange(1, maxAtoms).Draw(t, "natoms")
	return tree(t, n)
}

func tree(t *rapid.T, atoms int) *model.Q {
	var q *model.Q
	if atoms <= 1 {
		if rapid.IntRange(0, 19).Draw(t, "isall") == 0 {
			q = model.All()
		} else {
			q = Atom(t)
		}
	} else {
		l := rapid.IntRange(1, atoms-1).Draw(t, "split")
		a, b := tree(t, l), tree(t, atoms-l)
		if rapid.Bool().Draw(t, "isand") {
			q = model.And(a, b)
		} else {
			q = model.Or(a, b)
		}
	}
	nots := rapid.IntRange(0, 7).Draw(t, "nots")
	if nots == 0 {
		q = model.Not(q)
	} else if nots == 1 && atoms > 1 {
		q = model.Not(model.Not(q))
	}
	return q
}

func Style(t *rapid.T) model.RenderStyle {
	return model.RenderStyle{
		Quote:     rapid.IntRange(0, 3).Draw(t, "quote"),
		Composite: rapid.Bool().Draw(t, "composite"),
		Parens:    rapid.IntRange(0, 2).Draw(t, "parens"),
		Upper:     rapid.Bool().Draw(t, "upper"),
		Tight:     rapid.Bool().Draw(t, "tight"),
	}
}

// TimeRange draws [from,to] whose ends sit on, next to and outside document timestamps.
func TimeRange(t *rapid.T, c model.Corpus) (uint64, uint64) {
	if len(c) == 0 || rapid.IntRange(0, 3).Draw(t, "fullrange") == 0 {
		return 0, BaseMID * 2
	}
	mids := make([]uint64, 0, len(c))
	for _, d := range c {
		mids = append(mids, d.ID.MID)
	}
	sort.Slice(mids, func(i, j int) bool { return mids[i] < mids[j] })
	end := func(label string) uint64 {
		m := mids[rapid.IntRange(0, len(mids)-1).Draw(t, label)]
		switch rapid.IntRange(0, 4).Draw(t, label+"d") {
		case 0:
			return m - 1
		case 1:
			return m + 1
		}
		return m
	}
	a, b := end("from"), end("to")
	if a > b {
		a, b = b, a
	}
	return a, b
}

func SearchReq(t *rapid.T, c model.Corpus, maxAtoms int) model.SearchReq {
	r := model.SearchReq{Q: Query(t, maxAtoms)}
	r.From, r.To = TimeRange(t, c)
	r.Asc = rapid.Bool().Draw(t, "asc")
	switch rapid.IntRange(0, 5).Draw(t, "limkind") {
	case 0:
		r.Limit = 0
	case 1:
		r.Limit = 1
	case 2:
		r.Limit = len(c) + 5
	default:
		r.Limit = rapid.IntRange(0, len(c)+1).Draw(t, "limit")
	}
	r.WithTotal = rapid.Bool().Draw(t, "withtotal")
	if rapid.IntRange(0, 2).Draw(t, "hist") == 0 {
		r.Interval = rapid.SampledFrom([]uint64{1, 2, 7, 1000, 60_000}).Draw(t, "interval")
	}
	return r
}

func Itoa(i int) string { return strconv.Itoa(i) }
