package gen

import (
	"fmt"
	"strings"

	"verif/internal/model"
)

// Synth describes a large corpus parametrically, so that cases stay small in JSON.
// Document i (0 <= i < N):
//
//	ID    MID = BaseMID + i/PerMID (equal timestamps when PerMID > 1), RID = a fixed
//	      permutation-like function of i (arrival order is independent of ID order)
//	toks  _all_, svc:<SvcVals[i % len]>, and when
//	      Big     big:x on every document            (one token with N postings)
//	      UniqLen uniq:<zero-padded i, UniqLen bytes> (N distinct tokens, dictionary blocks)
//	      FatN    the first FatN documents carry fat:<FatLen bytes, distinct first bytes>
//	      Dur     dur:<DurVals[i % len]> on two of three documents
type Synth struct {
	N       int  `json:"n"`
	PerMID  int  `json:"per_mid"`
	Big     bool `json:"big,omitempty"`
	UniqLen int  `json:"uniq_len,omitempty"`
	FatN    int  `json:"fat_n,omitempty"`
	FatLen  int  `json:"fat_len,omitempty"`
	Dur     bool `json:"dur,omitempty"`
}

var synthSvc = []string{"a", "ab", "abc", "b", "ba"}

func (s Synth) UniqTok(i int) string {
	if s.UniqLen <= 0 {
		return ""
	}
	d := fmt.Sprintf("u%07d", i)
	if len(d) < s.UniqLen {
		d += strings.Repeat("p", s.UniqLen-len(d))
	}
	return d[:max(len(fmt.Sprintf("u%07d", i)), s.UniqLen)]
}

func (s Synth) FatTok(i int) string {
	return fmt.Sprintf("f%02d", i) + strings.Repeat(string(rune('a'+i%26)), max(0, s.FatLen-3))
}

func (s Synth) Docs() model.Corpus {
	if s.N == 0 {
		return nil
	}
	per := max(1, s.PerMID)
	c := make(model.Corpus, s.N)
	for i := 0; i < s.N; i++ {
		// arrival order differs from ID order: walk i with a stride co-prime to N
		j := int((uint64(i)*2654435761 + 17) % uint64(s.N))
		d := model.Doc{
			ID:   model.ID{MID: BaseMID + uint64(j/per), RID: uint64(j)*7919 + 1},
			Body: []byte(fmt.Sprintf(`{"j":%d}`, j)),
			Toks: []model.Tok{{F: "_all_", V: ""}, {F: "_exists_", V: "svc"}, {F: "svc", V: synthSvc[j%len(synthSvc)]}},
		}
		if s.Big {
			d.Toks = append(d.Toks, model.Tok{F: "big", V: "x"})
		}
		if s.UniqLen > 0 {
			d.Toks = append(d.Toks, model.Tok{F: "uniq", V: s.UniqTok(j)})
		}
		if j < s.FatN {
			d.Toks = append(d.Toks, model.Tok{F: "fat", V: s.FatTok(j)})
		}
		if s.Dur && j%3 != 0 {
			d.Toks = append(d.Toks, model.Tok{F: "_exists_", V: "dur"}, model.Tok{F: "dur", V: DurVals[j%len(DurVals)]})
		}
		c[i] = d
	}
	return c
}
