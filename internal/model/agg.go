package model

import (
	"fmt"
	"math"
	"sort"
)

// AggSpec is one aggregation request.  Func ∈ count, unique (need GroupBy) and sum, min,
// max, avg, quantile (need Field; GroupBy optional).  Interval>0 builds a time series.
type AggSpec struct {
	Func      string    `json:"func"`
	Field     string    `json:"field,omitempty"`
	GroupBy   string    `json:"group_by,omitempty"`
	Interval  int64     `json:"interval,omitempty"`
	Quantiles []float64 `json:"quantiles,omitempty"`
}

type BucketKey struct {
	Name string
	MID  uint64
}

type Bucket struct {
	Value     float64
	Quantiles []float64
	NotExists int64
	N         int // number of samples (model only)
	// Scale (model only): the magnitude the rounding error of a sum / average is relative to -
	// the sum of the absolute values (divided by N for avg).  Values of opposite sign cancel,
	// and two correct summation orders then differ by far more than a fraction of the result.
	Scale float64
}

type AggRes struct {
	Buckets   map[BucketKey]*Bucket
	NotExists int64
	// PerBucketNotExists: whether per-bucket not-exists counts are defined for this spec
	// (for every statistic function: per time bin, per group, and per group and time bin)
	PerBucketNotExists bool
}

func tokenOf(d *Doc, field string) (string, bool) {
	for i := range d.Toks {
		if d.Toks[i].F == field {
			return d.Toks[i].V, true
		}
	}
	return "", false
}

// Agg computes the aggregation directly from the matching documents' field values.
func Agg(matching []*Doc, s AggSpec) (AggRes, error) {
	res := AggRes{Buckets: map[BucketKey]*Bucket{}}
	bin := func(d *Doc) uint64 {
		if s.Interval <= 0 {
			return 0
		}
		return d.ID.MID - d.ID.MID%uint64(s.Interval)
	}
	get := func(k BucketKey) *Bucket {
		b := res.Buckets[k]
		if b == nil {
			b = &Bucket{}
			res.Buckets[k] = b
		}
		return b
	}
	samples := map[BucketKey][]float64{}
	switch s.Func {
	case "count":
		for _, d := range matching {
			g, ok := tokenOf(d, s.GroupBy)
			if !ok {
				res.NotExists++
				continue
			}
			get(BucketKey{g, bin(d)}).Value++
		}
		return res, nil
	case "unique":
		for _, d := range matching {
			g, ok := tokenOf(d, s.GroupBy)
			if !ok {
				res.NotExists++
				continue
			}
			get(BucketKey{g, 0})
		}
		return res, nil
	}
	res.PerBucketNotExists = true
	for _, d := range matching {
		raw, hasV := tokenOf(d, s.Field)
		var v float64
		if hasV {
			var ok bool
			if v, ok = IsNum(raw); !ok {
				return res, fmt.Errorf("non-numeric field value %q", raw)
			}
		}
		if s.GroupBy == "" {
			k := BucketKey{"", bin(d)}
			b := get(k)
			if !hasV {
				b.NotExists++
				continue
			}
			samples[k] = append(samples[k], v)
			continue
		}
		g, hasG := tokenOf(d, s.GroupBy)
		switch {
		case !hasG && !hasV:
		case !hasG:
			res.NotExists++
		case !hasV:
			get(BucketKey{g, bin(d)}).NotExists++
		default:
			k := BucketKey{g, bin(d)}
			get(k)
			samples[k] = append(samples[k], v)
		}
	}
	for k, b := range res.Buckets {
		xs := samples[k]
		b.N = len(xs)
		if len(xs) == 0 {
			b.Value = math.NaN()
			if s.Func == "quantile" {
				for range s.Quantiles {
					b.Quantiles = append(b.Quantiles, math.NaN())
				}
			}
			continue
		}
		sort.Float64s(xs)
		sum, abs := 0.0, 0.0
		for _, x := range xs {
			sum += x
			abs += math.Abs(x)
		}
		switch s.Func {
		case "sum":
			b.Scale = abs
		case "avg":
			b.Scale = abs / float64(len(xs))
		}
		switch s.Func {
		case "sum":
			b.Value = sum
		case "min":
			b.Value = xs[0]
		case "max":
			b.Value = xs[len(xs)-1]
		case "avg":
			b.Value = sum / float64(len(xs))
		case "quantile":
			for _, q := range s.Quantiles {
				var x float64
				switch {
				case q == 0:
					x = xs[0]
				case q == 1:
					x = xs[len(xs)-1]
				default:
					x = xs[int(float64(len(xs)-1)*q+0.5)]
				}
				b.Quantiles = append(b.Quantiles, x)
			}
			b.Value = b.Quantiles[0]
		default:
			return res, fmt.Errorf("unknown func %q", s.Func)
		}
	}
	return res, nil
}

// CloseEnough: exact for equal values and NaN==NaN; relative tolerance otherwise.
// CloseEnoughScaled: like CloseEnough, with the error bound relative to at least scale.
func CloseEnoughScaled(a, b, tol, scale float64) bool {
	if CloseEnough(a, b, tol) {
		return true
	}
	if math.IsNaN(a) || math.IsNaN(b) || math.IsInf(a, 0) || math.IsInf(b, 0) || math.IsInf(scale, 0) {
		return false
	}
	return math.Abs(a-b) <= tol*scale
}

func CloseEnough(a, b, tol float64) bool {
	if math.IsNaN(a) || math.IsNaN(b) {
		return math.IsNaN(a) && math.IsNaN(b)
	}
	if a == b {
		return true
	}
	d := math.Abs(a - b)
	m := math.Max(math.Abs(a), math.Abs(b))
	return d <= tol*m
}
