// Package model is the deliberately naive reference model of a seq-db store.  It shares
// no code with seq-db: documents are an ID, bytes and a multiset of (field,value) tokens;
// search is "filter every document with a recursive boolean evaluator, sort, cut".
package model

import (
	"bytes"
	"sort"
	"strconv"
	"strings"
)

type ID struct {
	MID uint64 `json:"m"`
	RID uint64 `json:"r"`
}

func (a ID) Less(b ID) bool {
	if a.MID != b.MID {
		return a.MID < b.MID
	}
	return a.RID < b.RID
}

type Tok struct {
	F string `json:"f"`
	V string `json:"v"`
}

type Doc struct {
	ID   ID     `json:"id"`
	Body []byte `json:"body"`
	Toks []Tok  `json:"toks"`
	// Nested: token lists of nested entries (zero-size metas that share the parent's ID
	// and position, directly after the parent) as the proxy emits them for `nested` fields.
	// The model's search ignores them; only checks that say so generate them.
	Nested [][]Tok `json:"nested,omitempty"`
}

// ---------------------------------------------------------------- queries

// Frag is one fragment of a glob pattern: literal text or a wildcard ('*').
type Frag struct {
	Wild bool   `json:"w,omitempty"`
	Text string `json:"t,omitempty"`
}

type Pattern []Frag

func Exact(s string) Pattern { return Pattern{{Text: s}} }

// Q is a query tree node.  Op ∈ and, or, not, lit, range, in, all.
type Q struct {
	Op    string    `json:"op"`
	Kids  []*Q      `json:"kids,omitempty"`
	Field string    `json:"field,omitempty"`
	Pat   Pattern   `json:"pat,omitempty"`
	In    []Pattern `json:"in,omitempty"`
	// range: nil end = unbounded
	From    *string `json:"from,omitempty"`
	To      *string `json:"to,omitempty"`
	IncFrom bool    `json:"incfrom,omitempty"`
	IncTo   bool    `json:"incto,omitempty"`
}

func And(a, b *Q) *Q { return &Q{Op: "and", Kids: []*Q{a, b}} }
func Or(a, b *Q) *Q  { return &Q{Op: "or", Kids: []*Q{a, b}} }
func Not(a *Q) *Q    { return &Q{Op: "not", Kids: []*Q{a}} }
func Lit(f string, p Pattern) *Q {
	return &Q{Op: "lit", Field: f, Pat: p}
}
func All() *Q { return &Q{Op: "all"} }

// Glob reports whether tok matches the pattern: literal fragments must appear in order,
// anchored at the start unless the pattern begins with a wildcard and at the end unless
// it ends with one.  Classic two-pointer matcher over a flattened symbol sequence.
func Glob(p Pattern, tok string) bool {
	// flatten to symbols: byte or wildcard
	type sym struct {
		wild bool
		b    byte
	}
	var syms []sym
	for _, f := range p {
		if f.Wild {
			syms = append(syms, sym{wild: true})
			continue
		}
		for i := 0; i < len(f.Text); i++ {
			syms = append(syms, sym{b: f.Text[i]})
		}
	}
	pi, ti := 0, 0
	star, mark := -1, 0
	for ti < len(tok) {
		switch {
		case pi < len(syms) && !syms[pi].wild && syms[pi].b == tok[ti]:
			pi++
			ti++
		case pi < len(syms) && syms[pi].wild:
			star = pi
			mark = ti
			pi++
		case star >= 0:
			pi = star + 1
			mark++
			ti = mark
		default:
			return false
		}
	}
	for pi < len(syms) && syms[pi].wild {
		pi++
	}
	return pi == len(syms)
}

// IsNum: a finite decimal number as read by float64 parsing.
func IsNum(s string) (float64, bool) {
	f, err := strconv.ParseFloat(s, 64)
	if err != nil {
		return 0, false
	}
	if f != f || f > 1.7976931348623157e308 || f < -1.7976931348623157e308 {
		return 0, false
	}
	return f, true
}

// InRange implements the documented range semantics: numeric iff every given end is a
// number (then non-numeric tokens never match), byte-wise string comparison otherwise.
func InRange(q *Q, tok string) bool {
	numeric := true
	var lo, hi float64
	if q.From != nil {
		v, ok := IsNum(*q.From)
		numeric = numeric && ok
		lo = v
	}
	if q.To != nil {
		v, ok := IsNum(*q.To)
		numeric = numeric && ok
		hi = v
	}
	if numeric {
		v, ok := IsNum(tok)
		if !ok {
			return false
		}
		if q.From != nil {
			if q.IncFrom {
				if !(lo <= v) {
					return false
				}
			} else if !(lo < v) {
				return false
			}
		}
		if q.To != nil {
			if q.IncTo {
				if !(v <= hi) {
					return false
				}
			} else if !(v < hi) {
				return false
			}
		}
		return true
	}
	if q.From != nil {
		c := strings.Compare(*q.From, tok)
		if c > 0 || (c == 0 && !q.IncFrom) {
			return false
		}
	}
	if q.To != nil {
		c := strings.Compare(tok, *q.To)
		if c > 0 || (c == 0 && !q.IncTo) {
			return false
		}
	}
	return true
}

// Eval: does the document satisfy the query?
func Eval(q *Q, d *Doc) bool {
	switch q.Op {
	case "all":
		return true
	case "and":
		return Eval(q.Kids[0], d) && Eval(q.Kids[1], d)
	case "or":
		return Eval(q.Kids[0], d) || Eval(q.Kids[1], d)
	case "not":
		return !Eval(q.Kids[0], d)
	case "lit":
		for i := range d.Toks {
			if d.Toks[i].F == q.Field && Glob(q.Pat, d.Toks[i].V) {
				return true
			}
		}
		return false
	case "in":
		for i := range d.Toks {
			if d.Toks[i].F != q.Field {
				continue
			}
			for _, p := range q.In {
				if Glob(p, d.Toks[i].V) {
					return true
				}
			}
		}
		return false
	case "range":
		for i := range d.Toks {
			if d.Toks[i].F == q.Field && InRange(q, d.Toks[i].V) {
				return true
			}
		}
		return false
	}
	panic("model: unknown op " + q.Op)
}

// EvalDoc: a document is listed iff its own entry or one of its nested entries (each a
// separate index entry under the parent's ID, carrying its own token list) satisfies q.
func EvalDoc(q *Q, d *Doc) bool {
	if Eval(q, d) {
		return true
	}
	for _, n := range d.Nested {
		if Eval(q, &Doc{ID: d.ID, Toks: n}) {
			return true
		}
	}
	return false
}

// ---------------------------------------------------------------- corpus ops

type Corpus []Doc

// Dedup returns the corpus with set semantics on IDs (first occurrence wins).
func (c Corpus) Dedup() Corpus {
	seen := map[ID]bool{}
	out := make(Corpus, 0, len(c))
	for _, d := range c {
		if seen[d.ID] {
			continue
		}
		seen[d.ID] = true
		out = append(out, d)
	}
	return out
}

type SearchReq struct {
	Q         *Q     `json:"q"`
	From      uint64 `json:"from"`
	To        uint64 `json:"to"`
	Asc       bool   `json:"asc,omitempty"`
	Limit     int    `json:"limit"`
	WithTotal bool   `json:"with_total,omitempty"`
	Interval  uint64 `json:"interval,omitempty"`
}

type SearchRes struct {
	IDs   []ID
	Total uint64
	Hist  map[uint64]uint64
}

// Matching returns all matching documents inside [from,to], ordered.
func Matching(c Corpus, r *SearchReq) []*Doc {
	var out []*Doc
	for i := range c {
		d := &c[i]
		if d.ID.MID < r.From || d.ID.MID > r.To {
			continue
		}
		if EvalDoc(r.Q, d) {
			out = append(out, d)
		}
	}
	sort.SliceStable(out, func(i, j int) bool {
		if r.Asc {
			return out[i].ID.Less(out[j].ID)
		}
		return out[j].ID.Less(out[i].ID)
	})
	return out
}

func Search(c Corpus, r *SearchReq) SearchRes {
	m := Matching(c.Dedup(), r)
	res := SearchRes{}
	if r.WithTotal {
		res.Total = uint64(len(m))
	}
	if r.Interval > 0 {
		res.Hist = map[uint64]uint64{}
		for _, d := range m {
			res.Hist[d.ID.MID-d.ID.MID%r.Interval]++
		}
	}
	n := len(m)
	if n > r.Limit {
		n = r.Limit
	}
	for _, d := range m[:n] {
		res.IDs = append(res.IDs, d.ID)
	}
	return res
}

func (c Corpus) Fetch(id ID) ([]byte, bool) {
	for i := range c {
		if c[i].ID == id {
			return c[i].Body, true
		}
	}
	return nil, false
}

func (c Corpus) Index() map[ID]*Doc {
	m := make(map[ID]*Doc, len(c))
	for i := range c {
		if _, ok := m[c[i].ID]; !ok {
			m[c[i].ID] = &c[i]
		}
	}
	return m
}

func EqualIDs(a, b []ID) bool {
	if len(a) != len(b) {
		return false
	}
	for i := range a {
		if a[i] != b[i] {
			return false
		}
	}
	return true
}

func EqualBytes(a, b []byte) bool { return bytes.Equal(a, b) }
