package model

import (
	"strings"
	"unicode"
	"unicode/utf8"
)

// RenderStyle selects among the equivalent spellings of a SeqQL query.  All choices are
// data (drawn by the generator), so a rendered query is a pure function of (Q, style).
type RenderStyle struct {
	Quote     int  `json:"quote,omitempty"`     // 0 "…", 1 '…', 2 `…` where possible, 3 bare where possible
	Composite bool `json:"composite,omitempty"` // render a*b as "a"*"b" instead of "a*b"
	Parens    int  `json:"parens,omitempty"`    // 0 minimal, 1 every binary node, 2 doubled
	Upper     bool `json:"upper,omitempty"`     // AND/OR/NOT in upper case
	Tight     bool `json:"tight,omitempty"`     // no space after ':'
}

func isBareRune(r rune) bool {
	return unicode.IsLetter(r) || unicode.IsDigit(r) || r == '_' || r == '.' || r == '-'
}

func bareOK(s string) bool {
	if s == "" {
		return false
	}
	for _, r := range s {
		if r == utf8.RuneError || !isBareRune(r) || r == 0xE000 {
			return false
		}
	}
	first, _ := utf8.DecodeRuneInString(s)
	if first == '-' { // a leading '-' is a single-rune token of its own; allowed by the grammar but keep clear
		return false
	}
	switch strings.ToLower(s) {
	case "and", "or", "not", "in", "to":
		return false
	}
	return true
}

// quoteText renders literal text (no wildcards inside) in the given quote style.
func quoteText(s string, style int) string {
	switch style {
	case 3:
		if bareOK(s) {
			return s
		}
		style = 0
	case 2:
		if !strings.ContainsRune(s, '`') && !strings.ContainsRune(s, '\r') {
			return "`" + s + "`"
		}
		style = 0
	}
	q := byte('"')
	if style == 1 {
		q = '\''
	}
	var b strings.Builder
	b.WriteByte(q)
	for i := 0; i < len(s); i++ {
		c := s[i]
		switch {
		case c == q || c == '\\' || c == '*':
			b.WriteByte('\\')
			b.WriteByte(c)
		default:
			b.WriteByte(c)
		}
	}
	b.WriteByte(q)
	return b.String()
}

// RenderPattern renders a glob pattern as a SeqQL value.
func RenderPattern(p Pattern, st RenderStyle) string {
	if len(p) == 0 {
		return `""`
	}
	if st.Composite || st.Quote >= 2 {
		var b strings.Builder
		for _, f := range p {
			if f.Wild {
				b.WriteByte('*')
			} else {
				b.WriteString(quoteText(f.Text, st.Quote))
			}
		}
		return b.String()
	}
	q := byte('"')
	if st.Quote == 1 {
		q = '\''
	}
	var b strings.Builder
	b.WriteByte(q)
	for _, f := range p {
		if f.Wild {
			b.WriteByte('*')
			continue
		}
		for i := 0; i < len(f.Text); i++ {
			c := f.Text[i]
			if c == q || c == '\\' || c == '*' {
				b.WriteByte('\\')
			}
			b.WriteByte(c)
		}
	}
	b.WriteByte(q)
	return b.String()
}

func renderField(f string, st RenderStyle) string {
	if bareOK(f) && !strings.Contains(f, "-") {
		return f
	}
	return quoteText(f, st.Quote%2)
}

func kw(s string, st RenderStyle) string {
	if st.Upper {
		return strings.ToUpper(s)
	}
	return s
}

func prec(q *Q) int {
	switch q.Op {
	case "or":
		return 1
	case "and":
		return 2
	case "not":
		return 3
	}
	return 4
}

// RenderSeqQL renders the query under the documented reading: not > and > or.
func RenderSeqQL(q *Q, st RenderStyle) string {
	var b strings.Builder
	renderNode(&b, q, st, 0, true)
	return b.String()
}

func renderNode(b *strings.Builder, q *Q, st RenderStyle, parentPrec int, top bool) {
	p := prec(q)
	need := p < parentPrec
	if st.Parens >= 1 && (q.Op == "and" || q.Op == "or") && !top {
		need = true
	}
	n := 0
	if need {
		n = 1
		if st.Parens == 2 {
			n = 2
		}
	}
	for i := 0; i < n; i++ {
		b.WriteByte('(')
	}
	sep := ": "
	if st.Tight {
		sep = ":"
	}
	switch q.Op {
	case "all":
		if top {
			b.WriteString("*")
		} else {
			b.WriteString("_all_" + sep + "*")
		}
	case "and", "or":
		// left-assoc chains: the left child may have equal precedence without parens,
		// the right child needs strictly higher unless same op (associative).
		renderNode(b, q.Kids[0], st, p, false)
		b.WriteString(" " + kw(q.Op, st) + " ")
		renderNode(b, q.Kids[1], st, p, false)
	case "not":
		b.WriteString(kw("not", st) + " ")
		renderNode(b, q.Kids[0], st, p, false)
	case "lit":
		b.WriteString(renderField(q.Field, st) + sep + RenderPattern(q.Pat, st))
	case "in":
		b.WriteString(renderField(q.Field, st) + sep + kw("in", st) + "(")
		for i, pt := range q.In {
			if i > 0 {
				b.WriteString(", ")
			}
			b.WriteString(RenderPattern(pt, st))
		}
		b.WriteString(")")
	case "range":
		b.WriteString(renderField(q.Field, st) + sep)
		if q.IncFrom {
			b.WriteByte('[')
		} else {
			b.WriteByte('(')
		}
		if q.From == nil {
			b.WriteByte('*')
		} else {
			b.WriteString(quoteText(*q.From, st.Quote))
		}
		b.WriteString(", ")
		if q.To == nil {
			b.WriteByte('*')
		} else {
			b.WriteString(quoteText(*q.To, st.Quote))
		}
		if q.IncTo {
			b.WriteByte(']')
		} else {
			b.WriteByte(')')
		}
	default:
		panic("render: unknown op " + q.Op)
	}
	for i := 0; i < n; i++ {
		b.WriteByte(')')
	}
}
