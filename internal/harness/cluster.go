package harness

import (
	"context"
	"fmt"
	"io"
	"os"
	"path/filepath"
	"slices"

	"google.golang.org/grpc"
	"google.golang.org/protobuf/types/known/emptypb"

	sapi "github.com/ozontech/seq-db/pkg/storeapi"
	"github.com/ozontech/seq-db/proxy/search"
	"github.com/ozontech/seq-db/proxy/stores"
	"github.com/ozontech/seq-db/querytracer"
	"github.com/ozontech/seq-db/seq"

	"verif/internal/model"
)

// Client is an in-memory storeapi.StoreApiClient over the real gRPC handler of one store
// (the repository's own storeapi.NewClient needs a *storeapi.Store, which would create a
// second FracManager; this one reuses the harness store).  The store picks the query
// language from gRPC metadata, so the client attaches it explicitly.
type Client struct {
	A     *API
	SeqQL bool
	// RefuseStart: StartAsyncSearch answers with this error instead of reaching the store
	// (a replica that is unreachable for the moment); set and cleared by the test between calls
	RefuseStart error
}

func (c *Client) Bulk(ctx context.Context, in *sapi.BulkRequest, _ ...grpc.CallOption) (*emptypb.Empty, error) {
	in.Metas = slices.Clone(in.Metas)
	return c.A.G.Bulk(ctx, in)
}

func (c *Client) Search(ctx context.Context, in *sapi.SearchRequest, _ ...grpc.CallOption) (*sapi.SearchResponse, error) {
	return c.A.G.Search(SeqQLCtx(ctx, c.SeqQL), in)
}

func (c *Client) StartAsyncSearch(ctx context.Context, in *sapi.StartAsyncSearchRequest, _ ...grpc.CallOption) (*sapi.StartAsyncSearchResponse, error) {
	if c.RefuseStart != nil {
		return nil, c.RefuseStart
	}
	return c.A.G.StartAsyncSearch(ctx, in)
}

func (c *Client) FetchAsyncSearchResult(ctx context.Context, in *sapi.FetchAsyncSearchResultRequest, _ ...grpc.CallOption) (*sapi.FetchAsyncSearchResultResponse, error) {
	return c.A.G.FetchAsyncSearchResult(ctx, in)
}

type fetchClientStream struct {
	grpc.ClientStream
	buf [][]byte
	pos int
}

func (s *fetchClientStream) Recv() (*sapi.BinaryData, error) {
	if s.pos >= len(s.buf) {
		return nil, io.EOF
	}
	b := s.buf[s.pos]
	s.pos++
	return &sapi.BinaryData{Data: b}, nil
}

func (c *Client) Fetch(ctx context.Context, in *sapi.FetchRequest, _ ...grpc.CallOption) (sapi.StoreApi_FetchClient, error) {
	st := &fetchStream{ctx: ctx}
	if err := c.A.G.Fetch(in, st); err != nil {
		return nil, err
	}
	return &fetchClientStream{buf: st.buf}, nil
}

func (c *Client) Status(ctx context.Context, in *sapi.StatusRequest, _ ...grpc.CallOption) (*sapi.StatusResponse, error) {
	return c.A.G.Status(ctx, in)
}

// Cluster: shards x replicas of in-process stores behind a real proxy search.Ingestor.
type Cluster struct {
	Dir    string
	Stores [][]*API // [shard][replica]
	Ing    *search.Ingestor
	// Clients: the in-memory client of every store, [shard][replica]
	Clients [][]*Client
}

func host(s, r int) string { return fmt.Sprintf("s%dr%d", s, r) }

func NewCluster(dir string, shards, replicas int, o StoreOpts, mapping seq.Mapping, seqql bool) (*Cluster, error) {
	c := &Cluster{Dir: dir}
	clients := map[string]sapi.StoreApiClient{}
	hot := &stores.Stores{}
	for s := 0; s < shards; s++ {
		var row []*API
		var crow []*Client
		var hosts []string
		for r := 0; r < replicas; r++ {
			st, err := OpenStore(filepath.Join(dir, host(s, r)), o)
			if err != nil {
				c.Close()
				return nil, err
			}
			a := NewAPI(st, "", mapping)
			row = append(row, a)
			hosts = append(hosts, host(s, r))
			cl := &Client{A: a, SeqQL: seqql}
			clients[host(s, r)] = cl
			crow = append(crow, cl)
		}
		c.Stores = append(c.Stores, row)
		c.Clients = append(c.Clients, crow)
		hot.Shards = append(hot.Shards, hosts)
		hot.Vers = append(hot.Vers, "")
	}
	c.Ing = search.NewIngestor(search.Config{
		HotStores: hot, HotReadStores: &stores.Stores{}, ReadStores: &stores.Stores{}, WriteStores: &stores.Stores{},
	}, clients)
	return c, nil
}

func (c *Cluster) Close() {
	for _, row := range c.Stores {
		for _, a := range row {
			a.Store.Stop()
		}
	}
	_ = os.RemoveAll(c.Dir)
}

// ProxySearch runs one request through the proxy's search path.
func (c *Cluster) ProxySearch(text string, r *model.SearchReq, offset, size int, aggs []AggSpec, fetch bool) (*seq.QPR, search.DocsIterator, error) {
	order := seq.DocsOrderDesc
	if r.Asc {
		order = seq.DocsOrderAsc
	}
	sr := &search.SearchRequest{
		Q: []byte(text), Offset: offset, Size: size, Interval: seq.MID(r.Interval), From: seq.MID(r.From), To: seq.MID(r.To),
		WithTotal: r.WithTotal, ShouldFetch: fetch, Order: order,
	}
	for _, a := range aggs {
		sr.AggQ = append(sr.AggQ, search.AggQuery{Field: a.Field, GroupBy: a.GroupBy, Func: AggFuncOf(a), Quantiles: a.Quantiles, Interval: seq.MID(a.Interval)})
	}
	qpr, docs, _, err := c.Ing.Search(context.Background(), sr, querytracer.New(false, ""))
	return qpr, docs, err
}
