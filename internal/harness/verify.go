package harness

import (
	"fmt"
	"sort"

	"verif/internal/model"
)

// VerifyErr is a verification failure with a short stable kind.
type VerifyErr struct {
	Kind string
	Msg  string
}

func (e *VerifyErr) Error() string { return e.Kind + ": " + e.Msg }

func verr(kind, f string, a ...any) error { return &VerifyErr{Kind: kind, Msg: fmt.Sprintf(f, a...)} }

// VerifyServed checks through a child store that exactly the documents of corpus are
// served: `*` lists precisely their IDs, every token's exact query equals the model,
// every ID fetches byte-for-byte; ids in `absent` must be not found.  Returns the number
// of oracle comparisons made.
func VerifyServed(p *Proc, corpus model.Corpus, absent []model.ID) (int, error) {
	evals := 0
	to := uint64(1) << 62
	all := &model.SearchReq{Q: model.All(), From: 0, To: to, Limit: 1 << 20, WithTotal: true}
	r, err := p.Do(PCmd{Op: "search", Req: all, Text: "*"})
	if err != nil {
		return evals, verr("died-in-search", "exit %d %s", p.Exit, p.StderrTail())
	}
	if !r.OK {
		return evals, verr("search-error", "%s", r.Err)
	}
	want := model.Search(corpus, all)
	if !model.EqualIDs(r.IDs, want.IDs) {
		served := map[model.ID]bool{}
		for _, id := range r.IDs {
			served[id] = true
		}
		for _, id := range want.IDs {
			if !served[id] {
				return evals, verr("doc-lost", "document %v is not returned by * (%d served, %d expected)", id, len(r.IDs), len(want.IDs))
			}
		}
		return evals, verr("ids-differ", "* returns %d ids, expected %d", len(r.IDs), len(want.IDs))
	}
	evals++
	type tk struct{ f, v string }
	toks := map[tk]bool{}
	for _, d := range corpus {
		for _, t := range d.Toks {
			toks[tk{t.F, t.V}] = true
		}
	}
	keys := make([]tk, 0, len(toks))
	for k := range toks {
		keys = append(keys, k)
	}
	sort.Slice(keys, func(i, j int) bool { return keys[i].f+"\x00"+keys[i].v < keys[j].f+"\x00"+keys[j].v })
	if len(keys) > 80 { // evenly spaced sample of the token list (deterministic)
		step := len(keys) / 80
		var sampled []tk
		for i := 0; i < len(keys); i += step {
			sampled = append(sampled, keys[i])
		}
		keys = sampled
	}
	for _, k := range keys {
		q := model.Lit(k.f, model.Exact(k.v))
		req := &model.SearchReq{Q: q, From: 0, To: to, Limit: 1 << 20, WithTotal: true}
		text := model.RenderSeqQL(q, model.RenderStyle{})
		w := model.Search(corpus, req)
		r, err := p.Do(PCmd{Op: "search", Req: req, Text: text})
		if err != nil {
			return evals, verr("died-in-search", "exit %d %s", p.Exit, p.StderrTail())
		}
		if !r.OK {
			return evals, verr("search-error", "%s: %s", text, r.Err)
		}
		if !model.EqualIDs(r.IDs, w.IDs) || r.Total != w.Total {
			return evals, verr("token-search-differs", "%s: got %d ids total %d, want %d ids total %d", text, len(r.IDs), r.Total, len(w.IDs), w.Total)
		}
		evals++
	}
	idx := corpus.Index()
	var ids []model.ID
	for id := range idx {
		ids = append(ids, id)
	}
	sort.Slice(ids, func(i, j int) bool { return ids[i].Less(ids[j]) })
	ids = append(ids, absent...)
	if len(ids) > 0 {
		r, err := p.Do(PCmd{Op: "fetch", IDs: ids})
		if err != nil {
			return evals, verr("died-in-fetch", "exit %d %s", p.Exit, p.StderrTail())
		}
		if !r.OK {
			return evals, verr("fetch-error", "%s", r.Err)
		}
		for i, id := range ids {
			var wantB []byte
			if d, ok := idx[id]; ok {
				wantB = d.Body
			}
			if !model.EqualBytes(r.Docs[i], wantB) {
				return evals, verr("fetch-bytes-differ", "id %v: got %d bytes %.40q, want %d bytes %.40q", id, len(r.Docs[i]), r.Docs[i], len(wantB), wantB)
			}
		}
		evals++
	}
	return evals, nil
}
