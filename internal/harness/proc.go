package harness

import (
	"bufio"
	"bytes"
	"encoding/json"
	"errors"
	"fmt"
	"io"
	"os"
	"os/exec"
	"path/filepath"
	"sync"
	"syscall"
	"time"

	"verif/internal/model"
)

// Proc is the parent side of cmd/storeproc.
type Proc struct {
	cmd    *exec.Cmd
	in     io.WriteCloser
	out    *bufio.Reader
	stderr *bytes.Buffer
	Dead   bool
	Exit   int    // exit status once dead
	Crash  *PResp // the {"crashed":...} line, if the armed point fired
	mu     sync.Mutex
}

type PCmd struct {
	Op            string           `json:"op"`
	Dir           string           `json:"dir,omitempty"`
	Opts          *StoreOpts       `json:"opts,omitempty"`
	Fsync         bool             `json:"fsync,omitempty"`
	Docs          []model.Doc      `json:"docs,omitempty"`
	Wait          bool             `json:"wait,omitempty"`
	Point         string           `json:"point,omitempty"`
	Arg           string           `json:"arg,omitempty"`
	N             int              `json:"n,omitempty"`
	Req           *model.SearchReq `json:"req,omitempty"`
	Text          string           `json:"text,omitempty"`
	IDs           []model.ID       `json:"ids,omitempty"`
	Hints         []string         `json:"hints,omitempty"`
	Bytes         uint64           `json:"bytes,omitempty"`
	Aggs          []AggSpec        `json:"aggs,omitempty"`
	ID            string           `json:"id,omitempty"`
	Async         bool             `json:"async,omitempty"`
	Docs2         []model.Doc      `json:"docs2,omitempty"`
	MappingFields []string         `json:"mapping_fields,omitempty"`
	DelayPoint    string           `json:"delay_point,omitempty"`
	DelayMs       int              `json:"delay_ms,omitempty"`
}

type PFrac struct {
	Name   string `json:"name"`
	Docs   uint32 `json:"docs"`
	From   uint64 `json:"from"`
	To     uint64 `json:"to"`
	Sealed bool   `json:"sealed"`
	Size   uint64 `json:"size"`
	Pos    int    `json:"pos"`
}

type PResp struct {
	OK      bool              `json:"ok"`
	Err     string            `json:"err,omitempty"`
	IDs     []model.ID        `json:"ids,omitempty"`
	Total   uint64            `json:"total,omitempty"`
	Hist    map[uint64]uint64 `json:"hist,omitempty"`
	Docs    [][]byte          `json:"docs,omitempty"`
	Files   map[string]int64  `json:"files,omitempty"`
	Crashed string            `json:"crashed,omitempty"`
	Arg     string            `json:"arg,omitempty"`
	Fracs   []PFrac           `json:"fracs,omitempty"`
	Points  []string          `json:"points,omitempty"`
	Aggs    []AggOut          `json:"aggs,omitempty"`
	Done    bool              `json:"done,omitempty"`
	Found   bool              `json:"found,omitempty"`
	Failed  string            `json:"failed,omitempty"`
}

var ErrDead = errors.New("store process died")

func storeprocPath() string {
	if b := os.Getenv("VERIF_BUILD"); b != "" {
		return filepath.Join(b, "storeproc"+os.Getenv("VERIF_BIN_TAG"))
	}
	return "/verif/.build/storeproc"
}

func StartProc() (*Proc, error) {
	cmd := exec.Command(storeprocPath())
	cmd.Env = append(os.Environ(), "LOG_LEVEL=fatal")
	in, err := cmd.StdinPipe()
	if err != nil {
		return nil, err
	}
	outp, err := cmd.StdoutPipe()
	if err != nil {
		return nil, err
	}
	p := &Proc{cmd: cmd, in: in, out: bufio.NewReaderSize(outp, 1<<20), stderr: &bytes.Buffer{}}
	cmd.Stderr = p.stderr
	if err := cmd.Start(); err != nil {
		return nil, err
	}
	return p, nil
}

func (p *Proc) reap() {
	if p.Dead {
		return
	}
	p.Dead = true
	err := p.cmd.Wait()
	p.Exit = 0
	if err != nil {
		var ee *exec.ExitError
		if errors.As(err, &ee) {
			if ws, ok := ee.Sys().(syscall.WaitStatus); ok && ws.Signaled() {
				p.Exit = 128 + int(ws.Signal())
			} else {
				p.Exit = ee.ExitCode()
			}
		} else {
			p.Exit = -1
		}
	}
}

// Do sends one command and waits for its response.  If the process dies instead,
// ErrDead is returned and p.Exit / p.Crash / p.Stderr() describe how.
func (p *Proc) Do(c PCmd) (*PResp, error) {
	p.mu.Lock()
	defer p.mu.Unlock()
	if p.Dead {
		return nil, ErrDead
	}
	b, _ := json.Marshal(c)
	b = append(b, '\n')
	if _, err := p.in.Write(b); err != nil {
		p.drain()
		return nil, ErrDead
	}
	for {
		line, err := p.out.ReadBytes('\n')
		if len(line) > 0 {
			var r PResp
			if jerr := json.Unmarshal(line, &r); jerr != nil {
				return nil, fmt.Errorf("bad response %q: %v", line, jerr)
			}
			if r.Crashed != "" {
				p.Crash = &r
				continue
			}
			return &r, nil
		}
		if err != nil {
			p.reap()
			return nil, ErrDead
		}
	}
}

func (p *Proc) drain() {
	for {
		line, err := p.out.ReadBytes('\n')
		if len(line) > 0 {
			var r PResp
			if json.Unmarshal(line, &r) == nil && r.Crashed != "" {
				p.Crash = &r
			}
		}
		if err != nil {
			break
		}
	}
	p.reap()
}

// Kill is kill -9 between operations.
func (p *Proc) Kill() {
	p.mu.Lock()
	defer p.mu.Unlock()
	if p.Dead {
		return
	}
	_ = p.cmd.Process.Kill()
	p.drain()
}

// StopGraceful asks for FracManager.Stop and waits for the exit.
func (p *Proc) StopGraceful() error {
	r, err := p.Do(PCmd{Op: "stop"})
	if err != nil {
		return fmt.Errorf("stop: process died with exit %d: %s", p.Exit, p.StderrTail())
	}
	if !r.OK {
		return fmt.Errorf("stop: %s", r.Err)
	}
	p.mu.Lock()
	defer p.mu.Unlock()
	done := make(chan struct{})
	go func() { p.drain(); close(done) }()
	select {
	case <-done:
	case <-time.After(60 * time.Second):
		_ = p.cmd.Process.Kill()
		<-done
		return fmt.Errorf("stop: process did not exit within 60s")
	}
	return nil
}

func (p *Proc) StderrTail() string {
	s := p.stderr.String()
	if len(s) > 3000 {
		s = "…" + s[len(s)-3000:]
	}
	return s
}

// Open starts a child and opens the store; a start-up failure is what it is: the exit
// status of a process (or an error response).
func OpenProc(dir string, o StoreOpts, fsync bool) (*Proc, error) {
	return OpenProcAsync(dir, o, fsync, false)
}

// OpenProcAsync also starts the store's AsyncSearcher (which resumes unfinished searches).
func OpenProcAsync(dir string, o StoreOpts, fsync, async bool) (*Proc, error) {
	return OpenProcAsyncMapped(dir, o, fsync, async, nil)
}

// OpenProcAsyncMapped: the async searcher parses (and re-parses at a resumption) with a mapping
// that indexes only the given fields; nil = every field.
func OpenProcAsyncMapped(dir string, o StoreOpts, fsync, async bool, fields []string) (*Proc, error) {
	p, err := StartProc()
	if err != nil {
		return nil, err
	}
	r, err := p.Do(PCmd{Op: "open", Dir: dir, Opts: &o, Fsync: fsync, Async: async, MappingFields: fields})
	if err != nil {
		return p, fmt.Errorf("store did not come up: exit status %d, stderr: %s", p.Exit, p.StderrTail())
	}
	if !r.OK {
		p.Kill()
		return p, fmt.Errorf("store did not come up: %s", r.Err)
	}
	return p, nil
}
