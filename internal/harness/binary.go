package harness

// The real seq-db executable (cmd/seq-db, built by the driver as .build/seqdb) started with
// command-line flags, as a deployment starts it: what the flags mean is decided by the wiring
// in package main and in the constructors it calls (defaults, topology strings), which no
// in-process harness reaches.  Stores behind a proxy-mode process are in-test gRPC servers that
// record the bulks they are handed.

import (
	"bytes"
	"context"
	"fmt"
	"net"
	"net/http"
	"os"
	"os/exec"
	"path/filepath"
	"strings"
	"sync"
	"syscall"
	"time"

	"google.golang.org/grpc"
	"google.golang.org/grpc/codes"
	"google.golang.org/grpc/status"
	"google.golang.org/protobuf/types/known/emptypb"

	sapi "github.com/ozontech/seq-db/pkg/storeapi"
)

func seqdbPath() string {
	if b := os.Getenv("VERIF_BUILD"); b != "" {
		return filepath.Join(b, "seqdb"+os.Getenv("VERIF_BIN_TAG"))
	}
	return "/verif/.build/seqdb"
}

// FreeAddr reserves a loopback port for a moment and returns its address.
func FreeAddr() (string, error) {
	l, err := net.Listen("tcp", "127.0.0.1:0")
	if err != nil {
		return "", err
	}
	defer l.Close()
	return l.Addr().String(), nil
}

type Binary struct {
	cmd                       *exec.Cmd
	HTTPAddr, GRPCAddr, Debug string
	out                       bytes.Buffer
	done                      chan struct{}
	exitErr                   error
}

// StartBinary runs seq-db with --addr/--proxy-grpc-addr/--debug-addr on free loopback ports plus
// the given flags and waits until the HTTP port answers.
func StartBinary(flags ...string) (*Binary, error) {
	// the ports are found by listening and closing: another test process may take one in between;
	// only that failure is retried
	for attempt := 0; ; attempt++ {
		b, err := startBinaryOnce(flags...)
		if err == nil || attempt >= 5 || b == nil || !strings.Contains(b.Tail(), "address already in use") {
			return b, err
		}
		b.Kill()
	}
}

func startBinaryOnce(flags ...string) (*Binary, error) {
	b := &Binary{done: make(chan struct{})}
	var err error
	if b.HTTPAddr, err = FreeAddr(); err != nil {
		return nil, err
	}
	if b.GRPCAddr, err = FreeAddr(); err != nil {
		return nil, err
	}
	if b.Debug, err = FreeAddr(); err != nil {
		return nil, err
	}
	args := append([]string{"--addr=" + b.HTTPAddr, "--proxy-grpc-addr=" + b.GRPCAddr, "--debug-addr=" + b.Debug}, flags...)
	b.cmd = exec.Command(seqdbPath(), args...)
	b.cmd.Stdout, b.cmd.Stderr = &b.out, &b.out
	b.cmd.Env = append(os.Environ(), "LOG_LEVEL=error")
	if err := b.cmd.Start(); err != nil {
		return nil, fmt.Errorf("harness: cannot start %s: %v", seqdbPath(), err)
	}
	go func() { b.exitErr = b.cmd.Wait(); close(b.done) }()
	deadline := time.Now().Add(60 * time.Second)
	for {
		select {
		case <-b.done:
			return b, fmt.Errorf("seq-db %v exited during start-up: %v\n%s", flags, b.exitErr, b.Tail())
		default:
		}
		if c, err := net.DialTimeout("tcp", b.HTTPAddr, 200*time.Millisecond); err == nil {
			c.Close()
			if g, err := net.DialTimeout("tcp", b.GRPCAddr, 200*time.Millisecond); err == nil {
				g.Close()
				// the listener may belong to another process that took the port: ours is then about to exit
				time.Sleep(30 * time.Millisecond)
				if b.Alive() {
					return b, nil
				}
				continue
			}
		}
		if time.Now().After(deadline) {
			b.Kill()
			return b, fmt.Errorf("harness: seq-db %v does not listen after 60 s\n%s", flags, b.Tail())
		}
		time.Sleep(10 * time.Millisecond)
	}
}

func (b *Binary) Tail() string {
	s := b.out.String()
	if len(s) > 3000 {
		s = s[len(s)-3000:]
	}
	return s
}

func (b *Binary) Alive() bool {
	select {
	case <-b.done:
		return false
	default:
		return true
	}
}

func (b *Binary) Kill() {
	if b == nil || b.cmd == nil || b.cmd.Process == nil {
		return
	}
	_ = b.cmd.Process.Kill()
	<-b.done
}

// Stop asks for a graceful exit and kills after 10 s.
func (b *Binary) Stop() {
	if b == nil || b.cmd == nil || b.cmd.Process == nil || !b.Alive() {
		return
	}
	_ = b.cmd.Process.Signal(syscall.SIGTERM)
	select {
	case <-b.done:
	case <-time.After(10 * time.Second):
		b.Kill()
	}
}

// PostBulk sends an ES bulk body and returns the status code and the response body.
func (b *Binary) PostBulk(body []byte) (int, []byte, error) {
	cl := &http.Client{Timeout: 120 * time.Second}
	resp, err := cl.Post("http://"+b.HTTPAddr+"/_bulk", "application/x-ndjson", bytes.NewReader(body))
	if err != nil {
		return 0, nil, err
	}
	defer resp.Body.Close()
	var buf bytes.Buffer
	_, _ = buf.ReadFrom(resp.Body)
	return resp.StatusCode, buf.Bytes(), nil
}

// FakeStore is a store as the proxy sees it over the network: a gRPC server whose Bulk either
// records the request or refuses it.
type FakeStore struct {
	sapi.UnimplementedStoreApiServer
	Addr string
	Down bool // Bulk answers Unavailable

	mu    sync.Mutex
	Bulks [][]byte // the docs block of every accepted bulk
	Calls int
	srv   *grpc.Server
}

func StartFakeStore(down bool) (*FakeStore, error) {
	l, err := net.Listen("tcp", "127.0.0.1:0")
	if err != nil {
		return nil, err
	}
	f := &FakeStore{Addr: l.Addr().String(), Down: down, srv: grpc.NewServer(grpc.MaxRecvMsgSize(256 << 20))}
	sapi.RegisterStoreApiServer(f.srv, f)
	go func() { _ = f.srv.Serve(l) }()
	return f, nil
}

func (f *FakeStore) Stop() { f.srv.Stop() }

func (f *FakeStore) Bulk(_ context.Context, in *sapi.BulkRequest) (*emptypb.Empty, error) {
	f.mu.Lock()
	defer f.mu.Unlock()
	f.Calls++
	if f.Down {
		return nil, status.Error(codes.Unavailable, "scripted: store "+f.Addr+" is down")
	}
	f.Bulks = append(f.Bulks, append([]byte{}, in.Docs...))
	return &emptypb.Empty{}, nil
}

func (f *FakeStore) Status(context.Context, *sapi.StatusRequest) (*sapi.StatusResponse, error) {
	return &sapi.StatusResponse{}, nil
}

func (f *FakeStore) Held() int {
	f.mu.Lock()
	defer f.mu.Unlock()
	return len(f.Bulks)
}
