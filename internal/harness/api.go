package harness

import (
	"context"
	"fmt"
	"os"
	"path/filepath"
	"strings"
	"time"

	"google.golang.org/grpc"
	"google.golang.org/grpc/metadata"

	"github.com/ozontech/seq-db/disk"
	"github.com/ozontech/seq-db/fracmanager"
	sapi "github.com/ozontech/seq-db/pkg/storeapi"
	"github.com/ozontech/seq-db/seq"
	"github.com/ozontech/seq-db/storeapi"

	"verif/internal/model"
)

// MappingProv is a fixed mapping provider (nil mapping = every field is a keyword).
type MappingProv struct{ M seq.Mapping }

func (m MappingProv) GetMapping() seq.Mapping { return m.M }

// API puts the store's real gRPC handler (storeapi.GrpcV1) on top of a StoreHarness.
// NewGrpcV1 starts a statistics goroutine that never exits and pins the FracManager;
// the driver recycles test processes every few hundred cases for that reason.
type API struct {
	*Store
	G *storeapi.GrpcV1
}

func NewAPI(st *Store, mode string, mapping seq.Mapping) *API {
	cfg := storeapi.APIConfig{
		StoreMode: mode,
		Bulk:      storeapi.BulkConfig{RequestsLimit: 1000},
		Search: storeapi.SearchConfig{
			WorkersCount: 4, FractionsPerIteration: max(1, st.Opts.FracsPerIter), RequestsLimit: 1000,
			Async: fracmanager.AsyncSearcherConfig{DataDir: filepath.Join(st.Dir, "async_searches")},
		},
	}
	return &API{Store: st, G: storeapi.NewGrpcV1(cfg, st.FM, MappingProv{mapping})}
}

type fetchStream struct {
	grpc.ServerStream
	ctx context.Context
	buf [][]byte
}

func (s *fetchStream) Send(m *sapi.BinaryData) error {
	s.buf = append(s.buf, append([]byte{}, m.Data...))
	return nil
}
func (s *fetchStream) Context() context.Context { return s.ctx }

type Fetched struct {
	ID   model.ID
	Body []byte
}

// FetchGRPC calls the real Fetch handler and decodes the streamed blocks.
func (a *API) FetchGRPC(ids []model.ID, hints []string, filter *sapi.FetchRequest_FieldsFilter) ([]Fetched, error) {
	req := &sapi.FetchRequest{FieldsFilter: filter}
	if hints != nil {
		for i, id := range ids {
			req.IdsWithHints = append(req.IdsWithHints, &sapi.IdWithHint{Id: SeqID(id).String(), Hint: hints[i]})
		}
	} else {
		for _, id := range ids {
			req.Ids = append(req.Ids, SeqID(id).String())
		}
	}
	st := &fetchStream{ctx: context.Background()}
	if err := a.G.Fetch(req, st); err != nil {
		return nil, err
	}
	out := make([]Fetched, len(st.buf))
	for i, b := range st.buf {
		blk := disk.DocBlock(b)
		out[i].ID = model.ID{MID: blk.GetExt1(), RID: blk.GetExt2()}
		body, err := blk.DecompressTo(nil)
		if err != nil {
			return nil, err
		}
		out[i].Body = body
	}
	return out, nil
}

func SeqID(id model.ID) seq.ID { return seq.ID{MID: seq.MID(id.MID), RID: seq.RID(id.RID)} }

// SeqQLCtx marks a request context as using SeqQL (the store picks the language from
// gRPC metadata; absent => conf.UseSeqQLByDefault, i.e. the legacy language).
func SeqQLCtx(ctx context.Context, seqql bool) context.Context {
	v := "false"
	if seqql {
		v = "true"
	}
	return metadata.NewIncomingContext(ctx, metadata.Pairs("use-seq-ql", v))
}

// WaitAsyncIdle waits until every asynchronous search this store has persisted answers "done"
// through the store's own handler (the searcher has no stop: a search still running when the
// test removes the directory ends the process with a fatal log; the in-memory state the handler
// reads is updated after the last file operation).  The ids come from the .info file names.
func (a *API) WaitAsyncIdle(timeout time.Duration) error {
	dir := filepath.Join(a.Store.Dir, "async_searches")
	deadline := time.Now().Add(timeout)
	for {
		busy := ""
		ents, _ := os.ReadDir(dir)
		for _, e := range ents {
			id, ok := strings.CutSuffix(e.Name(), ".info")
			if !ok {
				continue
			}
			r, err := a.G.FetchAsyncSearchResult(context.Background(), &sapi.FetchAsyncSearchResultRequest{SearchId: id, Size: 1})
			if err == nil && !r.Done {
				busy = id
			}
		}
		if busy == "" {
			return nil
		}
		if time.Now().After(deadline) {
			return fmt.Errorf("async search %s still running after %s", busy, timeout)
		}
		time.Sleep(2 * time.Millisecond)
	}
}
