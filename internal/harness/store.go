// Package harness wraps the real seq-db components for the checks.  StoreHarness is an
// in-process FracManager + Searcher + Fetcher on a private data directory.
package harness

import (
	"context"
	"encoding/binary"
	"fmt"
	"os"
	"sort"
	"strconv"
	"sync"
	"time"

	"github.com/ozontech/seq-db/conf"
	"github.com/ozontech/seq-db/frac"
	"github.com/ozontech/seq-db/frac/processor"
	"github.com/ozontech/seq-db/fracmanager"
	"github.com/ozontech/seq-db/parser"
	"github.com/ozontech/seq-db/seq"

	"verif/internal/model"
)

var defaultIndexWorkers = conf.IndexWorkers

func init() {
	// In-process checks do not observe durability below the page cache; skipping fsync
	// makes a case ~10x cheaper.  Crash checks run in child processes that set it back.
	conf.SkipFsync = true
}

type StoreOpts struct {
	FracSize         uint64 `json:"frac_size,omitempty"`
	TotalSize        uint64 `json:"total_size,omitempty"`
	CacheSize        uint64 `json:"cache_size,omitempty"`
	SkipSortDocs     bool   `json:"skip_sort_docs,omitempty"`
	KeepMetaFile     bool   `json:"keep_meta_file,omitempty"`
	ZstdLevel        int    `json:"zstd,omitempty"`
	DocBlockSize     int    `json:"doc_block_size,omitempty"`
	FracsPerIter     int    `json:"fracs_per_iter,omitempty"`
	MaintenanceDelay int    `json:"maintenance_ms,omitempty"`
	Workers          int    `json:"workers,omitempty"`
	CacheCleanupMs   int    `json:"cache_cleanup_ms,omitempty"`
	// NoMaintLoop: maintenance runs only when the harness calls FM.VerifMaintenance
	NoMaintLoop bool `json:"no_maint_loop,omitempty"`
	// AggLimits: the aggregation limits a production store runs with by default
	// (--agg-max-group-tokens 2000, --agg-max-field-tokens 1000000, --agg-max-fraction-tids
	// 100000); zero limits (what the repository's tests use) take other code paths.
	AggLimits bool `json:"agg_limits,omitempty"`
	// IndexWorkers: conf.IndexWorkers for fractions created by this store (0 = NumCPU)
	IndexWorkers int `json:"index_workers,omitempty"`
}

type Store struct {
	Dir      string
	Opts     StoreOpts
	FM       *fracmanager.FracManager
	// Cfg is the configuration the fraction manager reads at every maintenance pass; a check may
	// lower Cfg.TotalSize between passes (no maintenance loop running) as an operator's restart
	// with another limit would, without losing the in-process fraction objects
	Cfg *fracmanager.Config
	Searcher *fracmanager.Searcher
	Fetcher  *fracmanager.Fetcher
	stopped  bool
}

func (o StoreOpts) config(dir string) *fracmanager.Config {
	c := &fracmanager.Config{
		DataDir:          dir,
		FracSize:         o.FracSize,
		TotalSize:        o.TotalSize,
		CacheSize:        o.CacheSize,
		ShouldReplay:     true,
		MaintenanceDelay: time.Hour, // the checks drive rotation themselves unless they ask otherwise
	}
	if c.FracSize == 0 {
		c.FracSize = 1 << 40 // Stop() must not seal unless the case wants it
	}
	if c.TotalSize == 0 {
		c.TotalSize = 1 << 50
	}
	if c.CacheSize == 0 {
		c.CacheSize = 1 << 30
	}
	if o.MaintenanceDelay > 0 {
		c.MaintenanceDelay = time.Duration(o.MaintenanceDelay) * time.Millisecond
	}
	if o.CacheCleanupMs > 0 {
		c.CacheCleanupDelay = time.Duration(o.CacheCleanupMs) * time.Millisecond
	}
	if o.AggLimits {
		c.Fraction.Search.AggLimits = frac.AggLimits{MaxFieldTokens: 1000000, MaxGroupTokens: 2000, MaxTIDsPerFraction: 100000}
	}
	c.Fraction.SkipSortDocs = o.SkipSortDocs
	c.Fraction.KeepMetaFile = o.KeepMetaFile
	if o.ZstdLevel != 0 {
		c.SealParams = frac.SealParams{
			IDsZstdLevel: o.ZstdLevel, LIDsZstdLevel: o.ZstdLevel, TokenListZstdLevel: o.ZstdLevel,
			DocsPositionsZstdLevel: o.ZstdLevel, TokenTableZstdLevel: o.ZstdLevel, DocBlocksZstdLevel: o.ZstdLevel,
		}
	}
	if o.DocBlockSize != 0 {
		c.SealParams.DocBlockSize = o.DocBlockSize
	}
	return c
}

func OpenStore(dir string, o StoreOpts) (*Store, error) {
	if err := os.MkdirAll(dir, 0o755); err != nil {
		return nil, err
	}
	iw := defaultIndexWorkers
	if o.IndexWorkers > 0 {
		iw = o.IndexWorkers
	}
	if conf.IndexWorkers != iw { // a package variable of seq-db: written only when a case asks for it
		conf.IndexWorkers = iw
	}
	cfg := o.config(dir)
	fm := fracmanager.NewFracManager(cfg)
	if err := fm.Load(context.Background()); err != nil {
		return nil, fmt.Errorf("load: %w", err)
	}
	if o.NoMaintLoop {
		fm.VerifStartWithoutMaintenance()
	} else {
		fm.Start()
	}
	w := o.Workers
	if w == 0 {
		w = 4
	}
	fpi := o.FracsPerIter
	return &Store{
		Dir: dir, Opts: o, FM: fm, Cfg: cfg,
		Searcher: fracmanager.NewSearcher(w, fracmanager.SearcherCfg{FractionsPerIteration: fpi}),
		Fetcher:  fracmanager.NewFetcher(w),
	}, nil
}

// EncodeBulk builds the (docs, metas) blocks of one bulk exactly as the proxy does
// (proxy/bulk/processor.go + frac.DocsMetasCompressor): docs = [u32 len][bytes]...,
// metas = [u32 len][MetaData v1]..., nested entries are zero-size metas directly after
// their parent.
func EncodeBulk(docs []model.Doc) ([]byte, []byte) {
	var dbuf, mbuf, one []byte
	appendMeta := func(id model.ID, size int, toks []model.Tok) {
		md := frac.MetaData{ID: seq.ID{MID: seq.MID(id.MID), RID: seq.RID(id.RID)}, Size: uint32(size)}
		for _, t := range toks {
			md.Tokens = append(md.Tokens, frac.MetaToken{Key: []byte(t.F), Value: []byte(t.V)})
		}
		one = md.MarshalBinaryTo(one[:0])
		mbuf = binary.LittleEndian.AppendUint32(mbuf, uint32(len(one)))
		mbuf = append(mbuf, one...)
	}
	for i := range docs {
		d := &docs[i]
		appendMeta(d.ID, len(d.Body), d.Toks)
		for _, n := range d.Nested {
			appendMeta(d.ID, 0, n)
		}
		dbuf = binary.LittleEndian.AppendUint32(dbuf, uint32(len(d.Body)))
		dbuf = append(dbuf, d.Body...)
	}
	c := frac.GetDocsMetasCompressor(-1, -1)
	c.CompressDocsAndMetas(dbuf, mbuf)
	dk, mt := c.DocsMetas()
	// the compressor's buffers are pooled; copy so that callers may keep the blocks
	dk, mt = append([]byte{}, dk...), append([]byte{}, mt...)
	frac.PutDocMetasCompressor(c)
	return dk, mt
}

func (s *Store) Bulk(docs []model.Doc) error {
	if len(docs) == 0 {
		return nil
	}
	dk, mt := EncodeBulk(docs)
	return s.FM.Append(context.Background(), dk, mt)
}

func (s *Store) WaitIdle() { s.FM.WaitIdle() }

// Seal rotates and seals the active fraction (no-op for an empty one).
func (s *Store) Seal() {
	s.FM.WaitIdle()
	s.FM.SealForcedForTests()
}

func (s *Store) Stop() {
	if s.stopped {
		return
	}
	s.stopped = true
	s.FM.WaitIdle()
	s.FM.Stop()
}

// Restart = graceful stop + a new FracManager on the same directory.
func (s *Store) Restart(o *StoreOpts) (*Store, error) {
	s.Stop()
	if o == nil {
		o = &s.Opts
	}
	return OpenStore(s.Dir, *o)
}

func (s *Store) Close() {
	s.Stop()
	_ = os.RemoveAll(s.Dir)
}

func (s *Store) ResetCache() { s.FM.ResetCacheForTests() }

func ToSeqIDs(ids []model.ID) []seq.IDSource {
	out := make([]seq.IDSource, len(ids))
	for i, id := range ids {
		out[i] = seq.IDSource{ID: seq.ID{MID: seq.MID(id.MID), RID: seq.RID(id.RID)}}
	}
	return out
}

func FromSeqIDs(ids seq.IDSources) []model.ID {
	out := make([]model.ID, len(ids))
	for i, id := range ids {
		out[i] = model.ID{MID: uint64(id.ID.MID), RID: uint64(id.ID.RID)}
	}
	return out
}

var parseMu sync.Mutex

// ParseSeqQL parses with the real parser (the search processor is only ever fed
// normalised trees, and the normaliser is not exported).
func ParseSeqQL(text string, mapping seq.Mapping) (*parser.ASTNode, error) {
	q, err := parser.ParseSeqQL(text, mapping)
	if err != nil {
		return nil, err
	}
	return q.Root, nil
}

// AggSpec is the model's aggregation request; the harness converts it for seq-db.
type AggSpec = model.AggSpec

func AggFuncOf(a AggSpec) seq.AggFunc {
	switch a.Func {
	case "count":
		return seq.AggFuncCount
	case "sum":
		return seq.AggFuncSum
	case "min":
		return seq.AggFuncMin
	case "max":
		return seq.AggFuncMax
	case "avg":
		return seq.AggFuncAvg
	case "quantile":
		return seq.AggFuncQuantile
	case "unique":
		return seq.AggFuncUnique
	}
	panic("unknown agg func " + a.Func)
}

var searchAll = []parser.Term{{Kind: parser.TermSymbol, Data: "*"}}

func AggToProcessor(a AggSpec) processor.AggQuery {
	q := processor.AggQuery{Func: AggFuncOf(a), Interval: a.Interval, Quantiles: a.Quantiles}
	if a.Field != "" {
		q.Field = &parser.Literal{Field: a.Field, Terms: searchAll}
	}
	if a.GroupBy != "" {
		q.GroupBy = &parser.Literal{Field: a.GroupBy, Terms: searchAll}
	}
	return q
}

func (s *Store) Params(r *model.SearchReq, text string, aggs []AggSpec) (processor.SearchParams, error) {
	ast, err := ParseSeqQL(text, nil)
	if err != nil {
		return processor.SearchParams{}, fmt.Errorf("parse %q: %w", text, err)
	}
	order := seq.DocsOrderDesc
	if r.Asc {
		order = seq.DocsOrderAsc
	}
	p := processor.SearchParams{
		AST: ast, HistInterval: r.Interval, From: seq.MID(r.From), To: seq.MID(r.To),
		Limit: r.Limit, WithTotal: r.WithTotal, Order: order,
	}
	for _, a := range aggs {
		p.AggQ = append(p.AggQ, AggToProcessor(a))
	}
	return p, nil
}

// Search runs the request over all fractions of the store.
func (s *Store) Search(r *model.SearchReq, text string, aggs []AggSpec) (*seq.QPR, error) {
	p, err := s.Params(r, text, aggs)
	if err != nil {
		return nil, err
	}
	return s.Searcher.SearchDocs(context.Background(), s.FM.GetAllFracs(), p)
}

func (s *Store) Fetch(ids []seq.IDSource) ([][]byte, error) {
	return s.Fetcher.FetchDocs(context.Background(), s.FM.GetAllFracs(), ids)
}

// HistOf converts a QPR histogram to plain uint64 keys.
func HistOf(q *seq.QPR) map[uint64]uint64 {
	if q.Histogram == nil {
		return nil
	}
	m := make(map[uint64]uint64, len(q.Histogram))
	for k, v := range q.Histogram {
		m[uint64(k)] = v
	}
	return m
}

func EqualHist(a, b map[uint64]uint64) bool {
	// zero-valued buckets are equivalent to absent ones
	for k, v := range a {
		if v != 0 && b[k] != v {
			return false
		}
	}
	for k, v := range b {
		if v != 0 && a[k] != v {
			return false
		}
	}
	return true
}

func FmtHist(m map[uint64]uint64) string {
	keys := make([]uint64, 0, len(m))
	for k := range m {
		keys = append(keys, k)
	}
	sort.Slice(keys, func(i, j int) bool { return keys[i] < keys[j] })
	s := "{"
	for _, k := range keys {
		s += fmt.Sprintf("%d:%d ", k, m[k])
	}
	return s + "}"
}

// CompareAgg compares what seq-db reports for one aggregation (after QPR.Aggregate, i.e.
// what the proxy would return) with the value computed by the model from the documents.
func CompareAgg(got seq.AggregationResult, want model.AggRes, s AggSpec) error {
	exactValue := s.Func == "count" || s.Func == "unique" || s.Func == "min" || s.Func == "max" || s.Func == "quantile"
	seen := map[model.BucketKey]bool{}
	for _, b := range got.Buckets {
		if s.Func == "count" && b.Name == "_not_exists" {
			// legacy carrier of the not-exists count
			if int64(b.Value) != want.NotExists {
				return fmt.Errorf("_not_exists bucket %v, want %d", b.Value, want.NotExists)
			}
			continue
		}
		k := model.BucketKey{Name: b.Name, MID: uint64(b.MID)}
		if seen[k] {
			return fmt.Errorf("bucket %v reported twice", k)
		}
		seen[k] = true
		w := want.Buckets[k]
		if w == nil {
			return fmt.Errorf("unexpected bucket %+v value %v", k, b.Value)
		}
		tol := 1e-9
		if exactValue {
			tol = 0
		}
		if !model.CloseEnoughScaled(b.Value, w.Value, tol, w.Scale) {
			return fmt.Errorf("bucket %+v: value %v, want %v", k, b.Value, w.Value)
		}
		if s.Func == "quantile" {
			if len(b.Quantiles) != len(w.Quantiles) {
				return fmt.Errorf("bucket %+v: %d quantiles, want %d", k, len(b.Quantiles), len(w.Quantiles))
			}
			for i := range w.Quantiles {
				if !model.CloseEnough(b.Quantiles[i], w.Quantiles[i], 0) {
					return fmt.Errorf("bucket %+v: quantile[%d]=%v, want %v", k, i, b.Quantiles[i], w.Quantiles[i])
				}
			}
		}
		if want.PerBucketNotExists && b.NotExists != w.NotExists {
			return fmt.Errorf("bucket %+v: not_exists %d, want %d", k, b.NotExists, w.NotExists)
		}
	}
	for k := range want.Buckets {
		if !seen[k] {
			return fmt.Errorf("missing bucket %+v (want value %v)", k, want.Buckets[k].Value)
		}
	}
	if got.NotExists != want.NotExists {
		return fmt.Errorf("not_exists %d, want %d", got.NotExists, want.NotExists)
	}
	return nil
}

// AggArgs are the arguments the proxy passes to QPR.Aggregate for these specs.
func AggArgs(specs []AggSpec) []seq.AggregateArgs {
	args := make([]seq.AggregateArgs, len(specs))
	for i, s := range specs {
		args[i] = seq.AggregateArgs{Func: AggFuncOf(s), Quantiles: s.Quantiles, SkipWithoutTimestamp: s.Interval > 0}
	}
	return args
}

// AggOut is the JSON form of one aggregation's final result (what the proxy would return).
// Floats are carried as strings so that NaN and ±Inf survive JSON.
type AggOut struct {
	NotExists int64       `json:"not_exists"`
	Buckets   []AggBucket `json:"buckets"`
}

type AggBucket struct {
	Name      string   `json:"name"`
	MID       uint64   `json:"mid"`
	Value     string   `json:"value"`
	Quantiles []string `json:"quantiles,omitempty"`
	NotExists int64    `json:"not_exists"`
}

func fstr(f float64) string { return strconv.FormatFloat(f, 'g', -1, 64) }

func AggOuts(q *seq.QPR, specs []AggSpec) []AggOut {
	if len(specs) == 0 {
		return nil
	}
	if len(q.Aggs) < len(specs) {
		// no partial result carried aggregation slots (e.g. no fraction in range): the
		// proxy pads them to the number of requested aggregations, so do the same
		padded := *q
		padded.Aggs = append(append([]seq.AggregatableSamples{}, q.Aggs...), make([]seq.AggregatableSamples, len(specs)-len(q.Aggs))...)
		q = &padded
	}
	res := q.Aggregate(AggArgs(specs))
	out := make([]AggOut, len(res))
	for i, r := range res {
		out[i].NotExists = r.NotExists
		for _, b := range r.Buckets {
			ab := AggBucket{Name: b.Name, MID: uint64(b.MID), Value: fstr(b.Value), NotExists: b.NotExists}
			for _, x := range b.Quantiles {
				ab.Quantiles = append(ab.Quantiles, fstr(x))
			}
			out[i].Buckets = append(out[i].Buckets, ab)
		}
	}
	return out
}

// ToAggregationResult converts the JSON form back for CompareAgg.
func (a AggOut) ToAggregationResult() seq.AggregationResult {
	r := seq.AggregationResult{NotExists: a.NotExists}
	pf := func(s string) float64 { f, _ := strconv.ParseFloat(s, 64); return f }
	for _, b := range a.Buckets {
		ab := seq.AggregationBucket{Name: b.Name, MID: seq.MID(b.MID), Value: pf(b.Value), NotExists: b.NotExists}
		for _, x := range b.Quantiles {
			ab.Quantiles = append(ab.Quantiles, pf(x))
		}
		r.Buckets = append(r.Buckets, ab)
	}
	return r
}
