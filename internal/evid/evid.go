// Package evid is the case journal / coverage counter / failure recorder shared by all
// checks.  Every check funnels its generated cases through Check (rapid campaign),
// Replay (saved JSON cases, bypassing rapid) or Enum (exhaustive enumerators).
//
// Contract with the driver (driver.py):
//
//	VERIF_OUT    directory for this shard's files (shard.json, current.json, fail-*.json)
//	VERIF_PROP   property id (C01..C20)
//	VERIF_TIER   quick|thorough
//	VERIF_REPLAY directory (or file) with saved cases for TestReplay
//
// shard.json is flushed periodically and at the end, so that counters survive a process
// death (logger.Fatal => os.Exit, panic in a background goroutine); current.json always
// holds the case that is executing right now.
package evid

import (
	"crypto/sha256"
	"encoding/hex"
	"encoding/json"
	"fmt"
	"os"
	"path/filepath"
	"runtime/debug"
	"sort"
	"strconv"
	"strings"
	"sync"
	"sync/atomic"
	"testing"
	"time"

	"pgregory.net/rapid"
)

// Result is what runCase reports about a case that did not fail.
type Result struct {
	Labels     []string // shape classes, counted in the evidence histogram
	NonTrivial bool     // by the check's stated rule
	Evals      int      // number of oracle comparisons in this case (default 1)
	Excluded   int      // draws excluded by construction because of a known finding
}

// Failure is a property violation; Sig identifies the failing call site / input class /
// history shape so that known findings can be matched without hiding other violations.
type Failure struct {
	Sig string
	Msg string
}

func (f *Failure) Error() string { return f.Sig + ": " + f.Msg }

func Failf(sig, format string, args ...any) error {
	return &Failure{Sig: sig, Msg: fmt.Sprintf(format, args...)}
}

type failRec struct {
	Sig     string          `json:"sig"`
	Msg     string          `json:"msg"`
	Case    json.RawMessage `json:"case"`
	Test    string          `json:"test"`
	Replay  string          `json:"replay_of,omitempty"`
	Shrunk  bool            `json:"shrunk"`
	Ordinal int             `json:"ordinal"`
}

type shardFile struct {
	Prop        string            `json:"prop"`
	Test        string            `json:"test"`
	Evaluations int               `json:"evaluations"`
	Cases       int               `json:"cases"`
	NonTrivial  int               `json:"nontrivial"`
	Hashes      []string          `json:"hashes"`
	Labels      map[string]int    `json:"labels"`
	Samples     []json.RawMessage `json:"samples"`
	Excluded    int               `json:"excluded"`
	DistinctBC  int               `json:"distinct_by_construction"`
	Exhaustive  map[string]bool   `json:"exhaustive,omitempty"`
	Notes       map[string]any    `json:"notes,omitempty"`
	Failures    []failRec         `json:"failures"`
	Done        bool              `json:"done"`
}

type Recorder struct {
	mu        sync.Mutex
	dir       string
	sf        shardFile
	hashes    map[string]struct{}
	lastFlush time.Time
	nSample   int
	failSeq   int

	// Lazy journal (pure-function checks with millions of cheap cases): the current case
	// is kept in memory and written out by a watcher only if it has been executing for
	// more than 100 ms, which is all a hang needs.  Distinct-by-construction enumerators
	// count non-trivial cases instead of storing one hash each.
	smallest []byte // smallest non-trivial (else any) case seen: the fallback sample
	smallNT  bool
	lazy     bool
	noHashes bool
	cur      atomic.Pointer[[]byte]
	watch    sync.Once
}

// Lazy switches the recorder to the in-memory journal (see above).
func (r *Recorder) Lazy() *Recorder { r.lazy = true; return r }

// DistinctByConstruction: every case the caller yields is distinct, so non-trivial cases
// are counted, not hashed.
func (r *Recorder) DistinctByConstruction() *Recorder { r.noHashes = true; return r }

func (r *Recorder) startWatch() {
	r.watch.Do(func() {
		go func() {
			var last *[]byte
			for {
				time.Sleep(100 * time.Millisecond)
				p := r.cur.Load()
				if p != nil && p == last {
					_ = os.WriteFile(r.path("current.json"), *p, 0o644)
				}
				last = p
			}
		}()
	})
}

var (
	recMu sync.Mutex
	recs  = map[string]*Recorder{}
)

func outDir() string {
	d := os.Getenv("VERIF_OUT")
	if d == "" {
		d = filepath.Join(os.TempDir(), "verif-adhoc")
	}
	_ = os.MkdirAll(d, 0o755)
	return d
}

func Tier() string {
	if t := os.Getenv("VERIF_TIER"); t != "" {
		return t
	}
	return "quick"
}

func Thorough() bool { return Tier() == "thorough" }

// ScratchDir returns a fresh directory for the data of one case.  It lives under
// VERIF_OUT so that nothing a registered command needs is kept in /tmp.
func ScratchDir(prefix string) string {
	d, err := os.MkdirTemp(outDir(), prefix+"-")
	if err != nil {
		panic(err)
	}
	return d
}

func For(t testing.TB) *Recorder {
	name := t.Name()
	if i := strings.IndexByte(name, '/'); i >= 0 {
		name = name[:i]
	}
	recMu.Lock()
	defer recMu.Unlock()
	if r, ok := recs[name]; ok {
		return r
	}
	r := &Recorder{dir: outDir(), hashes: map[string]struct{}{}}
	r.sf.Prop = os.Getenv("VERIF_PROP")
	r.sf.Test = name
	r.sf.Labels = map[string]int{}
	recs[name] = r
	return r
}

func (r *Recorder) path(name string) string {
	return filepath.Join(r.dir, r.sf.Test+"."+name)
}

func (r *Recorder) journal(raw []byte) {
	if r.lazy {
		r.startWatch()
		r.cur.Store(&raw)
		return
	}
	_ = os.WriteFile(r.path("current.json"), raw, 0o644)
}

func (r *Recorder) clearJournal() {
	if r.lazy {
		if r.cur.Swap(nil) != nil {
			return
		}
	}
	_ = os.Remove(r.path("current.json"))
}

func hashOf(raw []byte) string {
	h := sha256.Sum256(raw)
	return hex.EncodeToString(h[:8])
}

func (r *Recorder) ok(raw []byte, res Result) {
	r.mu.Lock()
	defer r.mu.Unlock()
	r.sf.Cases++
	if res.Evals <= 0 {
		res.Evals = 1
	}
	r.sf.Evaluations += res.Evals
	r.sf.Excluded += res.Excluded
	for _, l := range res.Labels {
		r.sf.Labels[l]++
	}
	if r.smallest == nil || (res.NonTrivial && !r.smallNT) || (res.NonTrivial == r.smallNT && len(raw) < len(r.smallest)) {
		r.smallest, r.smallNT = raw, res.NonTrivial
	}
	if res.NonTrivial && r.noHashes {
		r.sf.DistinctBC++
		r.sf.NonTrivial++
		if len(raw) < 6000 && (r.nSample < 3 || (r.nSample < 8 && r.sf.NonTrivial%9973 == 0)) {
			r.sf.Samples = append(r.sf.Samples, json.RawMessage(raw))
			r.nSample++
		}
	} else if res.NonTrivial {
		h := hashOf(raw)
		if _, dup := r.hashes[h]; !dup {
			r.hashes[h] = struct{}{}
			r.sf.NonTrivial++
			// keep a few small non-trivial samples, spread over the run
			if len(raw) < 6000 && (r.nSample < 3 || (r.nSample < 8 && r.sf.NonTrivial%97 == 0)) {
				r.sf.Samples = append(r.sf.Samples, json.RawMessage(raw))
				r.nSample++
			}
		}
	}
	if time.Since(r.lastFlush) > 2*time.Second {
		r.flushLocked(false)
	}
}

func (r *Recorder) fail(raw []byte, f *Failure, replayOf string) {
	r.mu.Lock()
	defer r.mu.Unlock()
	r.failSeq++
	fr := failRec{Sig: f.Sig, Msg: f.Msg, Case: raw, Test: r.sf.Test, Replay: replayOf, Ordinal: r.failSeq}
	// rapid re-runs the property while shrinking; the last failing execution is the
	// minimal one, so for campaign failures we keep only the latest record per test.
	if replayOf == "" {
		kept := r.sf.Failures[:0]
		for _, old := range r.sf.Failures {
			if old.Replay != "" {
				kept = append(kept, old)
			}
		}
		r.sf.Failures = append(kept, fr)
	} else {
		r.sf.Failures = append(r.sf.Failures, fr)
	}
	r.flushLocked(false)
}

// Note records a free-form measured fact in the evidence (e.g. enumerator bounds).
func (r *Recorder) Note(key string, v any) {
	r.mu.Lock()
	defer r.mu.Unlock()
	if r.sf.Notes == nil {
		r.sf.Notes = map[string]any{}
	}
	r.sf.Notes[key] = v
}

func (r *Recorder) Exhaustive(what string) {
	r.mu.Lock()
	defer r.mu.Unlock()
	if r.sf.Exhaustive == nil {
		r.sf.Exhaustive = map[string]bool{}
	}
	r.sf.Exhaustive[what] = true
}

func (r *Recorder) flushLocked(done bool) {
	r.lastFlush = time.Now()
	r.sf.Done = done
	if done && len(r.sf.Samples) == 0 && r.smallest != nil {
		// every case was too big for the sample list: keep the smallest one, cut if huge
		if len(r.smallest) <= 200_000 {
			r.sf.Samples = append(r.sf.Samples, json.RawMessage(r.smallest))
		} else {
			cut, _ := json.Marshal(map[string]any{"case_bytes": len(r.smallest), "case_json_prefix": string(r.smallest[:4000])})
			r.sf.Samples = append(r.sf.Samples, json.RawMessage(cut))
		}
	}
	r.sf.Hashes = r.sf.Hashes[:0]
	for h := range r.hashes {
		r.sf.Hashes = append(r.sf.Hashes, h)
	}
	sort.Strings(r.sf.Hashes)
	raw, err := json.Marshal(&r.sf)
	if err != nil {
		panic(err)
	}
	tmp := r.path("shard.json.tmp")
	_ = os.WriteFile(tmp, raw, 0o644)
	_ = os.Rename(tmp, r.path("shard.json"))
}

func (r *Recorder) Finish() {
	r.mu.Lock()
	defer r.mu.Unlock()
	r.flushLocked(true)
}

// Exec runs one case through run with journalling, panic capture and bookkeeping.
// It returns the failure (nil if the case passed).
func Exec[C any](r *Recorder, c C, replayOf string, run func(C) (Result, error)) (fail *Failure) {
	raw, err := json.Marshal(c)
	if err != nil {
		panic(fmt.Sprintf("case not serialisable: %v", err))
	}
	r.journal(raw)
	var res Result
	func() {
		defer func() {
			if p := recover(); p != nil {
				fail = &Failure{Sig: "panic", Msg: fmt.Sprintf("%v\n%s", p, trimStack(debug.Stack()))}
			}
		}()
		var e error
		res, e = run(c)
		if e != nil {
			if f, ok := e.(*Failure); ok {
				fail = f
			} else {
				fail = &Failure{Sig: "error", Msg: e.Error()}
			}
		}
	}()
	r.clearJournal()
	if fail != nil {
		r.fail(raw, fail, replayOf)
		return fail
	}
	r.ok(raw, res)
	return nil
}

func trimStack(b []byte) string {
	s := string(b)
	if len(s) > 6000 {
		s = s[:6000] + "\n…"
	}
	return s
}

// Check is the rapid campaign entry point.
func Check[C any](t *testing.T, gen func(*rapid.T) C, run func(C) (Result, error)) {
	r := For(t)
	defer r.Finish()
	rapid.Check(t, func(rt *rapid.T) {
		c := gen(rt)
		if f := Exec(r, c, "", run); f != nil {
			rt.Fatalf("%s", f.Error())
		}
	})
}

// Replay runs every saved case under VERIF_REPLAY (a directory or one file) through run,
// bypassing rapid.  All failures are recorded, none stops the loop.
func Replay[C any](t *testing.T, run func(C) (Result, error)) {
	r := For(t)
	defer r.Finish()
	src := os.Getenv("VERIF_REPLAY")
	if src == "" {
		return
	}
	var files []string
	if st, err := os.Stat(src); err == nil && st.IsDir() {
		ents, _ := os.ReadDir(src)
		for _, e := range ents {
			if strings.HasSuffix(e.Name(), ".json") {
				files = append(files, filepath.Join(src, e.Name()))
			}
		}
		sort.Strings(files)
	} else if err == nil {
		files = []string{src}
	}
	for _, f := range files {
		raw, err := os.ReadFile(f)
		if err != nil {
			t.Fatalf("read %s: %v", f, err)
		}
		// a replay file is either a bare case or a failure record {sig,msg,case,test}
		var wrap struct {
			Case json.RawMessage `json:"case"`
			Test string          `json:"test"`
		}
		if json.Unmarshal(raw, &wrap) == nil && len(wrap.Case) > 0 {
			if wrap.Test != "" && !testMatches(wrap.Test, t.Name()) {
				continue
			}
			raw = wrap.Case
		}
		var c C
		if err := json.Unmarshal(raw, &c); err != nil {
			t.Fatalf("decode %s: %v", f, err)
		}
		if fl := Exec(r, c, f, run); fl != nil {
			t.Errorf("replay %s: %s", f, fl.Error())
		}
	}
}

// testMatches: a failure recorded by TestPropX is replayed by TestReplayX.
func testMatches(recorded, replayTest string) bool {
	a := strings.TrimPrefix(strings.TrimPrefix(recorded, "TestProp"), "TestEnum")
	a = strings.TrimPrefix(a, "TestReplay")
	b := strings.TrimPrefix(replayTest, "TestReplay")
	return a == b
}

// Enum drives an exhaustive enumerator: each yielded case goes through run.  It stops
// at the first maxFail failures (default 3) so that an enumerator over a broken tree ends.
func Enum[C any](t *testing.T, each func(yield func(C) bool), run func(C) (Result, error)) {
	r := For(t)
	defer r.Finish()
	fails := 0
	complete := true
	// VERIF_ENUM_SHARD=i, VERIF_ENUM_SHARDS=n: this process takes the cases with index = i mod n
	// (the driver starts n processes for an enumerator with "shards": n)
	shard, shards, idx := 0, 1, -1
	if n, err := strconv.Atoi(os.Getenv("VERIF_ENUM_SHARDS")); err == nil && n > 1 {
		shards = n
		shard, _ = strconv.Atoi(os.Getenv("VERIF_ENUM_SHARD"))
	}
	each(func(c C) bool {
		idx++
		if idx%shards != shard {
			return true
		}
		if f := Exec(r, c, "", run); f != nil {
			// Exec keeps only the latest campaign failure; for enumerators keep the first
			fails++
			t.Errorf("%s", f.Error())
			complete = false
			return false
		}
		return true
	})
	if complete {
		r.Exhaustive(t.Name())
	}
}
