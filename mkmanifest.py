#!/usr/bin/env python3
"""Regenerates MANIFEST.json from checks/*/plan.json (+ manifest_extra in each plan)."""
import json, os, glob, subprocess
ROOT = os.path.dirname(os.path.abspath(__file__))
props = [json.loads(l) for l in open(os.path.join(ROOT, "properties.jsonl"))]
checks, claimed = [], []
CLAIMED = set(open(os.path.join(ROOT, "claimed.txt")).read().split())
for p in props:
    pid = p["id"]
    planp = os.path.join(ROOT, "checks", pid.lower(), "plan.json")
    if not os.path.exists(planp):
        continue
    plan = json.load(open(planp))
    if plan.get("unclaimed") or pid not in CLAIMED:
        continue
    m = plan.get("manifest", {})
    claimed.append(pid)
    checks.append({
        "property_id": pid,
        "quick_cmd": "./check %s quick" % pid,
        "thorough_cmd": "./check %s thorough" % pid,
        "evidence_file": "/verif/evidence/%s.json" % pid,
        "replay_cmd_template": "./check %s --replay {path}" % pid,
        "engine": "vdrive",
        "level_claimed": {"category": plan.get("level", "exploration"), "text": m.get("level_text", ""), "design_ref": "DESIGN.md section 5, " + pid},
        "level_note": m.get("level_note", ""),
        "technique": m.get("technique", ""),
    })
na = []
nap = os.path.join(ROOT, "not_applicable.json")
na_all = json.load(open(nap)) if os.path.exists(nap) else {}
for p in props:
    if p["id"] not in claimed:
        na.append({"property_id": p["id"], "reason": na_all.get(p["id"], "check not built yet in this session (planned in DESIGN.md section 5); not claimed until its quick tier has been validated on the unchanged tree")})
hooks = subprocess.check_output(["git", "-C", "/repo", "log", "--format=%H %s"]).decode().splitlines()
hook_commits = [l.split()[0] for l in hooks if l.split(" ", 1)[1].startswith(("verif hooks", "verifhook", "verif export"))]
man = {
    "version": 1,
    "setup_cmd": "./setup.sh",
    "hooks": {
        "guard": "verif",
        "enable": "Go build tag: every check is built with `go test -c -tags verif` (and cmd/storeproc with `go build -tags verif`) against /repo's working tree through the replace directive in /verif/go.mod",
        "baseline_off_cmd": "cd /repo && go test -mod=mod -json -vet=off -count=1 -timeout 25m ./...",
        "source_commits": hook_commits[::-1],
        "add_only": True,
    },
    "engines": [{"name": "vdrive", "path": "/verif/driver.py", "serves_properties": claimed,
                 "kind_free_text": "builds per-property Go test binaries (pgregory.net/rapid v1.3.0 campaigns sharded by seed, exhaustive small-scope enumerators, native go fuzzing in the thorough tier), child store processes with crash points, replays saved cases bypassing the generator, merges shard journals into evidence"}],
    "checks": checks,
    "not_applicable": na,
    "notes": "Every check: exit 0 = held on everything explored (KNOWN-FINDING lines are not alarms), exit 1 + VIOLATION line = violation not listed in known_findings.json, exit 2 = inconclusive (build error, budget exceeded, worker death not attributable to the code under test). Repaired defects are listed as fixed: entries in known_findings.json.",
}
json.dump(man, open(os.path.join(ROOT, "MANIFEST.json"), "w"), indent=1)
print("claimed:", claimed)
