//go:build verif

// storeproc is a real seq-db store (FracManager + searcher + fetcher) in a child process,
// driven by JSON lines on stdin/stdout.  It exists because seq-db's failure modes on the
// crash/restart paths are process exits (logger.Fatal => os.Exit(1)) and panics in
// background goroutines, neither of which can be observed in-process.
//
// `arm` installs a verifhook callback: the n-th time execution reaches the named point
// the process prints {"crashed":point,...} and exits immediately with status 137 – no
// deferred functions, no flushing, exactly like kill -9 at that instruction.
package main

import (
	"bufio"
	"encoding/json"
	"fmt"
	"math"
	"os"
	"os/signal"
	"path/filepath"
	"reflect"
	"sort"
	"strings"
	"sync"
	"sync/atomic"
	"syscall"
	"time"

	"github.com/ozontech/seq-db/conf"
	"github.com/ozontech/seq-db/fracmanager"
	"github.com/ozontech/seq-db/seq"
	"github.com/ozontech/seq-db/verifhook"

	"verif/internal/harness"
	"verif/internal/model"
)

type Cmd struct {
	Op    string            `json:"op"`
	Dir   string            `json:"dir,omitempty"`
	Opts  harness.StoreOpts `json:"opts,omitempty"`
	Fsync bool              `json:"fsync,omitempty"`
	Docs  []model.Doc       `json:"docs,omitempty"`
	Wait  bool              `json:"wait,omitempty"`
	Point string            `json:"point,omitempty"`
	Arg   string            `json:"arg,omitempty"`
	N     int               `json:"n,omitempty"`
	Req   *model.SearchReq  `json:"req,omitempty"`
	Text  string            `json:"text,omitempty"`
	IDs   []model.ID        `json:"ids,omitempty"`
	Hints []string          `json:"hints,omitempty"`
	Bytes uint64            `json:"bytes,omitempty"`
	Aggs  []harness.AggSpec `json:"aggs,omitempty"`
	ID    string            `json:"id,omitempty"`
	Async bool              `json:"async,omitempty"`
	// burst: Docs and Docs2 are sent as two concurrent bulks; the first goroutine to reach
	// DelayPoint sleeps DelayMs there (schedule perturbation, not a crash)
	MappingFields []string    `json:"mapping_fields,omitempty"`
	Docs2         []model.Doc `json:"docs2,omitempty"`
	DelayPoint    string      `json:"delay_point,omitempty"`
	DelayMs       int         `json:"delay_ms,omitempty"`
}

type Resp struct {
	OK      bool              `json:"ok"`
	Err     string            `json:"err,omitempty"`
	IDs     []model.ID        `json:"ids,omitempty"`
	Total   uint64            `json:"total,omitempty"`
	Hist    map[uint64]uint64 `json:"hist,omitempty"`
	Docs    [][]byte          `json:"docs,omitempty"`
	Files   map[string]int64  `json:"files,omitempty"`
	Crashed string            `json:"crashed,omitempty"`
	Arg     string            `json:"arg,omitempty"`
	Fracs   []FracInfo        `json:"fracs,omitempty"`
	Points  []string          `json:"points,omitempty"`
	Aggs    []harness.AggOut  `json:"aggs,omitempty"`
	Done    bool              `json:"done,omitempty"`
	Found   bool              `json:"found,omitempty"`
	Failed  string            `json:"failed,omitempty"` // fetchasync: the search ended with this error
}

type FracInfo struct {
	Name   string `json:"name"`
	Docs   uint32 `json:"docs"`
	From   uint64 `json:"from"`
	To     uint64 `json:"to"`
	Sealed bool   `json:"sealed"`
	Size   uint64 `json:"size"` // Info.FullSize: what retention adds up
	Pos    int    `json:"pos"`  // position in the fraction manager's list (retention removes from the front)
}

var (
	outMu sync.Mutex
	out   = bufio.NewWriter(os.Stdout)
	dir   string
)

func reply(r Resp) {
	outMu.Lock()
	defer outMu.Unlock()
	b, _ := json.Marshal(r)
	out.Write(b)
	out.WriteByte('\n')
	out.Flush()
}

func listFiles(d string) map[string]int64 {
	m := map[string]int64{}
	_ = filepath.Walk(d, func(p string, info os.FileInfo, err error) error {
		if err != nil || info.IsDir() {
			return nil
		}
		rel, _ := filepath.Rel(d, p)
		m[rel] = info.Size()
		return nil
	})
	return m
}

type armed struct {
	point, arg string
	left       atomic.Int64
}

var (
	armMu   sync.Mutex
	arms    []*armed
	trace   atomic.Bool
	traceMu sync.Mutex
	traced  []string
)

var (
	delayMu    sync.Mutex
	delayPoint string
	delayArg   string
	delayFor   time.Duration
)

func hook(name string, args ...string) {
	delayMu.Lock()
	d := time.Duration(0)
	if delayPoint != "" && delayPoint == name && (delayArg == "" || (len(args) > 0 && args[0] == delayArg)) {
		d, delayPoint = delayFor, ""
	}
	delayMu.Unlock()
	if d > 0 {
		time.Sleep(d)
	}
	if trace.Load() {
		traceMu.Lock()
		s := name
		if len(args) > 0 {
			s += ":" + filepath.Base(args[0])
		}
		traced = append(traced, s)
		traceMu.Unlock()
	}
	armMu.Lock()
	as := arms
	armMu.Unlock()
	for _, a := range as {
		if a.point != name {
			continue
		}
		arg := ""
		if len(args) > 0 {
			arg = args[0]
		}
		if a.arg != "" && a.arg != arg && a.arg != filepath.Base(arg) && !strings.HasSuffix(arg, a.arg) {
			continue
		}
		if a.left.Add(-1) == 0 {
			reply(Resp{OK: false, Crashed: name, Arg: arg, Files: listFiles(dir)})
			os.Exit(137)
		}
	}
}

func main() {
	// a write beyond RLIMIT_FSIZE must fail with EFBIG instead of killing the process
	signal.Ignore(syscall.SIGXFSZ)
	verifhook.Set(hook)
	in := bufio.NewReaderSize(os.Stdin, 1<<20)
	var st *harness.Store
	var as *fracmanager.AsyncSearcher
	dec := json.NewDecoder(in)
	for {
		var c Cmd
		if err := dec.Decode(&c); err != nil {
			// parent went away: behave like a killed process
			os.Exit(3)
		}
		switch c.Op {
		case "open":
			dir = c.Dir
			conf.SkipFsync = !c.Fsync
			s, err := harness.OpenStore(c.Dir, c.Opts)
			if err != nil {
				reply(Resp{Err: err.Error()})
				continue
			}
			st = s
			if c.Async {
				mp := harness.MappingProv{}
				if len(c.MappingFields) > 0 { // only these fields are indexed (all keyword); nil mapping: every field
					mp.M = seq.Mapping{}
					for _, f := range c.MappingFields {
						if name, ok := strings.CutSuffix(f, ":text"); ok { // "name:text": a text field
							mp.M[name] = seq.NewSingleType(seq.TokenizerTypeText, "", 0)
							continue
						}
						mp.M[f] = seq.NewSingleType(seq.TokenizerTypeKeyword, "", 0)
					}
				}
				as = fracmanager.MustStartAsync(fracmanager.AsyncSearcherConfig{DataDir: filepath.Join(c.Dir, "async_searches"), Parallelism: 2}, mp, st.FM)
			}
			reply(Resp{OK: true})
		case "startasync":
			params, err := st.Params(c.Req, c.Text, c.Aggs)
			if err != nil {
				reply(Resp{Err: err.Error()})
				continue
			}
			params.AST = nil // parsed by the async searcher, as the gRPC handler leaves it
			params.Limit = math.MaxInt32
			params.WithTotal = false
			if err := as.StartSearch(fracmanager.AsyncSearchRequest{ID: c.ID, Query: c.Text, Params: params, Retention: 24 * time.Hour}); err != nil {
				reply(Resp{Err: err.Error()})
				continue
			}
			reply(Resp{OK: true})
		case "fetchasync":
			type fres struct {
				fr fracmanager.FetchSearchResultResponse
				ok bool
			}
			fch := make(chan fres, 1)
			go func() {
				fr, ok := as.FetchSearchResult(fracmanager.FetchSearchResultRequest{ID: c.ID})
				fch <- fres{fr, ok}
			}()
			var fr fracmanager.FetchSearchResultResponse
			var ok bool
			select {
			case r := <-fch:
				fr, ok = r.fr, r.ok
			case <-time.After(15 * time.Second):
				reply(Resp{Err: "hang: FetchSearchResult did not return within 15 s"})
				continue
			}
			if !ok {
				reply(Resp{OK: true, Found: false})
				continue
			}
			// a store that can fail a search says so in a field named Error (reflection keeps
			// this harness building against trees without it)
			if f := reflect.ValueOf(fr).FieldByName("Error"); f.IsValid() && f.Kind() == reflect.String && f.String() != "" {
				reply(Resp{OK: true, Found: true, Done: fr.Done, Failed: f.String()})
				continue
			}
			q := fr.QPR
			reply(Resp{OK: true, Found: true, Done: fr.Done, IDs: harness.FromSeqIDs(q.IDs), Total: q.Total, Hist: harness.HistOf(&q), Aggs: harness.AggOuts(&q, c.Aggs)})
		case "arm":
			a := &armed{point: c.Point, arg: c.Arg}
			n := c.N
			if n <= 0 {
				n = 1
			}
			a.left.Store(int64(n))
			armMu.Lock()
			arms = append(arms, a)
			armMu.Unlock()
			reply(Resp{OK: true})
		case "disarm":
			armMu.Lock()
			arms = nil
			armMu.Unlock()
			reply(Resp{OK: true})
		case "trace":
			trace.Store(true)
			reply(Resp{OK: true})
		case "traced":
			traceMu.Lock()
			p := append([]string{}, traced...)
			traceMu.Unlock()
			reply(Resp{OK: true, Points: p})
		case "bulk":
			if err := st.Bulk(c.Docs); err != nil {
				reply(Resp{Err: err.Error()})
				continue
			}
			if c.Wait {
				st.WaitIdle()
			}
			reply(Resp{OK: true})
		case "burst":
			delayMu.Lock()
			delayPoint, delayArg, delayFor = c.DelayPoint, "", time.Duration(c.DelayMs)*time.Millisecond
			delayMu.Unlock()
			errs := make([]error, 2)
			var wg sync.WaitGroup
			wg.Add(2)
			go func() { defer wg.Done(); errs[0] = st.Bulk(c.Docs) }()
			time.Sleep(2 * time.Millisecond) // let the first bulk reach the write path first
			go func() { defer wg.Done(); errs[1] = st.Bulk(c.Docs2) }()
			wg.Wait()
			delayMu.Lock()
			delayPoint = ""
			delayMu.Unlock()
			st.WaitIdle()
			if errs[0] != nil || errs[1] != nil {
				reply(Resp{Err: fmt.Sprintf("%v / %v", errs[0], errs[1])})
				continue
			}
			reply(Resp{OK: true})
		case "waitidle":
			st.WaitIdle()
			reply(Resp{OK: true})
		case "seal":
			st.Seal()
			reply(Resp{OK: true})
		case "delay": // the next goroutine to reach Point (Arg) sleeps there for DelayMs
			delayMu.Lock()
			delayPoint, delayArg, delayFor = c.Point, c.Arg, time.Duration(c.DelayMs)*time.Millisecond
			delayMu.Unlock()
			reply(Resp{OK: true})
		case "sealasync": // rotate now, seal in the background (as the maintenance loop does)
			st.WaitIdle()
			before := st.FM.Active().Info().Name()
			go st.FM.SealForcedForTests()
			ok := false
			for i := 0; i < 2000; i++ {
				if st.FM.Active().Info().Name() != before {
					ok = true
					break
				}
				time.Sleep(time.Millisecond)
			}
			reply(Resp{OK: ok})
		case "maintain":
			st.WaitIdle()
			st.FM.VerifMaintenance()
			reply(Resp{OK: true})
		case "resetcache":
			st.ResetCache()
			reply(Resp{OK: true})
		case "search":
			qpr, err := st.Search(c.Req, c.Text, c.Aggs)
			if err != nil {
				reply(Resp{Err: err.Error()})
				continue
			}
			reply(Resp{OK: true, IDs: harness.FromSeqIDs(qpr.IDs), Total: qpr.Total, Hist: harness.HistOf(qpr), Aggs: harness.AggOuts(qpr, c.Aggs)})
		case "fetch":
			ids := harness.ToSeqIDs(c.IDs)
			for i := range ids {
				if i < len(c.Hints) {
					ids[i].Hint = c.Hints[i]
				}
			}
			docs, err := st.Fetch(ids)
			if err != nil {
				reply(Resp{Err: err.Error(), Docs: docs})
				continue
			}
			reply(Resp{OK: true, Docs: docs})
		case "files":
			reply(Resp{OK: true, Files: listFiles(c.Dir)})
		case "fracs":
			var fi []FracInfo
			for pos, f := range st.FM.GetAllFracs() {
				info := f.Info()
				fi = append(fi, FracInfo{Name: info.Name(), Docs: info.DocsTotal, From: uint64(info.From), To: uint64(info.To), Sealed: info.SealingTime != 0, Size: info.FullSize(), Pos: pos})
			}
			sort.Slice(fi, func(i, j int) bool { return fi[i].Name < fi[j].Name })
			reply(Resp{OK: true, Fracs: fi})
		case "bulkfault":
			// a bulk whose first write attempts hit a file size limit (as a full disk would
			// fail them) that is lifted DelayMs later; the store retries the bulk by itself
			docsFile := st.FM.Active().Info().Path + ".docs"
			fi, err := os.Stat(docsFile)
			if err != nil {
				reply(Resp{Err: err.Error()})
				continue
			}
			lim := syscall.Rlimit{Cur: uint64(fi.Size()) + c.Bytes, Max: ^uint64(0)}
			if err := syscall.Setrlimit(syscall.RLIMIT_FSIZE, &lim); err != nil {
				reply(Resp{Err: err.Error()})
				continue
			}
			done := make(chan error, 1)
			go func() { done <- st.Bulk(c.Docs) }()
			time.Sleep(time.Duration(max(1, c.DelayMs)) * time.Millisecond)
			lim.Cur = ^uint64(0)
			_ = syscall.Setrlimit(syscall.RLIMIT_FSIZE, &lim)
			var berr error
			select {
			case berr = <-done:
			case <-time.After(10 * time.Second):
				reply(Resp{Err: "hang: the bulk did not return within 10 s after the limit was lifted"})
				continue
			}
			if berr != nil {
				reply(Resp{Err: berr.Error()})
				continue
			}
			idle := make(chan struct{})
			go func() { st.WaitIdle(); close(idle) }()
			select {
			case <-idle:
				reply(Resp{OK: true})
			case <-time.After(5 * time.Second):
				reply(Resp{OK: true, Failed: "hang: indexing of the acknowledged bulk did not become idle within 5 s"})
			}
		case "rlimit":
			lim := syscall.Rlimit{Cur: c.Bytes, Max: ^uint64(0)}
			if c.Bytes == 0 {
				lim.Cur = ^uint64(0)
			}
			if err := syscall.Setrlimit(syscall.RLIMIT_FSIZE, &lim); err != nil {
				reply(Resp{Err: err.Error()})
				continue
			}
			reply(Resp{OK: true})
		case "stop":
			if st != nil {
				st.Stop()
			}
			reply(Resp{OK: true})
			os.Exit(0)
		case "sleep":
			time.Sleep(time.Duration(c.N) * time.Millisecond)
			reply(Resp{OK: true})
		default:
			reply(Resp{Err: fmt.Sprintf("unknown op %q", c.Op)})
		}
	}
}

var _ = seq.ID{}
