#!/bin/bash
# Offline setup: pre-build every check's test binary so that the first quick run is warm.
cd "$(dirname "$0")" || exit 1
. ./env.sh
mkdir -p .build .run evidence
rc=0
for d in checks/c*/; do
  p=$(basename "$d")
  go test -c -tags verif -o .build/$p.test ./checks/$p || rc=1
done
for d in cmd/*/; do
  [ -f "$d/main.go" ] || continue
  go build -tags verif -o .build/$(basename $d) ./$d || rc=1
done
exit $rc
