// C06: aggregations and histograms equal values computed from the matching documents,
// in whatever order and grouping the per-fraction / per-shard partial results are merged.
package c06

import (
	"context"
	"fmt"
	"testing"

	"pgregory.net/rapid"

	"github.com/ozontech/seq-db/frac"
	"github.com/ozontech/seq-db/seq"

	"verif/internal/evid"
	"verif/internal/gen"
	"verif/internal/harness"
	"verif/internal/model"
)

type Req struct {
	R     model.SearchReq   `json:"r"`
	Style model.RenderStyle `json:"style"`
	Aggs  []model.AggSpec   `json:"aggs"`
	// Plans: each plan is an ordered partition of the fraction indices into groups; every
	// group is merged with one MergeQPRs call (in the given order) and the group results
	// are then merged with a second call - the shape store-then-proxy merging has.
	Plans [][][]int `json:"plans"`
}

type Case struct {
	Corpus     model.Corpus `json:"corpus"`
	FracOf     []int        `json:"frac_of"`
	K          int          `json:"k"`
	LastActive bool         `json:"last_active"`
	Shards     int          `json:"shards"` // >0: also run through a proxy over this many shards
	ShardOf    []int        `json:"shard_of,omitempty"`
	Reqs       []Req        `json:"reqs"`
	// AggLimits: stores run with the production default aggregation limits (never reached
	// by these corpora) instead of "no limits"
	AggLimits bool `json:"agg_limits,omitempty"`
	// Wide: that many more documents (synthetic, spread over all fractions and shards), each with
	// its own 60..120-byte value of the field uniq: a group-by field whose values fill several
	// blocks of a sealed fraction's token table
	Wide gen.Synth `json:"wide"`
	// WideOne: all synthetic documents go into the first fraction (with Wide.N > 65536 one
	// fraction then holds more than 2^16 distinct tokens of the group-by field)
	WideOne bool `json:"wide_one,omitempty"`
}

func genDoc(t *rapid.T, i int, seen map[model.ID]bool, spread uint64) model.Doc {
	id := model.ID{MID: gen.BaseMID + rapid.Uint64Range(0, spread-1).Draw(t, "mid"), RID: rapid.Uint64Range(0, 30).Draw(t, "rid")}
	for seen[id] {
		id.RID++
	}
	seen[id] = true
	toks := []model.Tok{{F: "_all_", V: ""}}
	add := func(f, v string) { toks = append(toks, model.Tok{F: "_exists_", V: f}, model.Tok{F: f, V: v}) }
	// group and field are single-valued and sometimes missing
	if rapid.IntRange(0, 4).Draw(t, "hasdur") > 0 {
		add("dur", rapid.SampledFrom(gen.DurVals).Draw(t, "dur"))
	}
	if rapid.IntRange(0, 4).Draw(t, "hassvc") > 0 {
		add("svc", rapid.SampledFrom([]string{"a", "ab", "b", "a b", "x*y"}).Draw(t, "svc"))
	}
	if rapid.IntRange(0, 2).Draw(t, "haslvl") > 0 {
		add("lvl", rapid.SampledFrom([]string{"info", "warn", "error"}).Draw(t, "lvl"))
	}
	if rapid.Bool().Draw(t, "hastrace") {
		add("trace", rapid.SampledFrom([]string{"t0", "t1", "t2", "t3"}).Draw(t, "trace"))
	}
	return model.Doc{ID: id, Body: []byte(fmt.Sprintf(`{"i":%d}`, i)), Toks: toks}
}

func genCase(t *rapid.T) Case {
	var c Case
	n := rapid.IntRange(1, 80).Draw(t, "ndocs")
	spread := rapid.SampledFrom([]uint64{1, 5, 50, 5000, 200_000}).Draw(t, "spread")
	seen := map[model.ID]bool{}
	for i := 0; i < n; i++ {
		c.Corpus = append(c.Corpus, genDoc(t, i, seen, spread))
	}
	c.AggLimits = rapid.IntRange(0, 2).Draw(t, "agglimits") > 0
	if rapid.IntRange(0, 9).Draw(t, "wide") == 9 {
		c.Wide = gen.Synth{N: rapid.IntRange(300, 1500).Draw(t, "widen"), PerMID: 3, UniqLen: rapid.IntRange(60, 120).Draw(t, "widelen"), Dur: true}
		if rapid.IntRange(0, 9).Draw(t, "widehuge") == 9 {
			// more than 2^16 distinct values of one field in ONE fraction (group limits off:
			// the production default of 2000 groups would refuse the request)
			c.Wide = gen.Synth{N: rapid.IntRange(65537, 70000).Draw(t, "widehugen"), PerMID: 3, UniqLen: 8, Dur: true}
			c.WideOne = true
			c.AggLimits = false
		}
	}
	c.K = rapid.IntRange(1, 5).Draw(t, "k")
	c.LastActive = rapid.Bool().Draw(t, "lastactive")
	for i := 0; i < n; i++ {
		c.FracOf = append(c.FracOf, rapid.IntRange(0, c.K-1).Draw(t, "frac"))
	}
	if rapid.IntRange(0, 3).Draw(t, "proxy") == 3 {
		c.Shards = rapid.IntRange(1, 3).Draw(t, "shards")
		for i := 0; i < n; i++ {
			c.ShardOf = append(c.ShardOf, rapid.IntRange(0, c.Shards-1).Draw(t, "shard"))
		}
	}
	nreq := rapid.IntRange(1, 4).Draw(t, "nreq")
	for i := 0; i < nreq; i++ {
		r := Req{R: gen.SearchReq(t, c.Corpus, 3), Style: gen.Style(t)}
		if rapid.Bool().Draw(t, "matchall") {
			r.R.Q = model.All()
		}
		r.Aggs = gen.AggSpecs(t, 3)
		if c.Wide.N > 0 && rapid.IntRange(0, 3).Draw(t, "bywide") > 0 {
			a := model.AggSpec{Func: rapid.SampledFrom([]string{"count", "unique", "sum", "max", "avg"}).Draw(t, "widefunc"), GroupBy: "uniq"}
			if a.Func != "count" && a.Func != "unique" {
				a.Field = "dur"
			}
			r.Aggs = append(r.Aggs, a)
		}
		if len(r.Aggs) == 0 {
			r.Aggs = []model.AggSpec{{Func: "sum", Field: "dur", GroupBy: "svc"}}
		}
		np := rapid.IntRange(1, 3).Draw(t, "nplans")
		for p := 0; p < np; p++ {
			perm := rapid.Permutation(seqInts(c.K)).Draw(t, "perm")
			var plan [][]int
			for len(perm) > 0 {
				g := rapid.IntRange(1, len(perm)).Draw(t, "group")
				plan = append(plan, perm[:g])
				perm = perm[g:]
			}
			r.Plans = append(r.Plans, plan)
		}
		c.Reqs = append(c.Reqs, r)
	}
	return c
}

func seqInts(n int) []int {
	out := make([]int, n)
	for i := range out {
		out[i] = i
	}
	return out
}

func emptyQPR(naggs int) *seq.QPR {
	return &seq.QPR{Histogram: map[seq.MID]uint64{}, Aggs: make([]seq.AggregatableSamples, naggs)}
}

func checkQPR(what string, qpr *seq.QPR, corpus model.Corpus, rq *Req, text string) error {
	want := model.Search(corpus, &rq.R)
	got := harness.FromSeqIDs(qpr.IDs)
	if !model.EqualIDs(got, want.IDs) {
		return evid.Failf("ids-differ", "[%s] %q: got %v want %v", what, text, got, want.IDs)
	}
	if rq.R.WithTotal && qpr.Total != want.Total {
		return evid.Failf("total-differs", "[%s] %q: got %d want %d", what, text, qpr.Total, want.Total)
	}
	if rq.R.Interval > 0 && !harness.EqualHist(harness.HistOf(qpr), want.Hist) {
		return evid.Failf("hist-differs", "[%s] %q interval %d: got %s want %s", what, text, rq.R.Interval, harness.FmtHist(harness.HistOf(qpr)), harness.FmtHist(want.Hist))
	}
	matching := model.Matching(corpus.Dedup(), &rq.R)
	ares := qpr.Aggregate(harness.AggArgs(rq.Aggs))
	for ai, spec := range rq.Aggs {
		w, err := model.Agg(matching, spec)
		if err != nil {
			return fmt.Errorf("model: %v", err)
		}
		if err := harness.CompareAgg(ares[ai], w, spec); err != nil {
			return evid.Failf("agg-differs", "[%s] %q agg %+v: %v", what, text, spec, err)
		}
	}
	return nil
}

func runCase(c Case) (evid.Result, error) {
	res := evid.Result{}
	if c.WideOne {
		// "quantiles are exact while a bucket has at most 8096 samples": with tens of thousands
		// of samples they are estimates, so this class asks for no quantiles
		reqs := append([]Req{}, c.Reqs...)
		for i := range reqs {
			var keep []model.AggSpec
			for _, a := range reqs[i].Aggs {
				if a.Func != "quantile" {
					keep = append(keep, a)
				}
			}
			if len(keep) == 0 {
				keep = []model.AggSpec{{Func: "count", GroupBy: "uniq"}}
			}
			reqs[i].Aggs = keep
		}
		c.Reqs = reqs
	}
	if c.Wide.N > 0 {
		c.Corpus = append(model.Corpus{}, c.Corpus...)
		c.FracOf = append([]int{}, c.FracOf...)
		c.ShardOf = append([]int{}, c.ShardOf...)
		for i, d := range c.Wide.Docs() {
			d.ID.RID |= 1 << 40 // distinct from the drawn ids
			c.Corpus = append(c.Corpus, d)
			if c.WideOne {
				c.FracOf = append(c.FracOf, 0)
			} else {
				c.FracOf = append(c.FracOf, i%c.K)
			}
			if c.Shards > 0 {
				c.ShardOf = append(c.ShardOf, i%c.Shards)
			}
		}
		res.Labels = append(res.Labels, "group-by-field-with-hundreds-of-long-values")
		if c.WideOne && c.Wide.N > 1<<16 {
			res.Labels = append(res.Labels, "more-than-65536-distinct-values-in-one-fraction")
		}
	}
	dir := evid.ScratchDir("c06")
	st, err := harness.OpenStore(dir, harness.StoreOpts{AggLimits: c.AggLimits})
	if err != nil {
		return res, err
	}
	defer st.Close()
	var fracs []frac.Fraction // non-empty fractions in creation order, by generated index
	fracIdx := map[int]frac.Fraction{}
	for f := 0; f < c.K; f++ {
		var part model.Corpus
		for i, d := range c.Corpus {
			if c.FracOf[i] == f {
				part = append(part, d)
			}
		}
		if len(part) == 0 {
			continue
		}
		if err := st.Bulk(part); err != nil {
			return res, evid.Failf("bulk-error", "%v", err)
		}
		st.WaitIdle()
		all := st.FM.GetAllFracs()
		fr := all[len(all)-1]
		if !(f == c.K-1 && c.LastActive) {
			st.Seal()
		}
		fracs = append(fracs, fr)
		fracIdx[f] = fr
	}
	var cl *harness.Cluster
	if c.Shards > 0 {
		cl, err = harness.NewCluster(evid.ScratchDir("c06c"), c.Shards, 1, harness.StoreOpts{AggLimits: c.AggLimits}, nil, true)
		if err != nil {
			return res, err
		}
		defer cl.Close()
		for s := 0; s < c.Shards; s++ {
			for f := 0; f < c.K; f++ {
				var part model.Corpus
				for i, d := range c.Corpus {
					if c.ShardOf[i] == s && c.FracOf[i] == f {
						part = append(part, d)
					}
				}
				if len(part) == 0 {
					continue
				}
				if err := cl.Stores[s][0].Bulk(part); err != nil {
					return res, err
				}
				cl.Stores[s][0].WaitIdle()
				if !(f == c.K-1 && c.LastActive) {
					cl.Stores[s][0].Seal()
				}
			}
		}
		res.Labels = append(res.Labels, "through-proxy")
	}
	if c.AggLimits {
		res.Labels = append(res.Labels, "production-agg-limits")
	}
	for i := range c.Reqs {
		rq := &c.Reqs[i]
		text := model.RenderSeqQL(rq.R.Q, rq.Style)
		// (i) through the store over all fractions
		qpr, err := st.Search(&rq.R, text, rq.Aggs)
		if err != nil {
			return res, evid.Failf("search-error", "req %d %q: %v", i, text, err)
		}
		if err := checkQPR("store", qpr, c.Corpus, rq, text); err != nil {
			return res, err
		}
		res.Evals++
		// (ii) per-fraction partial results merged in generated orders and groupings
		params, err := st.Params(&rq.R, text, rq.Aggs)
		if err != nil {
			return res, err
		}
		for pi, plan := range rq.Plans {
			var groupRes []*seq.QPR
			for _, group := range plan {
				var parts []*seq.QPR
				for _, fi := range group {
					fr, ok := fracIdx[fi]
					if !ok {
						continue
					}
					part, err := st.Searcher.SearchDocs(context.Background(), []frac.Fraction{fr}, params)
					if err != nil {
						return res, evid.Failf("search-error", "req %d %q fraction %d: %v", i, text, fi, err)
					}
					parts = append(parts, part)
				}
				if len(parts) == 0 {
					continue
				}
				dst := emptyQPR(len(rq.Aggs))
				seq.MergeQPRs(dst, parts, rq.R.Limit, seq.MID(rq.R.Interval), params.Order)
				groupRes = append(groupRes, dst)
			}
			final := emptyQPR(len(rq.Aggs))
			seq.MergeQPRs(final, groupRes, rq.R.Limit, seq.MID(rq.R.Interval), params.Order)
			if err := checkQPR(fmt.Sprintf("merge plan %d %v", pi, plan), final, c.Corpus, rq, text); err != nil {
				return res, err
			}
			res.Evals++
		}
		// (iii) store -> proxy conversion and proxy-side merge over shards
		if cl != nil {
			pq, _, err := cl.ProxySearch(text, &rq.R, 0, rq.R.Limit, rq.Aggs, false)
			if err != nil {
				return res, evid.Failf("proxy-search-error", "req %d %q: %v", i, text, err)
			}
			if err := checkQPR("proxy", pq, c.Corpus, rq, text); err != nil {
				return res, err
			}
			res.Evals++
		}
		// non-trivial: >= 2 fractions contribute matching documents and some matching
		// document lacks the group or the field
		matching := model.Matching(c.Corpus, &rq.R)
		contributing := map[int]bool{}
		lacks := false
		idxOf := map[model.ID]int{}
		for di, d := range c.Corpus {
			idxOf[d.ID] = di
		}
		for _, d := range matching {
			contributing[c.FracOf[idxOf[d.ID]]] = true
			for _, a := range rq.Aggs {
				if a.Field != "" && !hasTok(d, a.Field) || a.GroupBy != "" && !hasTok(d, a.GroupBy) {
					lacks = true
				}
			}
		}
		if len(contributing) >= 2 && lacks {
			res.NonTrivial = true
		}
		for _, a := range rq.Aggs {
			res.Labels = append(res.Labels, "func:"+a.Func)
			if a.Interval > 0 {
				res.Labels = append(res.Labels, "agg-interval")
			}
			if a.GroupBy != "" && a.Field != "" {
				res.Labels = append(res.Labels, "group+field")
			}
		}
	}
	if len(fracs) >= 2 {
		res.Labels = append(res.Labels, "fracs>=2")
	}
	return res, nil
}

func hasTok(d *model.Doc, f string) bool {
	for _, t := range d.Toks {
		if t.F == f {
			return true
		}
	}
	return false
}

func TestProp(t *testing.T)   { evid.Check(t, genCase, runCase) }
func TestReplay(t *testing.T) { evid.Replay(t, runCase) }
