// C13, part B: sorted on-disk dictionaries split into blocks.
//
// The sealing code that lays a token dictionary out in an index file lives in unexported
// functions of package frac (getTokensBlocksGenerator, writeTokensBlocks,
// writeTokenTableBlocks).  writeDict below re-implements that layout rule on top of the
// exported building blocks (disk.BlocksWriter, disk.BlockFormer, token.TableEntry.Pack)
// with two parameters the real writer fixes: the chunk sizes (the real rule: equal chunks of
// len/blocksCount tokens, smaller last chunk) and the byte threshold at which a physical
// block is flushed (the real one: 16 KiB).  TestPropStore cross-checks the re-implementation
// against the token table of really sealed fractions.  Reading uses the real code only:
// disk.IndexReader, token.TableLoader, token.BlockLoader, token.Table.SelectEntries,
// token.Provider, pattern.Search - glued together exactly as
// sealedTokenIndex.GetTIDsByTokenExpr does.
package c13

import (
	"context"
	"fmt"
	"io"
	"math"
	"os"
	"path/filepath"
	"sort"
	"strconv"
	"sync"
	"testing"

	"github.com/ozontech/seq-db/cache"
	"github.com/ozontech/seq-db/disk"
	"github.com/ozontech/seq-db/frac/token"
	"github.com/ozontech/seq-db/packer"
	"github.com/ozontech/seq-db/parser"
	"github.com/ozontech/seq-db/pattern"

	"verif/internal/evid"
	"verif/internal/model"
)

const realBlockThreshold = 16 * 1024 // consts.RegularBlockSize

// DictField is one field of a dictionary: sorted distinct tokens and the sizes of the
// consecutive chunks (token-table entries) they are written in.
type DictField struct {
	Name   string   `json:"name"`
	Tokens []string `json:"tokens"`
	Chunks []int    `json:"chunks"`
}

// writerChunks is the chunking rule of getTokensBlocksGenerator.
func writerChunks(tokens []string) []int {
	size := 0
	for _, t := range tokens {
		size += len(t)
	}
	blocksCount := size/realBlockThreshold + 1
	blockSize := max(1, len(tokens)/blocksCount) // few huge tokens: at least one token per block
	var out []int
	for n := len(tokens); n > 0; {
		r := min(blockSize, n)
		out = append(out, r)
		n -= r
	}
	return out
}

// producible: can the real chunking rule yield these chunk sizes for some blocksCount?
func producible(chunks []int) bool {
	if len(chunks) == 0 {
		return false
	}
	b := chunks[0]
	for i, c := range chunks {
		if i < len(chunks)-1 && c != b {
			return false
		}
		if i == len(chunks)-1 && c > b {
			return false
		}
	}
	return true
}

// planDict computes the token table the writer produces (no I/O): the rule of
// writeTokensBlocks.  Block 0 of the file is the info block, so token blocks start at 1.
// packed(i) is called with the bytes of each physical block when it is flushed.
func planDict(fields []DictField, threshold int, flush func(data []byte)) (map[string][]token.TableEntry, error) {
	fs := append([]DictField{}, fields...)
	sort.Slice(fs, func(i, j int) bool { return fs[i].Name < fs[j].Name })
	table := map[string][]token.TableEntry{}
	p := packer.NewBytesPacker(nil)
	blockIndex := uint32(1)
	doFlush := func() {
		if len(p.Data) == 0 {
			return
		}
		if flush != nil {
			flush(p.Data)
		}
		p.Data = p.Data[:0]
		blockIndex++
	}
	var startIndex uint32
	cur := uint32(1)
	for _, f := range fs {
		size, n := 0, 0
		for _, t := range f.Tokens {
			size += len(t)
		}
		for _, c := range f.Chunks {
			if c <= 0 {
				return nil, fmt.Errorf("field %q: chunk of %d tokens", f.Name, c)
			}
			n += c
		}
		if n != len(f.Tokens) || n == 0 {
			return nil, fmt.Errorf("field %q: chunks cover %d of %d tokens", f.Name, n, len(f.Tokens))
		}
		if !sort.StringsAreSorted(f.Tokens) {
			return nil, fmt.Errorf("field %q: tokens not sorted", f.Name)
		}
		pos := 0
		for ci, c := range f.Chunks {
			toks := f.Tokens[pos : pos+c]
			if ci == 0 && size > threshold {
				doFlush()
				startIndex = 0
			}
			e := token.TableEntry{StartIndex: startIndex, StartTID: cur, ValCount: uint32(c), BlockIndex: blockIndex, MaxVal: toks[c-1]}
			if ci == 0 {
				e.MinVal = toks[0]
			}
			table[f.Name] = append(table[f.Name], e)
			for _, t := range toks {
				p.PutUint32(uint32(len(t)))
				p.PutBytes([]byte(t))
			}
			p.PutUint32(math.MaxUint32)
			startIndex += uint32(c)
			if len(p.Data) > threshold {
				doFlush()
				startIndex = 0
			}
			cur += uint32(c)
			pos += c
		}
	}
	doFlush()
	return table, nil
}

// writeDict writes an index file holding only what the token readers need: info block
// placeholder, token blocks, separator, token table blocks, separator, registry.
func writeDict(path string, fields []DictField, threshold int) (map[string][]token.TableEntry, error) {
	f, err := os.Create(path)
	if err != nil {
		return nil, err
	}
	defer f.Close()
	if _, err := f.Seek(16, io.SeekStart); err != nil {
		return nil, err
	}
	bw := disk.NewBlocksWriter(f)
	if _, err := bw.WriteBlock("info", []byte("verif-c13"), false, 0, 0, 0); err != nil {
		return nil, err
	}
	var werr error
	table, err := planDict(fields, threshold, func(data []byte) {
		if _, e := bw.WriteBlock("tokens", data, true, 1, 0, 0); e != nil && werr == nil {
			werr = e
		}
	})
	if err != nil {
		return nil, err
	}
	if werr != nil {
		return nil, werr
	}
	bw.WriteEmptyBlock()

	// The token table is cut into physical blocks by the same rule (flush when the packed
	// data exceeds the threshold; 16 KiB in production, so that only tables of hundreds of
	// fields or of long tokens span blocks).  Small thresholds give multi-block tables over
	// small dictionaries: the loader must not care where the cuts are.
	former := disk.NewBlockFormer("token_table", bw, min(realBlockThreshold, threshold), nil)
	names := make([]string, 0, len(table))
	for n := range table {
		names = append(names, n)
	}
	sort.Strings(names)
	for _, n := range names {
		p := former.Packer()
		p.PutStringWithSize(n)
		p.PutUint32(uint32(len(table[n])))
		for i := range table[n] {
			table[n][i].Pack(p)
		}
		if _, err := former.FlushIfNeeded(); err != nil {
			return nil, err
		}
	}
	if err := former.FlushForced(); err != nil {
		return nil, err
	}
	bw.WriteEmptyBlock()
	if err := bw.WriteBlocksRegistry(); err != nil {
		return nil, err
	}
	return table, nil
}

// diskDict reads a dictionary with the real loaders.
type diskDict struct {
	f      *os.File
	reader disk.IndexReader
	table  token.Table
	loader *token.BlockLoader
}

func openDict(path string) (*diskDict, error) {
	f, err := os.Open(path)
	if err != nil {
		return nil, err
	}
	d := &diskDict{f: f}
	d.reader = disk.NewIndexReader(disk.NewReadLimiter(1, nil), f, cache.NewCache[[]byte](nil, nil))
	d.table = token.NewTableLoader(path, &d.reader, cache.NewCache[token.Table](nil, nil)).Load()
	d.loader = token.NewBlockLoader(path, &d.reader, cache.NewCache[*token.CacheEntry](nil, nil))
	return d, nil
}

func (d *diskDict) close() { _ = d.f.Close() }

// search is sealedTokenIndex.GetTIDsByTokenExpr (frac/sealed_index.go) with its receiver's
// fields passed explicitly.
func (d *diskDict) search(t parser.Token) (tids []uint32, selected int, err error) {
	field := parser.GetField(t)
	hint := parser.GetHint(t)
	entries := d.table.SelectEntries(field, hint)
	if len(entries) == 0 {
		return nil, 0, nil
	}
	tp := token.NewProvider(d.loader, entries)
	tids, err = pattern.Search(context.Background(), t, tp)
	return tids, len(entries), err
}

// checkTable: the table read back by token.TableLoader describes what was written.
func (d *diskDict) checkTable(want map[string][]token.TableEntry) error {
	if len(d.table) != len(want) {
		return evid.Failf("table-roundtrip", "token table has %d fields, %d written", len(d.table), len(want))
	}
	for name, ents := range want {
		fd := d.table[name]
		if fd == nil || len(fd.Entries) != len(ents) {
			return evid.Failf("table-roundtrip", "field %q: entries differ from what was written", name)
		}
		if fd.MinVal != ents[0].MinVal {
			return evid.Failf("table-roundtrip", "field %q: MinVal %q, written %q", name, fd.MinVal, ents[0].MinVal)
		}
		for i, e := range ents {
			g := fd.Entries[i]
			if g.StartTID != e.StartTID || g.ValCount != e.ValCount || g.StartIndex != e.StartIndex || g.BlockIndex != e.BlockIndex || g.MaxVal != e.MaxVal {
				return evid.Failf("table-roundtrip", "field %q entry %d: read %+v, written %+v", name, i, *g, e)
			}
		}
	}
	return nil
}

// checkFullScan: every token of the field is readable by TID through a provider over all
// entries, in order - the "scan every token" side of the property.
func (d *diskDict) checkFullScan(field string, tokens []string, startTID uint32) error {
	entries := d.table.SelectEntries(field, "")
	if len(entries) == 0 {
		return evid.Failf("dict-scan", "field %q has no entries", field)
	}
	tp := token.NewProvider(d.loader, entries)
	if tp.FirstTID() != startTID || tp.LastTID() != startTID+uint32(len(tokens))-1 {
		return evid.Failf("dict-scan", "field %q: TIDs %d..%d, want %d..%d", field, tp.FirstTID(), tp.LastTID(), startTID, startTID+uint32(len(tokens))-1)
	}
	// forwards, then a few backward jumps (the provider caches the current block)
	for i, t := range tokens {
		if g := tp.GetToken(startTID + uint32(i)); string(g) != t {
			return evid.Failf("dict-scan", "field %q tid %d: read %q, written %q", field, startTID+uint32(i), g, t)
		}
	}
	for i := len(tokens) - 1; i >= 0; i -= 2 {
		if g := tp.GetToken(startTID + uint32(i)); string(g) != tokens[i] {
			return evid.Failf("dict-scan", "field %q tid %d (backwards): read %q, written %q", field, startTID+uint32(i), g, tokens[i])
		}
	}
	return nil
}

// compareTIDs: got must be exactly {startTID+i : want(tokens[i])} in ascending order.
func compareTIDs(sig, what string, got []uint32, tokens []string, startTID uint32, want func(string) bool) error {
	gi := 0
	for i, t := range tokens {
		tid := startTID + uint32(i)
		w := want(t)
		g := gi < len(got) && got[gi] == tid
		if g {
			gi++
		}
		if g != w {
			return evid.Failf(sig, "%s: token %q (tid %d): on-disk search says match=%v, reference says %v", what, t, tid, g, w)
		}
	}
	if gi != len(got) {
		return evid.Failf(sig+"-tids", "%s: search returned tid %d which is out of order, duplicated or outside the field's %d..%d: %v", what, got[gi], startTID, startTID+uint32(len(tokens))-1, clip(got))
	}
	return nil
}

// ---------------------------------------------------------------- scratch files

var (
	scratchOnce sync.Once
	scratchRoot string
	scratchSeq  int
	scratchMu   sync.Mutex
)

func scratchFile() string {
	scratchOnce.Do(func() { scratchRoot = evid.ScratchDir("c13") })
	scratchMu.Lock()
	defer scratchMu.Unlock()
	scratchSeq++
	return filepath.Join(scratchRoot, "d"+strconv.Itoa(os.Getpid())+"-"+strconv.Itoa(scratchSeq)+".index")
}

func TestMain(m *testing.M) {
	code := m.Run()
	if scratchRoot != "" {
		_ = os.RemoveAll(scratchRoot)
	}
	os.Exit(code)
}

// ---------------------------------------------------------------- one layout case

// neighbour fields: the field under test neither starts at TID 1 nor (with a large
// threshold) at index 0 of its physical block, and is followed by another field.
var (
	neighBefore = DictField{Name: "e", Tokens: []string{"a", "b", "zz"}, Chunks: []int{2, 1}}
	neighAfter  = DictField{Name: "g", Tokens: []string{"", "a"}, Chunks: []int{2}}
)

type LayoutCase struct {
	Tokens    []string `json:"tokens"`    // sorted, distinct
	Chunks    []int    `json:"chunks"`    // sizes of consecutive token-table entries
	Threshold int      `json:"threshold"` // bytes after which a physical block is flushed
	Neigh     bool     `json:"neigh"`
	Alpha     string   `json:"alpha"` // patterns: all of <= PatLen symbols over Alpha + wildcard
	PatLen    int      `json:"patlen"`
	Enc       string   `json:"enc,omitempty"` // "hex": Tokens and Alpha are hex (raw bytes)
}

type layoutStats struct {
	evals        int
	subset, none bool // SelectEntries returned a proper subset / nothing for some query
	border       bool // a matching token sits at a chunk border while entries were pre-selected
	physShared   bool
	physBlocks   int
}

// runDict writes the dictionary, reads it back and runs every query through the on-disk
// search path; pats/ranges are compared with the reference over all tokens of the field.
func runDict(tokens []string, chunks []int, threshold int, neigh bool, pats []model.Pattern, ranges []RangeQ) (layoutStats, error) {
	var st layoutStats
	fields := []DictField{{Name: fieldF, Tokens: tokens, Chunks: chunks}}
	startTID := uint32(1)
	if neigh {
		fields = append(fields, neighBefore, neighAfter)
		startTID += uint32(len(neighBefore.Tokens))
	}
	path := scratchFile()
	defer os.Remove(path)
	written, err := writeDict(path, fields, threshold)
	if err != nil {
		return st, fmt.Errorf("harness: write dictionary: %w", err)
	}
	d, err := openDict(path)
	if err != nil {
		return st, fmt.Errorf("harness: open dictionary: %w", err)
	}
	defer d.close()
	if err := d.checkTable(written); err != nil {
		return st, err
	}
	if err := d.checkFullScan(fieldF, tokens, startTID); err != nil {
		return st, err
	}
	blocks := map[uint32]int{}
	for _, e := range written[fieldF] {
		blocks[e.BlockIndex]++
		if blocks[e.BlockIndex] > 1 || e.StartIndex > 0 {
			st.physShared = true
		}
	}
	st.physBlocks = len(blocks)

	// chunk borders: index of the first token of every chunk but the first
	border := make([]bool, len(tokens)+1)
	pos := 0
	for i, c := range chunks {
		if i > 0 {
			border[pos] = true   // first token of a chunk
			border[pos-1] = true // last token of the previous one
		}
		pos += c
	}
	nEntries := len(chunks)

	for _, p := range pats {
		lit := toLiteral(fieldF, p)
		got, selected, err := d.search(lit)
		if err != nil {
			return st, evid.Failf("dict-search-error", "pattern %s: %v", patString(p), err)
		}
		want := func(t string) bool { return model.Glob(p, t) }
		if err := compareTIDs("dict-glob", fmt.Sprintf("pattern %s, chunks %v, %d of %d entries pre-selected", patString(p), chunks, selected, nEntries), got, tokens, startTID, want); err != nil {
			return st, err
		}
		st.evals++
		if selected == 0 {
			st.none = true
		} else if selected < nEntries {
			st.subset = true
		}
		if parser.GetHint(lit) != "" && nEntries > 1 {
			for _, tid := range got {
				if border[tid-startTID] {
					st.border = true
					break
				}
			}
		}
	}
	for _, r := range ranges {
		got, _, err := d.search(r.token(fieldF))
		if err != nil {
			return st, evid.Failf("dict-search-error", "range %s: %v", r, err)
		}
		q := r.model()
		if err := compareTIDs("dict-range", fmt.Sprintf("range %s, chunks %v", r, chunks), got, tokens, startTID, func(t string) bool { return model.InRange(q, t) }); err != nil {
			return st, err
		}
		st.evals++
	}
	// a field that is not in the dictionary, and the neighbours keep their own TIDs
	if got, _, err := d.search(toLiteral("nope", model.Pattern{{Wild: true}})); err != nil || len(got) != 0 {
		return st, evid.Failf("dict-absent-field", "search on an absent field returned %v, %v", got, err)
	}
	return st, nil
}

func sp(s string) *string { return &s }

var layoutRanges = []RangeQ{
	{From: sp("a"), To: sp("b"), IncFrom: true, IncTo: true},
	{From: sp("a"), To: sp("b")},
	{From: sp("ab"), To: nil, IncFrom: true},
	{From: nil, To: sp("ab")},
	{From: sp(""), To: sp("ba"), IncFrom: false, IncTo: true},
	{From: sp("b"), To: sp("a"), IncFrom: true, IncTo: true},
}

var layoutRangesRaw = []RangeQ{
	{From: sp("\x00"), To: sp("\xff"), IncFrom: true, IncTo: true},
	{From: sp("\x00"), To: sp("\xff")},
	{From: sp("a"), To: nil, IncFrom: true},
	{From: nil, To: sp("a\xff")},
	{From: sp("\xff"), To: nil, IncFrom: false},
	{From: sp(""), To: sp("\x00\xff"), IncFrom: false, IncTo: true},
}

func runLayout(c LayoutCase) (evid.Result, error) {
	res := evid.Result{}
	var err error
	if c.Tokens, err = decStrings(c.Enc, c.Tokens); err != nil {
		return res, err
	}
	if c.Alpha, err = unhx(c.Enc, c.Alpha); err != nil {
		return res, err
	}
	ranges := layoutRanges
	if c.Enc == encHex {
		ranges = layoutRangesRaw
	}
	st, err := runDict(c.Tokens, c.Chunks, c.Threshold, c.Neigh, allPatterns(c.Alpha, c.PatLen), ranges)
	if err != nil {
		return res, err
	}
	res.Evals = st.evals
	res.Labels = layoutLabels(c.Chunks, st)
	if c.Enc == encHex {
		res.Labels = append(res.Labels, "alphabet:rawbytes")
		for _, t := range c.Tokens {
			if len(t) > 0 && t[0] == 0xff {
				res.Labels = append(res.Labels, "dict-has-0xff-prefixed-token")
				break
			}
		}
	}
	// non-trivial: >= 2 blocks, and for some hinted pattern (entries pre-selected) a matching
	// token sits directly at a block border
	res.NonTrivial = len(c.Chunks) >= 2 && st.border
	return res, nil
}

func layoutLabels(chunks []int, st layoutStats) []string {
	l := []string{"entries:" + strconv.Itoa(min(len(chunks), 6)), "physical-blocks:" + strconv.Itoa(min(st.physBlocks, 4))}
	if producible(chunks) {
		l = append(l, "layout:writer-rule")
	} else {
		l = append(l, "layout:other-split")
	}
	if st.physShared {
		l = append(l, "entries-share-physical-block")
	}
	if st.subset {
		l = append(l, "preselect:proper-subset")
	}
	if st.none {
		l = append(l, "preselect:nothing")
	}
	if st.border {
		l = append(l, "match-at-block-border")
	}
	return l
}

// eachSubset yields every non-empty subset of u with at most maxN elements (in order).
func eachSubset(u []string, maxN int, yield func([]string) bool) {
	var cur []string
	var rec func(i int) bool
	rec = func(i int) bool {
		if i == len(u) {
			if len(cur) == 0 {
				return true
			}
			return yield(append([]string{}, cur...))
		}
		if len(cur) < maxN {
			cur = append(cur, u[i])
			if !rec(i + 1) {
				return false
			}
			cur = cur[:len(cur)-1]
		}
		return rec(i + 1)
	}
	rec(0)
}

// eachComposition yields every way to cut n items into consecutive non-empty chunks.
func eachComposition(n int, yield func([]int) bool) {
	for mask := 0; mask < 1<<(n-1); mask++ {
		var chunks []int
		run := 1
		for i := 0; i < n-1; i++ {
			if mask>>i&1 == 1 {
				chunks = append(chunks, run)
				run = 1
			} else {
				run++
			}
		}
		chunks = append(chunks, run)
		if !yield(chunks) {
			return
		}
	}
}

var layoutThresholds = []int{0, 9, realBlockThreshold}

func TestEnumLayout(t *testing.T) {
	r := evid.For(t).Lazy().DistinctByConstruction()
	// scope 1: all dictionaries over the tokens of length <= 2, every size, every split, every threshold
	// scope 2: all dictionaries of <= N tokens over the tokens of length <= 3, every split; thresholds rotate
	//          in the quick tier and are all taken in the thorough tier
	maxN := envInt("C13_DICT_MAX", 4)
	patLen := envInt("C13_DICT_PATLEN", 4)
	allThr := envInt("C13_DICT_ALLTHR", 0) > 0
	r.Note("layout_scope1", "every non-empty subset of the 7 tokens over {a,b} of length <= 2 x every split into consecutive chunks x flush thresholds "+fmt.Sprint(layoutThresholds)+" x with/without neighbour fields")
	r.Note("layout_scope2_max_tokens", maxN)
	r.Note("layout_scope2", "every dictionary of <= max_tokens tokens over the 15 tokens over {a,b} of length <= 3 x every split; neighbour fields present")
	r.Note("layout_scope2_all_thresholds", allThr)
	r.Note("layout_patterns_per_case", len(allPatterns("ab", patLen)))
	r.Note("layout_max_pattern_symbols", patLen)
	r.Note("layout_ranges_per_case", len(layoutRanges))
	rawN, rawPatLen := envInt("C13_RAWDICT_MAX", 3), envInt("C13_RAWDICT_PATLEN", 4)
	r.Note("layout_raw_scope", "every dictionary of <= max_tokens tokens over the 13 byte strings of length <= 2 over {a, 0x00, 0xff} x every split; neighbour fields present")
	r.Note("layout_raw_max_tokens", rawN)
	r.Note("layout_raw_patterns_per_case", len(allPatterns(rawAlpha, rawPatLen)))
	evid.Enum(t, func(yield func(LayoutCase) bool) {
		ok := true
		eachSubset(universe("ab", 2), 7, func(toks []string) bool {
			eachComposition(len(toks), func(chunks []int) bool {
				for _, thr := range layoutThresholds {
					for _, neigh := range []bool{false, true} {
						if ok = yield(LayoutCase{Tokens: toks, Chunks: chunks, Threshold: thr, Neigh: neigh, Alpha: "ab", PatLen: patLen}); !ok {
							return false
						}
					}
				}
				return true
			})
			return ok
		})
		if !ok {
			return
		}
		i := 0
		eachSubset(universe("ab", 3), maxN, func(toks []string) bool {
			long := false
			for _, t := range toks {
				long = long || len(t) == 3
			}
			if !long { // covered by scope 1
				return true
			}
			eachComposition(len(toks), func(chunks []int) bool {
				i++
				thrs := layoutThresholds
				if !allThr {
					thrs = layoutThresholds[i%3 : i%3+1]
				}
				for _, thr := range thrs {
					if ok = yield(LayoutCase{Tokens: toks, Chunks: chunks, Threshold: thr, Neigh: true, Alpha: "ab", PatLen: patLen}); !ok {
						return false
					}
				}
				return true
			})
			return ok
		})
		if !ok {
			return
		}
		// raw bytes: every dictionary of <= rawN tokens over the 13 byte strings of length <= 2
		// over {a, 0x00, 0xff} x every split; thresholds rotate (all of them with C13_DICT_ALLTHR)
		eachSubset(universe(rawAlpha, 2), rawN, func(toks []string) bool {
			eachComposition(len(toks), func(chunks []int) bool {
				i++
				thrs := layoutThresholds
				if !allThr {
					thrs = layoutThresholds[i%3 : i%3+1]
				}
				for _, thr := range thrs {
					if ok = yield(LayoutCase{Tokens: encStrings(toks), Chunks: chunks, Threshold: thr, Neigh: true, Alpha: hx(rawAlpha), PatLen: rawPatLen, Enc: encHex}); !ok {
						return false
					}
				}
				return true
			})
			return ok
		})
	}, runLayout)
}

func TestReplayLayout(t *testing.T) { evid.Replay(t, runLayout) }
