// C13: native fuzz target (thorough tier).  Input: a pattern text ('*' = wildcard, '\*' =
// data asterisk) and a newline-separated token list.  Tokens and pattern text are arbitrary
// bytes: the store keeps tokens as bytes and SeqQL string literals keep raw bytes / \xNN.
package c13

import (
	"sort"
	"strings"
	"testing"

	"verif/internal/model"
)

func parseFuzzPattern(s string) model.Pattern {
	var p model.Pattern
	var cur strings.Builder
	flush := func() {
		if cur.Len() > 0 {
			p = append(p, model.Frag{Text: cur.String()})
			cur.Reset()
		}
	}
	for i := 0; i < len(s); i++ {
		switch {
		case s[i] == '\\' && i+1 < len(s) && s[i+1] == '*':
			cur.WriteByte('*')
			i++
		case s[i] == '*':
			flush()
			p = append(p, model.Frag{Wild: true})
		default:
			cur.WriteByte(s[i])
		}
	}
	flush()
	return normPat(p)
}

func FuzzGlob(f *testing.F) {
	seeds := [][2]string{
		{"ab*ba", "aba\nabba\nabxba\nab\nba\n"},
		{"a*a*a", "aa\naaa\naaaa\na\n"},
		{"*aba*aba*", "ababa\nabaaba\nabababa\n"},
		{"abab*ab", "abab\nababab\nababa\n"},
		{"", "\na\n"},
		{"**", "\nx\n"},
		{`a\**`, "a*\na*b\nab\n"},
		{"é*é", "é\néé\nèé\n\xc3"},
		{"pre*mid*suf", "premidsuf\npremisuf\npresuf\nprexmidxsuf\n"},
		{"*abc", "abc\nxabc\nabcx\nababc\n"},
		{"\xff*", "\xff\n\xffa\n\xfe\xff\na\n\x00\n"},
		{"a\xff*a", "a\xffa\na\xff\xffa\nb\na\x00a\n"},
		{"\x00*\x00", "\x00\n\x00\x00\n\x00a\x00\n"},
	}
	for _, s := range seeds {
		f.Add(s[0], s[1])
	}
	f.Fuzz(func(t *testing.T, pat string, toks string) {
		if len(pat) > 256 || len(toks) > 4096 {
			return
		}
		p := parseFuzzPattern(pat)
		seen := map[string]bool{}
		var tokens []string
		for _, tk := range strings.Split(toks, "\n") {
			if !seen[tk] {
				seen[tk] = true
				tokens = append(tokens, tk)
			}
		}
		// also tokens derived from the pattern itself: its text, and all fragments glued
		glued := ""
		for _, fr := range p {
			glued += fr.Text
		}
		for _, tk := range []string{glued, glued + glued} {
			if !seen[tk] {
				seen[tk] = true
				tokens = append(tokens, tk)
			}
		}
		sorted := append([]string{}, tokens...)
		sort.Strings(sorted)
		lit := toLiteral(fieldF, p)
		want := func(s string) bool { return model.Glob(p, s) }
		if err := checkSearch("glob-unordered", "pattern "+patString(p)+" over an unordered provider", lit, newProvider(tokens, 1, false), want); err != nil {
			t.Fatalf("%v", err)
		}
		if err := checkSearch("glob-ordered", "pattern "+patString(p)+" over an ordered provider (narrowing)", lit, newProvider(sorted, 1, true), want); err != nil {
			t.Fatalf("%v", err)
		}
	})
}
