// C13: token matching equals glob / range semantics, with or without dictionary narrowing.
//
//	TestEnumGlob    exhaustive: every pattern of <= K symbols over {a, b, wildcard} (adjacent
//	                wildcards included; a second pass adds '*' as a *data* character) against
//	                every token of length <= L over the same alphabet (incl. the empty token):
//	                pattern.Search over an UNORDERED provider (full scan, as the active
//	                fraction does) and over an ORDERED provider (binary-search prefix narrowing,
//	                as the sealed fraction does) must both return exactly the tokens the
//	                reference two-pointer glob accepts.  One case = (pattern, whole token set).
//	TestEnumRange   exhaustive: every (from, to) over a small end set of numbers in several
//	                spellings and non-numbers x open/closed/unbounded (both-unbounded excluded)
//	                against a fixed mixed token set, vs the documented range rule.
//	TestEnumLayout  (layout_test.go) every sorted dictionary x every split into blocks, written
//	                as a real index file and searched through token.Table.SelectEntries +
//	                token.Provider + token.BlockLoader + pattern.Search.
//	TestPropRandom  (random_test.go) rapid campaign beyond the bounds.
//	TestPropStore   (random_test.go) sealed vs active fraction vs model through the real store.
package c13

import (
	"context"
	"fmt"
	"os"
	"sort"
	"strconv"
	"strings"
	"sync"
	"testing"

	"github.com/ozontech/seq-db/parser"
	"github.com/ozontech/seq-db/pattern"

	"verif/internal/evid"
	"verif/internal/model"
)

const fieldF = "f"

// ---------------------------------------------------------------- pattern <-> parser.Literal

// normPat brings a pattern into the only form the parser ever produces: text terms are
// non-empty and never adjacent (parseSeqQLKeyword flushes its buffer only at a wildcard);
// any number of adjacent wildcards is kept; the empty pattern is the single term Text "".
// The transformation preserves the glob language, so the oracle may look at either form.
func normPat(p model.Pattern) model.Pattern {
	out := make(model.Pattern, 0, len(p))
	for _, f := range p {
		if f.Wild {
			out = append(out, model.Frag{Wild: true})
			continue
		}
		if f.Text == "" {
			continue
		}
		if n := len(out); n > 0 && !out[n-1].Wild {
			out[n-1].Text += f.Text
			continue
		}
		out = append(out, model.Frag{Text: f.Text})
	}
	if len(out) == 0 {
		out = model.Pattern{{Text: ""}}
	}
	return out
}

func toLiteral(field string, p model.Pattern) *parser.Literal {
	np := normPat(p)
	lit := &parser.Literal{Field: field, Terms: make([]parser.Term, 0, len(np))}
	for _, f := range np {
		if f.Wild {
			lit.Terms = append(lit.Terms, parser.Term{Kind: parser.TermSymbol, Data: "*"})
		} else {
			lit.Terms = append(lit.Terms, parser.Term{Kind: parser.TermText, Data: f.Text})
		}
	}
	return lit
}

// patString renders a pattern for messages: wildcard = '*', a data asterisk = '\*'.
func patString(p model.Pattern) string {
	var b strings.Builder
	for _, f := range p {
		if f.Wild {
			b.WriteByte('*')
			continue
		}
		b.WriteString(strings.ReplaceAll(strconv.Quote(f.Text)[1:len(strconv.Quote(f.Text))-1], "*", `\*`))
	}
	return "`" + b.String() + "`"
}

// RangeQ is a range filter in plain data; nil end = unbounded.
type RangeQ struct {
	From    *string `json:"from"`
	To      *string `json:"to"`
	IncFrom bool    `json:"incfrom,omitempty"`
	IncTo   bool    `json:"incto,omitempty"`
}

func (r RangeQ) String() string {
	l, h := "(", ")"
	if r.IncFrom {
		l = "["
	}
	if r.IncTo {
		h = "]"
	}
	e := func(s *string) string {
		if s == nil {
			return "*"
		}
		return strconv.Quote(*s)
	}
	return l + e(r.From) + ", " + e(r.To) + h
}

func (r RangeQ) token(field string) *parser.Range {
	end := func(s *string) parser.Term {
		if s == nil {
			return parser.Term{Kind: parser.TermSymbol, Data: "*"}
		}
		return parser.Term{Kind: parser.TermText, Data: *s}
	}
	return &parser.Range{Field: field, From: end(r.From), To: end(r.To), IncludeFrom: r.IncFrom, IncludeTo: r.IncTo}
}

func (r RangeQ) model() *model.Q {
	return &model.Q{Op: "range", Field: fieldF, From: r.From, To: r.To, IncFrom: r.IncFrom, IncTo: r.IncTo}
}

// ---------------------------------------------------------------- in-memory providers

// sliceProvider implements pattern's tokenProvider over a slice.  ordered=false is what
// the active fraction hands to pattern.Search (tokens in arrival order, full scan);
// ordered=true is what the sealed fraction hands over (sorted tokens, narrowing allowed).
// TIDs start at base >= 1 as in both real providers.
type sliceProvider struct {
	toks    [][]byte
	base    uint32
	ordered bool
}

func (p *sliceProvider) GetToken(tid uint32) []byte { return p.toks[tid-p.base] }
func (p *sliceProvider) FirstTID() uint32           { return p.base }
func (p *sliceProvider) LastTID() uint32            { return p.base + uint32(len(p.toks)) - 1 }
func (p *sliceProvider) Ordered() bool              { return p.ordered }

func newProvider(toks []string, base uint32, ordered bool) *sliceProvider {
	p := &sliceProvider{base: base, ordered: ordered, toks: make([][]byte, len(toks))}
	for i, t := range toks {
		p.toks[i] = []byte(t)
	}
	return p
}

// checkSearch runs the real pattern.Search and compares the TID list with the oracle's
// verdict per token (in provider order).
func checkSearch(sig, what string, tok parser.Token, p *sliceProvider, want func(string) bool) error {
	got, err := pattern.Search(context.Background(), tok, p)
	if err != nil {
		return evid.Failf(sig+"-error", "%s: pattern.Search: %v", what, err)
	}
	gi := 0
	for i, raw := range p.toks {
		tid := p.base + uint32(i)
		w := want(string(raw))
		g := gi < len(got) && got[gi] == tid
		if g {
			gi++
		}
		if g != w {
			return evid.Failf(sig, "%s: token %q (tid %d of %d..%d): pattern.Search says match=%v, reference says %v", what, raw, tid, p.FirstTID(), p.LastTID(), g, w)
		}
	}
	if gi != len(got) {
		return evid.Failf(sig+"-tids", "%s: pattern.Search returned tid %d which is out of order, duplicated or outside %d..%d: %v", what, got[gi], p.FirstTID(), p.LastTID(), clip(got))
	}
	return nil
}

func clip(t []uint32) []uint32 {
	if len(t) > 40 {
		return t[:40]
	}
	return t
}

// ---------------------------------------------------------------- universes and pattern lists

var (
	cacheMu   sync.Mutex
	uniCache  = map[string][]string{}
	patsCache = map[string][]model.Pattern{}
)

// universe: all strings over alpha with length <= maxLen, sorted byte-wise.
func universe(alpha string, maxLen int) []string {
	key := alpha + "/" + strconv.Itoa(maxLen)
	cacheMu.Lock()
	defer cacheMu.Unlock()
	if u, ok := uniCache[key]; ok {
		return u
	}
	u := []string{""}
	level := []string{""}
	for l := 1; l <= maxLen; l++ {
		var next []string
		for _, s := range level {
			for i := 0; i < len(alpha); i++ {
				next = append(next, s+alpha[i:i+1])
			}
		}
		u = append(u, next...)
		level = next
	}
	sort.Strings(u)
	uniCache[key] = u
	return u
}

// symsToPattern: symbol 0 is the wildcard, symbol i>0 is the data byte alpha[i-1]
// (which may be '*' - an escaped asterisk is ordinary text for the matcher).
func symsToPattern(syms []int, alpha string) model.Pattern {
	var p model.Pattern
	for _, s := range syms {
		if s == 0 {
			p = append(p, model.Frag{Wild: true})
			continue
		}
		c := alpha[s-1 : s]
		if n := len(p); n > 0 && !p[n-1].Wild {
			p[n-1].Text += c
		} else {
			p = append(p, model.Frag{Text: c})
		}
	}
	return p
}

// eachSyms yields every symbol sequence of length 0..maxLen over {0..len(alpha)}.
func eachSyms(alpha string, maxLen int, yield func([]int) bool) {
	k := len(alpha) + 1
	for l := 0; l <= maxLen; l++ {
		syms := make([]int, l)
		for {
			if !yield(syms) {
				return
			}
			i := l - 1
			for i >= 0 {
				syms[i]++
				if syms[i] < k {
					break
				}
				syms[i] = 0
				i--
			}
			if i < 0 {
				break
			}
		}
	}
}

func allPatterns(alpha string, maxLen int) []model.Pattern {
	key := alpha + "/" + strconv.Itoa(maxLen)
	cacheMu.Lock()
	if p, ok := patsCache[key]; ok {
		cacheMu.Unlock()
		return p
	}
	cacheMu.Unlock()
	var out []model.Pattern
	eachSyms(alpha, maxLen, func(s []int) bool {
		out = append(out, symsToPattern(s, alpha))
		return true
	})
	cacheMu.Lock()
	patsCache[key] = out
	cacheMu.Unlock()
	return out
}

// ---------------------------------------------------------------- shape classes of a pattern

type patShape struct {
	texts    []string
	anchorL  bool // first symbol is text
	anchorR  bool // last symbol is text
	adjacent bool // two wildcards next to each other
	dataStar bool
}

func shapeOf(p model.Pattern) patShape {
	np := normPat(p)
	var s patShape
	for i, f := range np {
		if f.Wild {
			if i > 0 && np[i-1].Wild {
				s.adjacent = true
			}
			continue
		}
		s.texts = append(s.texts, f.Text)
		if strings.Contains(f.Text, "*") {
			s.dataStar = true
		}
	}
	s.anchorL = !np[0].Wild
	s.anchorR = !np[len(np)-1].Wild
	return s
}

func (s patShape) class() string {
	wild := !(len(s.texts) == 1 && s.anchorL && s.anchorR) && !(len(s.texts) == 0 && s.anchorL)
	switch {
	case !wild:
		return "shape:exact"
	case len(s.texts) == 0:
		return "shape:only-wildcards"
	case len(s.texts) == 1 && s.anchorL:
		return "shape:prefix"
	case len(s.texts) == 1 && s.anchorR:
		return "shape:suffix"
	case len(s.texts) == 1:
		return "shape:infix"
	case len(s.texts) == 2 && s.anchorL && s.anchorR:
		return "shape:prefix-suffix"
	case s.anchorL && s.anchorR:
		return "shape:prefix-middle-suffix"
	case s.anchorL:
		return "shape:prefix-middle"
	case s.anchorR:
		return "shape:middle-suffix"
	default:
		return "shape:middles-only"
	}
}

// trap: the token does NOT match, although every fragment taken alone sits where it should
// (prefix at the start, suffix at the end, the others somewhere) - i.e. only the overlap /
// ordering rules reject it.  'ab*ba' vs 'aba' is the model example of the property text.
func (s patShape) trap(tok string, matches bool) bool {
	if matches || len(s.texts) < 2 {
		return false
	}
	for i, t := range s.texts {
		switch {
		case i == 0 && s.anchorL:
			if !strings.HasPrefix(tok, t) {
				return false
			}
		case i == len(s.texts)-1 && s.anchorR:
			if !strings.HasSuffix(tok, t) {
				return false
			}
		default:
			if !strings.Contains(tok, t) {
				return false
			}
		}
	}
	return true
}

// ---------------------------------------------------------------- TestEnumGlob

type GlobCase struct {
	Pat    model.Pattern `json:"pat"`
	Alpha  string        `json:"alpha"`
	MaxLen int           `json:"maxlen"`
	Base   uint32        `json:"base"`
	Enc    string        `json:"enc,omitempty"` // "hex": Pat texts and Alpha are hex (raw bytes)
}

func runGlob(c GlobCase) (evid.Result, error) {
	res := evid.Result{}
	if c.Base == 0 {
		c.Base = 1
	}
	var err error
	if c.Pat, err = decPattern(c.Enc, c.Pat); err != nil {
		return res, err
	}
	if c.Alpha, err = unhx(c.Enc, c.Alpha); err != nil {
		return res, err
	}
	sorted := universe(c.Alpha, c.MaxLen)
	scrambled := make([]string, len(sorted)) // deterministic non-sorted order: reversed, halves swapped
	for i, t := range sorted {
		scrambled[(len(sorted)-1-i+len(sorted)/2)%len(sorted)] = t
	}
	lit := toLiteral(fieldF, c.Pat)
	sh := shapeOf(c.Pat)

	verdict := make(map[string]bool, len(sorted))
	nmatch, trap := 0, false
	for _, t := range sorted {
		m := model.Glob(c.Pat, t)
		verdict[t] = m
		if m {
			nmatch++
		} else if !trap && sh.trap(t, m) {
			trap = true
		}
	}
	want := func(t string) bool { return verdict[t] }
	what := "pattern " + patString(c.Pat)
	if err := checkSearch("glob-unordered", what+" over an unordered provider", lit, newProvider(scrambled, c.Base, false), want); err != nil {
		return res, err
	}
	if err := checkSearch("glob-ordered", what+" over an ordered provider (narrowing)", lit, newProvider(sorted, c.Base, true), want); err != nil {
		return res, err
	}
	res.Evals = 2 * len(sorted)
	res.Labels = append(res.Labels, sh.class(), "frags:"+strconv.Itoa(min(len(sh.texts), 4)))
	if sh.adjacent {
		res.Labels = append(res.Labels, "adjacent-wildcards")
	}
	if sh.dataStar {
		res.Labels = append(res.Labels, "data-asterisk")
	}
	if c.Enc == encHex {
		res.Labels = append(res.Labels, "alphabet:rawbytes")
	}
	if prefixEndsFF(c.Pat) {
		res.Labels = append(res.Labels, "prefix-ends-0xff")
	}
	if prefixEndsNUL(c.Pat) {
		res.Labels = append(res.Labels, "prefix-ends-0x00")
	}
	switch {
	case nmatch == 0:
		res.Labels = append(res.Labels, "match:none")
	case nmatch == len(sorted):
		res.Labels = append(res.Labels, "match:all")
	default:
		res.Labels = append(res.Labels, "match:some")
	}
	if trap {
		res.Labels = append(res.Labels, "overlap-trap")
	}
	// non-trivial: >= 2 fragments and some token of the set is rejected only because the
	// fragments would have to overlap / appear in another order
	res.NonTrivial = trap
	return res, nil
}

func envInt(name string, def int) int {
	if v, err := strconv.Atoi(os.Getenv(name)); err == nil && v >= 0 {
		return v
	}
	return def
}

func TestEnumGlob(t *testing.T) {
	r := evid.For(t).Lazy().DistinctByConstruction()
	patLen, tokLen := envInt("C13_PATLEN", 9), envInt("C13_TOKLEN", 8)
	starPat, starTok := envInt("C13_STAR_PATLEN", 6), envInt("C13_STAR_TOKLEN", 5)
	r.Note("glob_alphabet", "a,b + wildcard")
	r.Note("glob_max_pattern_symbols", patLen)
	r.Note("glob_max_token_len", tokLen)
	r.Note("glob_tokens", len(universe("ab", tokLen)))
	r.Note("glob_star_alphabet", "a,b,'*' as data + wildcard")
	r.Note("glob_star_max_pattern_symbols", starPat)
	r.Note("glob_star_max_token_len", starTok)
	r.Note("glob_star_tokens", len(universe("ab*", starTok)))
	rawPat, rawTok := envInt("C13_RAW_PATLEN", 6), envInt("C13_RAW_TOKLEN", 5)
	r.Note("glob_raw_alphabet", "bytes 'a', 0x00, 0xff + wildcard")
	r.Note("glob_raw_max_pattern_symbols", rawPat)
	r.Note("glob_raw_max_token_len", rawTok)
	r.Note("glob_raw_tokens", len(universe(rawAlpha, rawTok)))
	nraw := 0
	eachSyms(rawAlpha, rawPat, func([]int) bool { nraw++; return true })
	r.Note("glob_raw_patterns", nraw)
	n := 0
	eachSyms("ab", patLen, func([]int) bool { n++; return true })
	eachSyms("ab*", starPat, func(s []int) bool {
		for _, x := range s {
			if x == 3 {
				n++
				break
			}
		}
		return true
	})
	r.Note("glob_patterns", n)
	evid.Enum(t, func(yield func(GlobCase) bool) {
		ok := true
		eachSyms("ab", patLen, func(s []int) bool {
			ok = yield(GlobCase{Pat: symsToPattern(s, "ab"), Alpha: "ab", MaxLen: tokLen, Base: 1})
			return ok
		})
		if !ok {
			return
		}
		eachSyms("ab*", starPat, func(s []int) bool {
			hasStar := false
			for _, x := range s {
				hasStar = hasStar || x == 3
			}
			if !hasStar { // covered by the first pass
				return true
			}
			ok = yield(GlobCase{Pat: symsToPattern(s, "ab*"), Alpha: "ab*", MaxLen: starTok, Base: 3})
			return ok
		})
		if !ok {
			return
		}
		// raw bytes: every pattern over {a, 0x00, 0xff, wildcard} (patterns of 'a' only are also
		// in the first pass, but against another token set)
		eachSyms(rawAlpha, rawPat, func(s []int) bool {
			return yield(GlobCase{Pat: encPattern(symsToPattern(s, rawAlpha)), Alpha: hx(rawAlpha), MaxLen: rawTok, Base: 2, Enc: encHex})
		})
	}, runGlob)
}

func TestReplayGlob(t *testing.T) { evid.Replay(t, runGlob) }

// ---------------------------------------------------------------- TestEnumRange

// Range ends.  Numbers in several spellings of decimal notation (two spellings of one
// float64 included), and non-numbers; nothing whose status as a number is debatable.
var (
	rangeEndsQuick = []string{"-1", "0", "1", "1.5", "2", "10", "1e1", "", "a", "ab", "b", "1a", "-"}
	rangeEndsMore  = []string{"-10", "-0.5", "00", "1.0", "9", "100", "2.50", "aa", "b0", "0x", "1e", "é"}
	rangeTokens    = []string{
		"-10", "-2", "-1", "-0.5", "-0", "0", "00", "0.0", "0.5", "1", "1.0", "01", "1.5", "2", "2.5", "9", "10", "1e1", "10.0", "11", "100", "1e2", "12345678901234567890",
		"+1", "+1.5", "+0", "+10", "+1e1", ".5", "-.5", "+.5", "2.", "1E1", // explicit plus sign, bare leading/trailing dot, capital exponent: decimal numbers too
		"", "-", "1a", "a", "a1", "aa", "ab", "b", "b0", "ba", "1e", "0x", "é", "z", " 1", "1 ", "--1", "1-1", "1.5.1",
	}
)

type RangeCase struct {
	R      RangeQ   `json:"r"`
	Tokens []string `json:"tokens"`
}

func runRange(c RangeCase) (evid.Result, error) {
	res := evid.Result{}
	if c.R.From == nil && c.R.To == nil {
		return res, fmt.Errorf("range with both ends unbounded is outside the domain of this check")
	}
	q := c.R.model()
	want := func(t string) bool { return model.InRange(q, t) }
	tok := c.R.token(fieldF)
	sorted := append([]string{}, c.Tokens...)
	sort.Strings(sorted)
	what := "range " + c.R.String()
	if err := checkSearch("range-unordered", what+" over an unordered provider", tok, newProvider(c.Tokens, 1, false), want); err != nil {
		return res, err
	}
	if err := checkSearch("range-ordered", what+" over an ordered provider", tok, newProvider(sorted, 1, true), want); err != nil {
		return res, err
	}
	res.Evals = 2 * len(c.Tokens)
	res.Labels, res.NonTrivial = classifyRange(c.R, c.Tokens)
	return res, nil
}

func classifyRange(r RangeQ, toks []string) ([]string, bool) {
	var labels []string
	kind := func(s *string) string {
		if s == nil {
			return "unbounded"
		}
		if _, ok := model.IsNum(*s); ok {
			return "num"
		}
		return "text"
	}
	kf, kt := kind(r.From), kind(r.To)
	labels = append(labels, "ends:"+kf+"/"+kt)
	numeric := kf != "text" && kt != "text"
	if numeric {
		labels = append(labels, "compare:numeric")
	} else {
		labels = append(labels, "compare:text")
	}
	b := func(given bool, inc bool) string {
		if !given {
			return "*"
		}
		if inc {
			return "closed"
		}
		return "open"
	}
	labels = append(labels, "brackets:"+b(r.From != nil, r.IncFrom)+"/"+b(r.To != nil, r.IncTo))
	q := r.model()
	n, numRejected, onEnd := 0, false, false
	for _, t := range toks {
		m := model.InRange(q, t)
		if m {
			n++
		}
		_, isNum := model.IsNum(t)
		if numeric && !isNum {
			// a non-number that a text comparison would have accepted
			if textInRange(r, t) {
				numRejected = true
			}
		}
		if (r.From != nil && sameEnd(*r.From, t, numeric)) || (r.To != nil && sameEnd(*r.To, t, numeric)) {
			onEnd = true
		}
	}
	switch {
	case n == 0:
		labels = append(labels, "match:none")
	case n == len(toks):
		labels = append(labels, "match:all")
	default:
		labels = append(labels, "match:some")
	}
	if numRejected {
		labels = append(labels, "non-number-rejected-by-numeric-range")
	}
	if onEnd {
		labels = append(labels, "token-on-an-end")
	}
	if kf != "unbounded" && kt != "unbounded" && kf != kt {
		labels = append(labels, "mixed-kind-ends")
	}
	// non-trivial: some token sits exactly on a given end (open/closed matters), or the
	// numeric-vs-text decision changes the answer for some token
	return labels, onEnd || numRejected || (kf != "unbounded" && kt != "unbounded" && kf != kt)
}

func textInRange(r RangeQ, t string) bool {
	if r.From != nil && (t < *r.From || (t == *r.From && !r.IncFrom)) {
		return false
	}
	if r.To != nil && (t > *r.To || (t == *r.To && !r.IncTo)) {
		return false
	}
	return true
}

func sameEnd(end, tok string, numeric bool) bool {
	if !numeric {
		return end == tok
	}
	a, ok1 := model.IsNum(end)
	b, ok2 := model.IsNum(tok)
	return ok1 && ok2 && a == b
}

func eachRange(ends []string, yield func(RangeQ) bool) {
	type end struct {
		v   *string
		inc bool
	}
	opts := []end{{nil, false}}
	for i := range ends {
		opts = append(opts, end{&ends[i], false}, end{&ends[i], true})
	}
	for _, f := range opts {
		for _, t := range opts {
			if f.v == nil && t.v == nil {
				continue // matching of [*, *] against non-numbers is not covered by the documented rule
			}
			if !yield(RangeQ{From: f.v, To: t.v, IncFrom: f.inc, IncTo: t.inc}) {
				return
			}
		}
	}
}

func TestEnumRange(t *testing.T) {
	r := evid.For(t).Lazy().DistinctByConstruction()
	ends := append([]string{}, rangeEndsQuick...)
	if envInt("C13_RANGE_MORE", 0) > 0 {
		ends = append(ends, rangeEndsMore...)
	}
	r.Note("range_ends", ends)
	r.Note("range_tokens", rangeTokens)
	r.Note("range_end_forms", "unbounded | open | closed, per end; both-unbounded excluded")
	n := 0
	eachRange(ends, func(RangeQ) bool { n++; return true })
	r.Note("range_cases", n)
	evid.Enum(t, func(yield func(RangeCase) bool) {
		eachRange(ends, func(q RangeQ) bool {
			return yield(RangeCase{R: q, Tokens: rangeTokens})
		})
	}, runRange)
}

func TestReplayRange(t *testing.T) { evid.Replay(t, runRange) }
