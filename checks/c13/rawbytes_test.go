// C13: raw bytes.  Tokens and pattern text are byte strings - with case sensitivity on the
// indexer keeps invalid UTF-8 in keyword/path tokens, and SeqQL string literals keep raw
// bytes and \xNN escapes - but a JSON case file cannot carry invalid UTF-8 in a string.
// Cases whose Enc is "hex" therefore hold every token, pattern text, range end and alphabet
// as lower-case hex; the run functions decode them first.
package c13

import (
	"encoding/hex"
	"fmt"

	"verif/internal/model"
)

const encHex = "hex"

// rawAlpha is the 3-symbol byte alphabet of the exhaustive raw-byte passes: 0x00 and 0xff
// are the ends of the byte order (successor / predecessor arithmetic on a prefix wraps there).
const rawAlpha = "a\x00\xff"

// rawLetters is the alphabet of the random campaign's raw-byte class.
// ('a' and 0xff twice: prefixes ending in 0xff that still have matching tokens are the rare class)
var rawLetters = []string{"a", "\x00", "\x01", "\x7f", "\x80", "\xfe", "\xff", "a", "\xff"}

func hx(s string) string { return hex.EncodeToString([]byte(s)) }

func unhx(enc, s string) (string, error) {
	if enc != encHex {
		return s, nil
	}
	b, err := hex.DecodeString(s)
	if err != nil {
		return "", fmt.Errorf("harness: bad hex %q in case: %w", s, err)
	}
	return string(b), nil
}

func encStrings(in []string) []string {
	out := make([]string, len(in))
	for i, s := range in {
		out[i] = hx(s)
	}
	return out
}

func decStrings(enc string, in []string) ([]string, error) {
	if enc != encHex {
		return in, nil
	}
	out := make([]string, len(in))
	for i, s := range in {
		d, err := unhx(enc, s)
		if err != nil {
			return nil, err
		}
		out[i] = d
	}
	return out, nil
}

func encPattern(p model.Pattern) model.Pattern {
	out := make(model.Pattern, len(p))
	for i, f := range p {
		out[i] = model.Frag{Wild: f.Wild, Text: hx(f.Text)}
	}
	return out
}

func decPattern(enc string, p model.Pattern) (model.Pattern, error) {
	if enc != encHex {
		return p, nil
	}
	out := make(model.Pattern, len(p))
	for i, f := range p {
		d, err := unhx(enc, f.Text)
		if err != nil {
			return nil, err
		}
		out[i] = model.Frag{Wild: f.Wild, Text: d}
	}
	return out, nil
}

func encRange(r RangeQ) RangeQ {
	if r.From != nil {
		s := hx(*r.From)
		r.From = &s
	}
	if r.To != nil {
		s := hx(*r.To)
		r.To = &s
	}
	return r
}

func decRange(enc string, r RangeQ) (RangeQ, error) {
	if enc != encHex {
		return r, nil
	}
	if r.From != nil {
		s, err := unhx(enc, *r.From)
		if err != nil {
			return r, err
		}
		r.From = &s
	}
	if r.To != nil {
		s, err := unhx(enc, *r.To)
		if err != nil {
			return r, err
		}
		r.To = &s
	}
	return r, nil
}

// prefixEndsFF: a wildcard pattern whose leading text fragment (the narrowing prefix / the
// table hint) ends in byte 0xff - its "successor key" does not exist at that length.
func prefixEndsFF(p model.Pattern) bool {
	np := normPat(p)
	if len(np) < 2 || np[0].Wild || np[0].Text == "" {
		return false
	}
	return np[0].Text[len(np[0].Text)-1] == 0xff
}

// prefixEndsNUL: same for 0x00 (predecessor arithmetic).
func prefixEndsNUL(p model.Pattern) bool {
	np := normPat(p)
	if len(np) < 2 || np[0].Wild || np[0].Text == "" {
		return false
	}
	return np[0].Text[len(np[0].Text)-1] == 0x00
}

func hasHighByte(s string) bool {
	for i := 0; i < len(s); i++ {
		if s[i] >= 0x80 {
			return true
		}
	}
	return false
}
