// C13, part C: rapid campaigns beyond the enumerated bounds.
//
//	TestPropRandom  random dictionaries (longer tokens, UTF-8, numbers, hundreds of tokens) and
//	                patterns cut out of real tokens (incl. prefix/middle/suffix fragments that
//	                overlap inside the token), compared three ways against the reference:
//	                unordered provider, ordered provider with narrowing, and a real index file
//	                in a random block layout read through SelectEntries/Provider/BlockLoader.
//	TestPropStore   the same question through the real store: a field whose dictionary spans
//	                several 16 KiB blocks (fat tokens), searched while the fraction is active
//	                (full scan) and after sealing (table pre-selection + narrowing), both
//	                against the model; the sealed fraction's real token table must equal the
//	                layout rule re-implemented in layout_test.go.
package c13

import (
	"context"
	"fmt"
	"path/filepath"
	"sort"
	"strconv"
	"strings"
	"testing"
	"unicode/utf8"

	"pgregory.net/rapid"

	"github.com/ozontech/seq-db/frac/processor"
	"github.com/ozontech/seq-db/parser"
	"github.com/ozontech/seq-db/seq"

	"verif/internal/evid"
	"verif/internal/gen"
	"verif/internal/harness"
	"verif/internal/model"
)

// ---------------------------------------------------------------- TestPropRandom

type RandCase struct {
	Class     string          `json:"class"`  // alphabet class (label only)
	Tokens    []string        `json:"tokens"` // distinct; this order is the unordered provider's order
	Pats      []model.Pattern `json:"pats"`
	Ranges    []RangeQ        `json:"ranges"`
	Base      uint32          `json:"base"`
	Chunks    []int           `json:"chunks"` // block layout of the sorted dictionary
	Threshold int             `json:"threshold"`
	Neigh     bool            `json:"neigh"`
	Enc       string          `json:"enc,omitempty"` // "hex": tokens, pattern texts and range ends are hex (raw bytes)
}

var alphabets = []struct {
	name    string
	letters []string
}{
	{"ab", []string{"a", "b"}},
	{"abc", []string{"a", "b", "c"}},
	{"ab+asterisk", []string{"a", "b", "*"}},
	{"utf8", []string{"a", "é", "è", "ж", "з", "日", "😀"}},
	{"punct", []string{"a", "b", " ", "\"", "\\", ":", "-", "/", "\t"}},
	{"numeric", nil},
	{"rawbytes", rawLetters}, // incl. invalid UTF-8 and the ends of the byte order; such cases are hex-encoded
}

func genWord(t *rapid.T, letters []string, minLen, maxLen int, label string) string {
	return strings.Join(rapid.SliceOfN(rapid.SampledFrom(letters), minLen, maxLen).Draw(t, label), "")
}

// numbers and definite non-numbers, by construction (no hex, inf, nan, underscores,
// out-of-range exponents, bare or trailing dots)
func genNumber(t *rapid.T, label string) string {
	i := rapid.IntRange(-30, 130).Draw(t, label)
	switch rapid.IntRange(0, 9).Draw(t, label+"form") {
	case 7: // explicit plus sign
		if i >= 0 {
			return "+" + strconv.Itoa(i)
		}
		return strconv.Itoa(i)
	case 8: // no digit before the point
		f := "." + strconv.Itoa(rapid.IntRange(0, 99).Draw(t, label+"frac"))
		return []string{"", "-", "+"}[rapid.IntRange(0, 2).Draw(t, label+"sign")] + f
	case 9: // plus sign with fraction / exponent
		if i < 0 {
			i = -i
		}
		return "+" + strconv.Itoa(i) + []string{".5", "e1", "E0", "."}[rapid.IntRange(0, 3).Draw(t, label+"tail")]
	case 0, 1, 2:
		return strconv.Itoa(i)
	case 3:
		return strconv.Itoa(i) + "." + strconv.Itoa(rapid.IntRange(0, 99).Draw(t, label+"frac"))
	case 4:
		if i < 0 {
			return "-00" + strconv.Itoa(-i)
		}
		return "0" + strconv.Itoa(i)
	case 5:
		return strconv.Itoa(i) + "e" + strconv.Itoa(rapid.IntRange(-2, 3).Draw(t, label+"exp"))
	default:
		return strconv.Itoa(i) + ".0"
	}
}

func genNonNumber(t *rapid.T, label string) string {
	w := genWord(t, []string{"a", "k", "z"}, 1, 3, label+"w")
	switch rapid.IntRange(0, 5).Draw(t, label+"form") {
	case 0:
		return w
	case 1:
		return strconv.Itoa(rapid.IntRange(0, 99).Draw(t, label+"n")) + w
	case 2:
		return w + strconv.Itoa(rapid.IntRange(0, 99).Draw(t, label+"n"))
	case 3:
		return strconv.Itoa(rapid.IntRange(0, 99).Draw(t, label+"n")) + "-" + strconv.Itoa(rapid.IntRange(0, 99).Draw(t, label+"m"))
	case 4:
		return ""
	default:
		return "-"
	}
}

func genTokens(t *rapid.T, class int, n int) []string {
	seen := map[string]bool{}
	var out []string
	add := func(s string) {
		if !seen[s] {
			seen[s] = true
			out = append(out, s)
		}
	}
	if alphabets[class].name == "numeric" {
		for i := 0; i < n; i++ {
			if rapid.IntRange(0, 3).Draw(t, "nonnum") == 3 {
				add(genNonNumber(t, "tok"))
			} else {
				add(genNumber(t, "tok"))
			}
		}
		return out
	}
	letters := alphabets[class].letters
	nStems := rapid.IntRange(1, 4).Draw(t, "nstems")
	stems := make([]string, nStems)
	for i := range stems {
		stems[i] = genWord(t, letters, 0, 10, "stem")
	}
	for i := 0; i < n; i++ {
		s := stems[rapid.IntRange(0, nStems-1).Draw(t, "stemidx")]
		switch rapid.IntRange(0, 6).Draw(t, "tokform") {
		case 0:
			add(s)
		case 1:
			add(s + genWord(t, letters, 0, 5, "sfx"))
		case 2:
			add(genWord(t, letters, 0, 4, "pfx") + s)
		case 3:
			add(s + stems[rapid.IntRange(0, nStems-1).Draw(t, "stem2")])
		case 4:
			add(strings.Repeat(s, rapid.IntRange(1, 3).Draw(t, "rep")))
		case 5:
			add(genWord(t, letters, 0, 6, "free"))
		default:
			add(genWord(t, letters, 0, 4, "pfx") + s + genWord(t, letters, 0, 4, "sfx"))
		}
	}
	return out
}

// runes splits a string into its letters: runes, or single bytes if it is not valid UTF-8.
func runes(s string) []string {
	var out []string
	if !utf8.ValidString(s) {
		for i := 0; i < len(s); i++ {
			out = append(out, s[i:i+1])
		}
		return out
	}
	for _, r := range s {
		out = append(out, string(r))
	}
	return out
}

// genPattern builds a pattern around a real token (or a free word if there is none).
func genPattern(t *rapid.T, tokens []string, letters []string) model.Pattern {
	var rs []string
	if len(tokens) > 0 {
		rs = runes(tokens[rapid.IntRange(0, len(tokens)-1).Draw(t, "ptok")])
	} else {
		rs = runes(genWord(t, letters, 0, 6, "pword"))
	}
	join := func(x []string) string { return strings.Join(x, "") }
	wild := model.Frag{Wild: true}
	var p model.Pattern
	switch kind := rapid.IntRange(0, 5).Draw(t, "pkind"); {
	case kind == 0 || len(rs) == 0: // near-exact
		s := join(rs)
		switch rapid.IntRange(0, 4).Draw(t, "near") {
		case 1:
			s += letters[rapid.IntRange(0, len(letters)-1).Draw(t, "extra")]
		case 2:
			if len(rs) > 0 {
				s = join(rs[:len(rs)-1])
			}
		case 3:
			s = letters[rapid.IntRange(0, len(letters)-1).Draw(t, "extra")] + s
		case 4:
			if len(rs) > 0 {
				s = join(rs[1:])
			}
		}
		p = model.Pattern{{Text: s}}
		switch rapid.IntRange(0, 3).Draw(t, "nearwild") {
		case 1:
			p = append(p, wild)
		case 2:
			p = append(model.Pattern{wild}, p...)
		}
	case kind == 1 || kind == 2: // cut the token at 1..4 points; keep / wildcard / drop each piece
		k := rapid.IntRange(1, min(4, len(rs))).Draw(t, "cuts")
		cuts := rapid.SliceOfN(rapid.IntRange(0, len(rs)), k, k).Draw(t, "cutpos")
		sort.Ints(cuts)
		cuts = append(cuts, len(rs))
		prev := 0
		for _, c := range cuts {
			piece := join(rs[prev:c])
			prev = c
			switch rapid.IntRange(0, 5).Draw(t, "piece") {
			case 0, 1, 2:
				p = append(p, model.Frag{Text: piece})
			case 3, 4:
				p = append(p, wild)
			default: // drop the piece without a wildcard
			}
			if rapid.IntRange(0, 2).Draw(t, "sep") == 0 {
				p = append(p, wild)
			}
		}
	case kind == 3 || kind == 4: // fragments that overlap inside the token: pre*suf, pre*mid*suf
		i := rapid.IntRange(0, len(rs)).Draw(t, "preEnd")
		j := rapid.IntRange(0, i).Draw(t, "sufStart")
		p = model.Pattern{{Text: join(rs[:i])}, wild}
		if kind == 4 {
			a := rapid.IntRange(0, len(rs)).Draw(t, "midStart")
			b := rapid.IntRange(a, len(rs)).Draw(t, "midEnd")
			p = append(p, model.Frag{Text: join(rs[a:b])}, wild)
			if rapid.Bool().Draw(t, "mid2") {
				p = append(p, model.Frag{Text: join(rs[a:b])}, wild)
			}
		}
		p = append(p, model.Frag{Text: join(rs[j:])})
		if rapid.IntRange(0, 3).Draw(t, "openEnds") == 3 {
			p = append(append(model.Pattern{wild}, p...), wild)
		}
	default: // free symbols
		n := rapid.IntRange(0, 12).Draw(t, "nsyms")
		for i := 0; i < n; i++ {
			if x := rapid.IntRange(0, len(letters)).Draw(t, "sym"); x == len(letters) {
				p = append(p, wild)
			} else {
				p = append(p, model.Frag{Text: letters[x]})
			}
		}
	}
	if rapid.IntRange(0, 4).Draw(t, "double") == 4 { // adjacent wildcards
		var q model.Pattern
		for _, f := range p {
			q = append(q, f)
			if f.Wild {
				q = append(q, f)
			}
		}
		p = q
	}
	return normPat(p)
}

func genRange(t *rapid.T, tokens []string, numeric bool, letters []string) RangeQ {
	end := func(label string) *string {
		var s string
		switch k := rapid.IntRange(0, 3).Draw(t, label+"kind"); {
		case k <= 1 && len(tokens) > 0:
			s = tokens[rapid.IntRange(0, len(tokens)-1).Draw(t, label+"tok")]
			if k == 1 && !numeric {
				s += letters[rapid.IntRange(0, len(letters)-1).Draw(t, label+"extra")]
			}
		case numeric && k == 2:
			s = genNumber(t, label+"num")
		case numeric:
			s = genNonNumber(t, label+"nonnum")
		default:
			s = genWord(t, letters, 0, 4, label+"word")
		}
		return &s
	}
	r := RangeQ{IncFrom: rapid.Bool().Draw(t, "incfrom"), IncTo: rapid.Bool().Draw(t, "incto")}
	switch rapid.IntRange(0, 5).Draw(t, "unbounded") {
	case 4:
		r.To = end("to")
	case 5:
		r.From = end("from")
	default:
		r.From, r.To = end("from"), end("to")
	}
	return r
}

func genChunks(t *rapid.T, n int) []int {
	if n == 0 {
		return nil
	}
	if rapid.Bool().Draw(t, "freeSplit") {
		k := rapid.IntRange(0, min(n-1, 9)).Draw(t, "ncuts")
		cuts := rapid.SliceOfNDistinct(rapid.IntRange(1, max(1, n-1)), k, k, rapid.ID[int]).Draw(t, "cutsAt")
		sort.Ints(cuts)
		var out []int
		prev := 0
		for _, c := range cuts {
			if c > prev && c < n {
				out = append(out, c-prev)
				prev = c
			}
		}
		return append(out, n-prev)
	}
	// the writer's rule: equal chunks, smaller last one
	b := n / rapid.IntRange(1, n).Draw(t, "blocksCount")
	var out []int
	for left := n; left > 0; left -= min(b, left) {
		out = append(out, min(b, left))
	}
	return out
}

func genRandom(t *rapid.T) RandCase {
	class := rapid.IntRange(0, len(alphabets)-1).Draw(t, "class")
	c := RandCase{Class: alphabets[class].name}
	n := rapid.IntRange(0, 40).Draw(t, "ntok")
	if rapid.IntRange(0, 15).Draw(t, "bigdict") == 15 {
		hi := 600
		if evid.Thorough() {
			hi = 4000
		}
		n = rapid.IntRange(150, hi).Draw(t, "nbig")
	}
	c.Tokens = genTokens(t, class, n)
	letters := alphabets[class].letters
	numeric := alphabets[class].name == "numeric"
	if numeric {
		letters = []string{"0", "1", "2", "-", ".", "a", "e"}
	}
	np := rapid.IntRange(1, 6).Draw(t, "npats")
	for i := 0; i < np; i++ {
		c.Pats = append(c.Pats, genPattern(t, c.Tokens, letters))
	}
	nr := rapid.IntRange(0, 3).Draw(t, "nranges")
	if numeric {
		nr++
	}
	for i := 0; i < nr; i++ {
		c.Ranges = append(c.Ranges, genRange(t, c.Tokens, numeric, letters))
	}
	c.Base = uint32(rapid.SampledFrom([]int{1, 1, 2, 17, 70000}).Draw(t, "base"))
	c.Chunks = genChunks(t, len(c.Tokens))
	c.Threshold = rapid.SampledFrom([]int{realBlockThreshold, 0, 9, 64, 1024}).Draw(t, "threshold")
	c.Neigh = rapid.Bool().Draw(t, "neigh")
	if c.Class == "rawbytes" {
		c.Enc = encHex
		c.Tokens = encStrings(c.Tokens)
		for i := range c.Pats {
			c.Pats[i] = encPattern(c.Pats[i])
		}
		for i := range c.Ranges {
			c.Ranges[i] = encRange(c.Ranges[i])
		}
	}
	return c
}

func runRandom(c RandCase) (evid.Result, error) {
	res := evid.Result{}
	if c.Enc == encHex {
		var err error
		if c.Tokens, err = decStrings(c.Enc, c.Tokens); err != nil {
			return res, err
		}
		pats := make([]model.Pattern, len(c.Pats))
		for i := range c.Pats {
			if pats[i], err = decPattern(c.Enc, c.Pats[i]); err != nil {
				return res, err
			}
		}
		c.Pats = pats
		ranges := make([]RangeQ, len(c.Ranges))
		for i := range c.Ranges {
			if ranges[i], err = decRange(c.Enc, c.Ranges[i]); err != nil {
				return res, err
			}
		}
		c.Ranges = ranges
	} else {
		for _, tk := range c.Tokens {
			if !utf8.ValidString(tk) {
				return res, fmt.Errorf("harness: token %q is not valid UTF-8 and the case is not hex-encoded (cases must survive JSON)", tk)
			}
		}
	}
	seenTok := map[string]bool{}
	for _, tk := range c.Tokens {
		if seenTok[tk] {
			return res, fmt.Errorf("harness: token %q twice in the dictionary", tk)
		}
		seenTok[tk] = true
	}
	if c.Base == 0 {
		c.Base = 1
	}
	sorted := append([]string{}, c.Tokens...)
	sort.Strings(sorted)
	unord := newProvider(c.Tokens, c.Base, false)
	ord := newProvider(sorted, c.Base, true)
	trap := false
	for _, p := range c.Pats {
		lit := toLiteral(fieldF, p)
		want := func(t string) bool { return model.Glob(p, t) }
		what := "pattern " + patString(p)
		if err := checkSearch("glob-unordered", what+" over an unordered provider", lit, unord, want); err != nil {
			return res, err
		}
		if len(sorted) > 0 {
			if err := checkSearch("glob-ordered", what+" over an ordered provider (narrowing)", lit, ord, want); err != nil {
				return res, err
			}
		}
		res.Evals += 2 * len(sorted)
		sh := shapeOf(p)
		res.Labels = append(res.Labels, sh.class())
		if sh.adjacent {
			res.Labels = append(res.Labels, "adjacent-wildcards")
		}
		if prefixEndsFF(p) {
			res.Labels = append(res.Labels, "prefix-ends-0xff")
			for _, tk := range sorted {
				if model.Glob(p, tk) {
					res.Labels = append(res.Labels, "prefix-ends-0xff-and-matches")
					break
				}
			}
		}
		if prefixEndsNUL(p) {
			res.Labels = append(res.Labels, "prefix-ends-0x00")
		}
		for _, tk := range sorted {
			if sh.trap(tk, model.Glob(p, tk)) {
				trap = true
				res.Labels = append(res.Labels, "overlap-trap")
				break
			}
		}
	}
	for _, r := range c.Ranges {
		if r.From == nil && r.To == nil {
			return res, fmt.Errorf("harness: range with both ends unbounded is outside the domain")
		}
		q := r.model()
		want := func(t string) bool { return model.InRange(q, t) }
		if err := checkSearch("range-unordered", "range "+r.String()+" over an unordered provider", r.token(fieldF), unord, want); err != nil {
			return res, err
		}
		if len(sorted) > 0 {
			if err := checkSearch("range-ordered", "range "+r.String()+" over an ordered provider", r.token(fieldF), ord, want); err != nil {
				return res, err
			}
		}
		res.Evals += 2 * len(sorted)
		l, _ := classifyRange(r, sorted)
		res.Labels = append(res.Labels, l[0], l[1])
	}
	border := false
	if len(sorted) > 0 {
		st, err := runDict(sorted, c.Chunks, c.Threshold, c.Neigh, c.Pats, c.Ranges)
		if err != nil {
			return res, err
		}
		res.Evals += st.evals
		res.Labels = append(res.Labels, layoutLabels(c.Chunks, st)...)
		border = st.border && len(c.Chunks) >= 2
	}
	res.Labels = append(res.Labels, "alphabet:"+c.Class)
	switch n := len(sorted); {
	case n == 0:
		res.Labels = append(res.Labels, "dict:empty")
	case n <= 8:
		res.Labels = append(res.Labels, "dict:1-8")
	case n <= 64:
		res.Labels = append(res.Labels, "dict:9-64")
	default:
		res.Labels = append(res.Labels, "dict:65+")
	}
	maxLen := 0
	for _, tk := range sorted {
		maxLen = max(maxLen, len(tk))
	}
	if maxLen > 16 {
		res.Labels = append(res.Labels, "token-longer-than-16-bytes")
	}
	res.Labels = dedup(res.Labels)
	// non-trivial: an overlap trap exists in the dictionary, or a match touches a block border
	res.NonTrivial = trap || border
	return res, nil
}

func dedup(l []string) []string {
	sort.Strings(l)
	out := l[:0]
	for i, s := range l {
		if i == 0 || s != l[i-1] {
			out = append(out, s)
		}
	}
	return out
}

func TestPropRandom(t *testing.T)   { evid.Check(t, genRandom, runRandom) }
func TestReplayRandom(t *testing.T) { evid.Replay(t, runRandom) }

// ---------------------------------------------------------------- TestPropStore

// FatVal is a token value Head + Fill x N + Tail (kept symbolic so that cases stay small).
type FatVal struct {
	Head string `json:"h"`
	Fill string `json:"f"`
	N    int    `json:"n"`
	Tail string `json:"t"`
}

func (v FatVal) String() string { return v.Head + strings.Repeat(v.Fill, v.N) + v.Tail }

// SFrag: a wildcard, literal text, or bytes [From,To) of value Ref.
type SFrag struct {
	W    bool   `json:"w,omitempty"`
	T    string `json:"t,omitempty"`
	Ref  int    `json:"ref"` // -1: use T
	From int    `json:"from,omitempty"`
	To   int    `json:"to,omitempty"`
}

type SRange struct {
	From    *SFrag `json:"from"`
	To      *SFrag `json:"to"`
	IncFrom bool   `json:"incfrom,omitempty"`
	IncTo   bool   `json:"incto,omitempty"`
}

type StoreCase struct {
	Vals   []FatVal  `json:"vals"` // distinct values of field f; document i carries Vals[i]
	Dups   []int     `json:"dups"` // further documents carrying Vals[Dups[j]]
	Bulks  int       `json:"bulks"`
	Pats   [][]SFrag `json:"pats"`
	Ranges []SRange  `json:"ranges"`
}

func (f SFrag) text(vals []string) string {
	if f.Ref < 0 || f.Ref >= len(vals) {
		return f.T
	}
	v := vals[f.Ref]
	from, to := min(max(f.From, 0), len(v)), min(max(f.To, 0), len(v))
	if from > to {
		from = to
	}
	return v[from:to]
}

func genFatVals(t *rapid.T) []FatVal {
	fat := rapid.SampledFrom([]int{0, 2, 4, 3, 1, 4, 3, 2}).Draw(t, "fatness") // 0: all thin (one block) ... 4: all fat
	n := rapid.IntRange(2, 40).Draw(t, "nvals")
	if fat > 0 {
		n = max(n, 14)
	}
	hugeCase := fat > 0 && rapid.IntRange(0, 5).Draw(t, "hugeCase") == 5
	heads := []string{"a", "b", "c"}
	seen := map[string]bool{}
	var out []FatVal
	for i := 0; i < n; i++ {
		v := FatVal{
			Head: genWord(t, heads, 0, 3, "head"),
			Fill: rapid.SampledFrom([]string{"x", "a", "ab", "-"}).Draw(t, "fill"),
			Tail: genWord(t, heads, 0, 2, "tail"),
		}
		if rapid.IntRange(1, 4).Draw(t, "isfat") <= fat {
			v.N = 900 + rapid.IntRange(0, 17).Draw(t, "fatN")*300 + rapid.IntRange(0, 40).Draw(t, "fatN2")
			if rapid.IntRange(0, 7).Draw(t, "sameN") == 0 && len(out) > 0 {
				v.N = out[len(out)-1].N // equal fills: only head/tail tell the values apart
			}
		} else {
			v.N = rapid.IntRange(0, 6).Draw(t, "thinN")
		}
		if hugeCase && rapid.IntRange(0, 5).Draw(t, "huge") == 5 {
			v.N = rapid.IntRange(16000, 40000).Draw(t, "hugeN") / len(v.Fill) // a single token larger than a block
		}
		if s := v.String(); !seen[s] {
			seen[s] = true
			out = append(out, v)
		}
	}
	return out
}

func genSFrag(t *rapid.T, vals []FatVal) SFrag {
	if rapid.IntRange(0, 3).Draw(t, "free") == 3 {
		return SFrag{Ref: -1, T: genWord(t, []string{"a", "b", "c", "x"}, 1, 3, "freeT")}
	}
	ref := rapid.IntRange(0, len(vals)-1).Draw(t, "ref")
	l := len(vals[ref].String())
	switch rapid.IntRange(0, 4).Draw(t, "slice") {
	case 0: // whole value
		return SFrag{Ref: ref, From: 0, To: l}
	case 1: // a prefix reaching into the fill
		return SFrag{Ref: ref, From: 0, To: rapid.IntRange(0, min(l, 6)).Draw(t, "preTo")}
	case 2: // a suffix
		return SFrag{Ref: ref, From: l - rapid.IntRange(0, min(l, 6)).Draw(t, "sufLen"), To: l}
	case 3: // a long prefix
		return SFrag{Ref: ref, From: 0, To: rapid.IntRange(0, l).Draw(t, "longTo")}
	default:
		a := rapid.IntRange(0, l).Draw(t, "a")
		return SFrag{Ref: ref, From: a, To: rapid.IntRange(a, min(l, a+8)).Draw(t, "b")}
	}
}

func genStore(t *rapid.T) StoreCase {
	c := StoreCase{Vals: genFatVals(t)}
	nd := rapid.IntRange(0, 5).Draw(t, "ndups")
	for i := 0; i < nd; i++ {
		c.Dups = append(c.Dups, rapid.IntRange(0, len(c.Vals)-1).Draw(t, "dup"))
	}
	c.Bulks = rapid.IntRange(1, 3).Draw(t, "bulks")
	np := rapid.IntRange(2, 8).Draw(t, "npats")
	w := SFrag{W: true, Ref: -1}
	for i := 0; i < np; i++ {
		var p []SFrag
		switch rapid.IntRange(0, 5).Draw(t, "pform") {
		case 0: // exact
			p = []SFrag{genSFrag(t, c.Vals)}
		case 1, 2: // prefix*
			p = []SFrag{genSFrag(t, c.Vals), w}
		case 3: // *suffix
			p = []SFrag{w, genSFrag(t, c.Vals)}
		case 4: // pre*suf
			p = []SFrag{genSFrag(t, c.Vals), w, genSFrag(t, c.Vals)}
		default: // pre*mid*suf / *mid*
			p = []SFrag{genSFrag(t, c.Vals), w, genSFrag(t, c.Vals), w}
			if rapid.Bool().Draw(t, "tail") {
				p = append(p, genSFrag(t, c.Vals))
			}
			if rapid.Bool().Draw(t, "lead") {
				p = append([]SFrag{w}, p...)
			}
		}
		c.Pats = append(c.Pats, p)
	}
	nr := rapid.IntRange(0, 2).Draw(t, "nranges")
	for i := 0; i < nr; i++ {
		r := SRange{IncFrom: rapid.Bool().Draw(t, "incfrom"), IncTo: rapid.Bool().Draw(t, "incto")}
		f1, f2 := genSFrag(t, c.Vals), genSFrag(t, c.Vals)
		switch rapid.IntRange(0, 3).Draw(t, "unb") {
		case 2:
			r.From = &f1
		case 3:
			r.To = &f2
		default:
			r.From, r.To = &f1, &f2
		}
		c.Ranges = append(c.Ranges, r)
	}
	return c
}

func short(s string) string {
	if len(s) <= 48 {
		return strconv.Quote(s)
	}
	return fmt.Sprintf("%q…(%d bytes)…%q", s[:20], len(s), s[len(s)-12:])
}

func runStore(c StoreCase) (evid.Result, error) {
	res := evid.Result{}
	vals := make([]string, len(c.Vals))
	seen := map[string]bool{}
	total := 0
	for i, v := range c.Vals {
		vals[i] = v.String()
		if seen[vals[i]] {
			return res, fmt.Errorf("harness: values must be distinct")
		}
		if len(vals[i]) > realBlockThreshold {
			res.Labels = append(res.Labels, "token-larger-than-a-block")
		}
		seen[vals[i]] = true
		total += len(vals[i])
	}
	// documents
	var docs []model.Doc
	carries := []int{}
	mk := func(vi int) {
		n := len(docs)
		docs = append(docs, model.Doc{
			ID:   model.ID{MID: gen.BaseMID + uint64(n%7)*1000, RID: uint64(n + 1)},
			Body: []byte(`{"n":` + strconv.Itoa(n) + `}`),
			Toks: []model.Tok{{F: "_all_", V: ""}, {F: "_exists_", V: "f"}, {F: "_exists_", V: "g"}, {F: "f", V: vals[vi]}, {F: "g", V: "k" + strconv.Itoa(n%3)}},
		})
		carries = append(carries, vi)
	}
	for i := range vals {
		mk(i)
	}
	for _, d := range c.Dups {
		if d >= 0 && d < len(vals) {
			mk(d)
		}
	}
	dir := evid.ScratchDir("c13s")
	st, err := harness.OpenStore(dir, harness.StoreOpts{})
	if err != nil {
		return res, err
	}
	defer st.Close()
	nb := max(1, min(c.Bulks, len(docs)))
	per := (len(docs) + nb - 1) / nb
	for pos := 0; pos < len(docs); pos += per {
		if err := st.Bulk(docs[pos:min(pos+per, len(docs))]); err != nil {
			return res, evid.Failf("bulk-error", "%v", err)
		}
	}
	st.WaitIdle()

	// queries
	type query struct {
		tok  parser.Token
		desc string
		want func(string) bool
		pat  model.Pattern
	}
	var qs []query
	for _, sp := range c.Pats {
		var p model.Pattern
		var desc []string
		for _, f := range sp {
			if f.W {
				p = append(p, model.Frag{Wild: true})
				desc = append(desc, "*")
			} else {
				p = append(p, model.Frag{Text: f.text(vals)})
				desc = append(desc, short(f.text(vals)))
			}
		}
		pp := p
		qs = append(qs, query{tok: toLiteral("f", p), desc: "pattern " + strings.Join(desc, " "), want: func(s string) bool { return model.Glob(pp, s) }, pat: p})
	}
	for _, sr := range c.Ranges {
		var r RangeQ
		r.IncFrom, r.IncTo = sr.IncFrom, sr.IncTo
		d := ""
		if sr.From != nil {
			s := sr.From.text(vals)
			r.From = &s
			d += "from " + short(s)
		}
		if sr.To != nil {
			s := sr.To.text(vals)
			r.To = &s
			d += " to " + short(s)
		}
		if r.From == nil && r.To == nil {
			continue
		}
		// fat values are letters only, so every given end is a non-number unless it is empty;
		// the reference decides either way
		q := r.model()
		qs = append(qs, query{tok: r.token("f"), desc: fmt.Sprintf("range %s inc=%v/%v", d, r.IncFrom, r.IncTo), want: func(s string) bool { return model.InRange(q, s) }})
	}

	search := func(phase string) error {
		for _, q := range qs {
			qpr, err := st.Searcher.SearchDocs(context.Background(), st.FM.GetAllFracs(), processor.SearchParams{
				AST: &parser.ASTNode{Value: q.tok}, From: 0, To: seq.MID(gen.BaseMID + 1_000_000), Limit: 100_000, WithTotal: true, Order: seq.DocsOrderDesc,
			})
			if err != nil {
				return evid.Failf("store-search-error", "%s, %s: %v", phase, q.desc, err)
			}
			got := map[model.ID]bool{}
			for _, id := range harness.FromSeqIDs(qpr.IDs) {
				if got[id] {
					return evid.Failf("store-"+phase+"-dup", "%s, %s: document %v returned twice", phase, q.desc, id)
				}
				got[id] = true
			}
			for i := range docs {
				w := q.want(vals[carries[i]])
				if got[docs[i].ID] != w {
					return evid.Failf("store-"+phase, "%s fraction, %s: document with f=%s: returned=%v, reference says %v (%d values, %d bytes in the field)", phase, q.desc, short(vals[carries[i]]), got[docs[i].ID], w, len(vals), total)
				}
			}
			if len(got) > len(docs) {
				return evid.Failf("store-"+phase, "%s, %s: %d documents returned, %d exist", phase, q.desc, len(got), len(docs))
			}
			res.Evals += len(docs)
		}
		return nil
	}
	if err := search("active"); err != nil {
		return res, err
	}
	st.Seal()
	if err := search("sealed"); err != nil {
		return res, err
	}

	// the sealed fraction's real token table vs the re-implemented layout rule, and the
	// on-disk search path of layout_test.go over the really written file
	files, _ := filepath.Glob(filepath.Join(dir, "*.index"))
	if len(files) != 1 {
		return res, fmt.Errorf("harness: expected one sealed index file, found %v", files)
	}
	sortedVals := append([]string{}, vals...)
	sort.Strings(sortedVals)
	gvals := []string{}
	for i := 0; i < min(3, len(docs)); i++ {
		gvals = append(gvals, "k"+strconv.Itoa(i))
	}
	fields := []DictField{
		{Name: "_all_", Tokens: []string{""}},
		{Name: "_exists_", Tokens: []string{"f", "g"}},
		{Name: "f", Tokens: sortedVals},
		{Name: "g", Tokens: gvals},
	}
	for i := range fields {
		fields[i].Chunks = writerChunks(fields[i].Tokens)
	}
	expect, err := planDict(fields, realBlockThreshold, nil)
	if err != nil {
		return res, fmt.Errorf("harness: %w", err)
	}
	d, err := openDict(files[0])
	if err != nil {
		return res, fmt.Errorf("harness: open sealed index: %w", err)
	}
	defer d.close()
	if err := d.checkTable(expect); err != nil {
		f := err.(*evid.Failure)
		return res, evid.Failf("layout-model-mismatch", "the sealed fraction's token table differs from the re-implemented writer rule: %s", f.Msg)
	}
	startTID := expect["f"][0].StartTID
	if err := d.checkFullScan("f", sortedVals, startTID); err != nil {
		return res, err
	}
	border := false
	nEntries := len(expect["f"])
	for _, q := range qs {
		got, selected, err := d.search(q.tok)
		if err != nil {
			return res, evid.Failf("dict-search-error", "%s: %v", q.desc, err)
		}
		if err := compareTIDs("sealed-dict", fmt.Sprintf("%s, %d of %d entries pre-selected", q.desc, selected, nEntries), got, sortedVals, startTID, q.want); err != nil {
			f := err.(*evid.Failure)
			f.Msg = shortenMsg(f.Msg)
			return res, f
		}
		res.Evals += len(sortedVals)
		if selected > 0 && selected < nEntries {
			res.Labels = append(res.Labels, "preselect:proper-subset")
			if len(got) > 0 {
				border = true
			}
		}
		if q.pat != nil {
			res.Labels = append(res.Labels, shapeOf(q.pat).class())
		} else {
			res.Labels = append(res.Labels, "range")
		}
		if len(got) > 0 {
			res.Labels = append(res.Labels, "query-matches")
		}
	}
	phys := map[uint32]bool{}
	for _, e := range expect["f"] {
		phys[e.BlockIndex] = true
	}
	res.Labels = append(res.Labels, "entries:"+strconv.Itoa(min(nEntries, 6)), "physical-blocks:"+strconv.Itoa(min(len(phys), 4)), "field-KiB:"+strconv.Itoa(min(total/realBlockThreshold, 6))+"x16")
	res.Labels = dedup(res.Labels)
	// non-trivial: the dictionary of the field spans >= 2 table entries and some query with
	// a non-empty answer was served from a proper subset of them
	res.NonTrivial = nEntries >= 2 && border
	return res, nil
}

func shortenMsg(s string) string {
	if len(s) > 600 {
		return s[:300] + " … " + s[len(s)-200:]
	}
	return s
}

func TestPropStore(t *testing.T)   { evid.Check(t, genStore, runStore) }
func TestReplayStore(t *testing.T) { evid.Replay(t, runStore) }
