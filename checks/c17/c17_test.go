// C17: re-delivering a bulk does not duplicate documents.
// Stateful model with set semantics over generated histories of bulks in which later
// bulks re-send arbitrary subsets of earlier documents.
package c17

import (
	"fmt"
	"math"
	"sort"
	"sync"
	"testing"

	"pgregory.net/rapid"

	"verif/internal/evid"
	"verif/internal/gen"
	"verif/internal/harness"
	"verif/internal/model"
)

type Step struct {
	Docs   []int `json:"docs"`   // indices into Case.Docs, pairwise distinct inside a bulk
	Rotate bool  `json:"rotate"` // seal the fraction after this bulk: later repeats land in another fraction
}

type Req struct {
	R     model.SearchReq   `json:"r"`
	Style model.RenderStyle `json:"style"`
	Aggs  []model.AggSpec   `json:"aggs,omitempty"`
}

type Case struct {
	// FPI: the searcher looks at this many fractions per iteration and stops early when the page is
	// certain (0: all at once, the production default is the CPU count)
	FPI          int         `json:"fpi,omitempty"`
	Docs         []model.Doc `json:"docs"`
	Steps        []Step      `json:"steps"`
	Concurrent   bool        `json:"concurrent,omitempty"`    // send consecutive non-rotating bulks concurrently
	ReplayActive bool        `json:"replay_active,omitempty"` // restart once before the final seal
	Reqs         []Req       `json:"reqs"`
}

func genCase(t *rapid.T) Case {
	var c Case
	c.Docs = gen.Corpus(t, gen.CorpusOpts{MinDocs: 2, MaxDocs: 40})
	withNested := rapid.IntRange(0, 2).Draw(t, "nested") == 2
	if withNested {
		for i := range c.Docs {
			if rapid.IntRange(0, 2).Draw(t, "isnested") >= 1 {
				n := rapid.IntRange(1, 3).Draw(t, "nn")
				for j := 0; j < n; j++ {
					toks := []model.Tok{{F: "_all_", V: ""}, {F: "_exists_", V: "spans.id"}, {F: "spans.id", V: fmt.Sprintf("s%d", rapid.IntRange(0, 5).Draw(t, "span"))}}
					// the proxy copies the parent's tokens (except _all_) into each nested entry
					toks = append(toks, c.Docs[i].Toks[1:]...)
					c.Docs[i].Nested = append(c.Docs[i].Nested, toks)
				}
			}
		}
	}
	n := len(c.Docs)
	nsteps := rapid.IntRange(2, 7).Draw(t, "nsteps")
	delivered := []int{}
	next := 0
	for s := 0; s < nsteps; s++ {
		var st Step
		in := map[int]bool{}
		kind := rapid.IntRange(0, 4).Draw(t, "kind")
		if len(delivered) == 0 {
			kind = 0
		}
		switch kind {
		case 0: // only new documents
		case 1: // whole-bulk repeat of an earlier step
			prev := c.Steps[rapid.IntRange(0, len(c.Steps)-1).Draw(t, "prev")]
			st.Docs = append(st.Docs, prev.Docs...)
			for _, d := range prev.Docs {
				in[d] = true
			}
		}
		// interleave new documents and repeats at arbitrary positions
		cnt := rapid.IntRange(1, 8).Draw(t, "cnt")
		if kind == 1 {
			cnt = rapid.IntRange(0, 2).Draw(t, "extra")
		}
		for j := 0; j < cnt; j++ {
			useOld := kind >= 2 && len(delivered) > 0 && rapid.Bool().Draw(t, "old")
			var d int
			if useOld {
				d = delivered[rapid.IntRange(0, len(delivered)-1).Draw(t, "which")]
			} else if next < n {
				d = next
				next++
			} else if len(delivered) > 0 {
				d = delivered[rapid.IntRange(0, len(delivered)-1).Draw(t, "which")]
			} else {
				continue
			}
			if in[d] {
				continue
			}
			in[d] = true
			pos := rapid.IntRange(0, len(st.Docs)).Draw(t, "pos")
			st.Docs = append(st.Docs[:pos], append([]int{d}, st.Docs[pos:]...)...)
		}
		if len(st.Docs) == 0 {
			continue
		}
		st.Rotate = rapid.IntRange(0, 3).Draw(t, "rotate") == 3
		for _, d := range st.Docs {
			delivered = append(delivered, d)
		}
		c.Steps = append(c.Steps, st)
	}
	c.FPI = rapid.SampledFrom([]int{0, 0, 1, 2}).Draw(t, "fpi")
	c.Concurrent = rapid.IntRange(0, 3).Draw(t, "concurrent") == 3
	c.ReplayActive = rapid.IntRange(0, 2).Draw(t, "replayactive") == 2
	var corpus model.Corpus
	for _, d := range delivered {
		corpus = append(corpus, c.Docs[d])
	}
	nreq := rapid.IntRange(2, 5).Draw(t, "nreq")
	for i := 0; i < nreq; i++ {
		c.Reqs = append(c.Reqs, Req{R: gen.SearchReq(t, corpus, 3), Style: gen.Style(t), Aggs: gen.AggSpecs(t, 2)})
	}
	if withNested {
		// tokens that only some of the entries of a document carry
		for i := rapid.IntRange(1, 2).Draw(t, "nspanreq"); i > 0; i-- {
			q := model.Lit("spans.id", model.Exact(fmt.Sprintf("s%d", rapid.IntRange(0, 5).Draw(t, "spanq"))))
			c.Reqs = append(c.Reqs, Req{R: model.SearchReq{Q: q, From: 0, To: math.MaxInt64, Limit: 100, WithTotal: true, Asc: rapid.Bool().Draw(t, "spanasc")}, Style: gen.Style(t)})
		}
	}
	return c
}

type fracModel struct {
	ids   map[model.ID]bool
	metas int
}

func runCase(c Case) (evid.Result, error) {
	res := evid.Result{}
	dir := evid.ScratchDir("c17")
	st, err := harness.OpenStore(dir, harness.StoreOpts{FracsPerIter: c.FPI})
	if err != nil {
		return res, err
	}
	defer func() { st.Close() }()

	var fracs []*fracModel
	cur := &fracModel{ids: map[model.ID]bool{}}
	var corpus model.Corpus // every delivery, in order (model.Search dedups: set semantics)
	held := map[model.ID]int{}
	crossDup, sameFracDup, partial, nested := false, false, false, false
	flush := func(batch [][]model.Doc) error {
		if len(batch) == 0 {
			return nil
		}
		if c.Concurrent && len(batch) > 1 {
			var wg sync.WaitGroup
			errs := make([]error, len(batch))
			for i := range batch {
				wg.Add(1)
				go func() { defer wg.Done(); errs[i] = st.Bulk(batch[i]) }()
			}
			wg.Wait()
			for _, e := range errs {
				if e != nil {
					return e
				}
			}
		} else {
			for _, b := range batch {
				if err := st.Bulk(b); err != nil {
					return err
				}
				if !c.Concurrent {
					st.WaitIdle()
				}
			}
		}
		st.WaitIdle()
		return nil
	}
	var batch [][]model.Doc
	for _, step := range c.Steps {
		var docs []model.Doc
		var dupPos []int
		for pi, di := range step.Docs {
			d := c.Docs[di]
			docs = append(docs, d)
			corpus = append(corpus, d)
			if len(d.Nested) > 0 {
				nested = true
			}
			if cur.ids[d.ID] {
				sameFracDup = true
				dupPos = append(dupPos, pi)
				continue
			}
			if held[d.ID] > 0 {
				crossDup = true
			}
			held[d.ID]++
			cur.ids[d.ID] = true
			cur.metas += 1 + len(d.Nested)
		}
		// partially overlapping bulk whose duplicates are neither a prefix nor a suffix
		if len(dupPos) > 0 && len(dupPos) < len(docs) {
			isPrefix := dupPos[len(dupPos)-1] == len(dupPos)-1
			isSuffix := dupPos[0] == len(docs)-len(dupPos)
			if !isPrefix && !isSuffix {
				partial = true
			}
		}
		batch = append(batch, docs)
		if step.Rotate {
			if err := flush(batch); err != nil {
				return res, evid.Failf("bulk-error", "%v", err)
			}
			batch = nil
			st.Seal()
			fracs = append(fracs, cur)
			cur = &fracModel{ids: map[model.ID]bool{}}
		}
	}
	if err := flush(batch); err != nil {
		return res, evid.Failf("bulk-error", "%v", err)
	}
	fracs = append(fracs, cur)

	strict := !crossDup && !nested // totals / histograms / aggregations are promised only then
	check := func(phase string) error {
		// per-fraction document counts
		var counts []int
		for _, f := range st.FM.GetAllFracs() {
			if n := int(f.Info().DocsTotal); n > 0 {
				counts = append(counts, n)
			}
		}
		var want []int
		for _, f := range fracs {
			if f.metas > 0 {
				want = append(want, f.metas)
			}
		}
		if fmt.Sprint(counts) != fmt.Sprint(want) {
			return evid.Failf("docs-total-differs", "[%s] fraction document counts %v, want %v", phase, counts, want)
		}
		for i := range c.Reqs {
			rq := &c.Reqs[i]
			text := model.RenderSeqQL(rq.R.Q, rq.Style)
			w := model.Search(corpus, &rq.R)
			var aggs []model.AggSpec
			if strict {
				aggs = rq.Aggs
			}
			qpr, err := st.Search(&rq.R, text, aggs)
			if err != nil {
				return evid.Failf("search-error", "[%s] %q: %v", phase, text, err)
			}
			got := harness.FromSeqIDs(qpr.IDs)
			if !model.EqualIDs(got, w.IDs) {
				return evid.Failf("ids-differ", "[%s] %q limit=%d asc=%v: got %v want %v", phase, text, rq.R.Limit, rq.R.Asc, got, w.IDs)
			}
			if strict {
				if rq.R.WithTotal && qpr.Total != w.Total {
					return evid.Failf("total-differs", "[%s] %q: got %d want %d", phase, text, qpr.Total, w.Total)
				}
				if rq.R.Interval > 0 && !harness.EqualHist(harness.HistOf(qpr), w.Hist) {
					return evid.Failf("hist-differs", "[%s] %q: got %s want %s", phase, text, harness.FmtHist(harness.HistOf(qpr)), harness.FmtHist(w.Hist))
				}
				matching := model.Matching(corpus.Dedup(), &rq.R)
				ares := qpr.Aggregate(harness.AggArgs(aggs))
				for ai, spec := range aggs {
					wa, err := model.Agg(matching, spec)
					if err != nil {
						return err
					}
					if err := harness.CompareAgg(ares[ai], wa, spec); err != nil {
						return evid.Failf("agg-differs", "[%s] %q agg %+v: %v", phase, text, spec, err)
					}
				}
			}
			res.Evals++
		}
		// every token of every delivered document is still searchable (this is what the
		// re-indexing of a partially overlapping bulk must preserve)
		type tk struct{ f, v string }
		seen := map[tk]bool{}
		var keys []tk
		for _, d := range corpus {
			for _, t := range d.Toks {
				if k := (tk{t.F, t.V}); !seen[k] {
					seen[k] = true
					keys = append(keys, k)
				}
			}
		}
		sort.Slice(keys, func(i, j int) bool { return keys[i].f+"\x00"+keys[i].v < keys[j].f+"\x00"+keys[j].v })
		for _, k := range keys {
			q := model.Lit(k.f, model.Exact(k.v))
			rq := &model.SearchReq{Q: q, From: 0, To: gen.BaseMID * 2, Limit: 1 << 20}
			w := model.Search(corpus, rq)
			qpr, err := st.Search(rq, model.RenderSeqQL(q, model.RenderStyle{}), nil)
			if err != nil {
				return evid.Failf("search-error", "[%s] token %v: %v", phase, k, err)
			}
			if got := harness.FromSeqIDs(qpr.IDs); !model.EqualIDs(got, w.IDs) {
				return evid.Failf("token-search-differs", "[%s] %s:%q: got %v want %v", phase, k.f, k.v, got, w.IDs)
			}
		}
		// fetch: original bytes, once
		idx := corpus.Index()
		var ids []model.ID
		for id := range idx {
			ids = append(ids, id)
		}
		sort.Slice(ids, func(i, j int) bool { return ids[i].Less(ids[j]) })
		docs, err := st.Fetch(harness.ToSeqIDs(ids))
		if err != nil {
			return evid.Failf("fetch-error", "[%s] %v", phase, err)
		}
		for i, id := range ids {
			if !model.EqualBytes(docs[i], idx[id].Body) {
				return evid.Failf("fetch-differs", "[%s] id %v: got %.40q want %.40q", phase, id, docs[i], idx[id].Body)
			}
		}
		return nil
	}
	if err := check("ingested"); err != nil {
		return res, err
	}
	// restart while the last fraction is still active: replay feeds all its bulks to the
	// index workers at once, so sequential repeats become concurrent ones
	if c.ReplayActive {
		st1, err := st.Restart(nil)
		if err != nil {
			return res, evid.Failf("restart-failed", "%v", err)
		}
		st = st1
		if err := check("replayed-active"); err != nil {
			return res, err
		}
		res.Labels = append(res.Labels, "restart-while-active")
	}
	st.Seal()
	if err := check("sealed"); err != nil {
		return res, err
	}
	st2, err := st.Restart(nil)
	if err != nil {
		return res, evid.Failf("restart-failed", "%v", err)
	}
	st = st2
	if err := check("restarted"); err != nil {
		return res, err
	}
	res.NonTrivial = partial
	if sameFracDup {
		res.Labels = append(res.Labels, "same-fraction-repeat")
	}
	if crossDup {
		res.Labels = append(res.Labels, "cross-fraction-repeat")
	}
	if partial {
		res.Labels = append(res.Labels, "partial-overlap-inside")
	}
	if nested {
		res.Labels = append(res.Labels, "nested-entries")
	}
	if c.Concurrent {
		res.Labels = append(res.Labels, "concurrent")
	}
	if strict {
		res.Labels = append(res.Labels, "strict-totals")
	}
	return res, nil
}

func TestProp(t *testing.T)   { evid.Check(t, genCase, runCase) }
func TestReplay(t *testing.T) { evid.Replay(t, runCase) }
