// C19: a finished asynchronous search equals the synchronous one and survives restarts.
// Child store with the real AsyncSearcher; a crash is injected after the k-th persisted
// file (request info / per-fraction partial result / final info) through the verifhook
// point in mustWriteFileAtomic; a new process resumes the search.
package c19

import (
	"fmt"
	"math"
	"os"
	"regexp"
	"slices"
	"sort"
	"strconv"
	"strings"
	"testing"
	"time"

	"pgregory.net/rapid"

	"verif/internal/evid"
	"verif/internal/gen"
	"verif/internal/harness"
	"verif/internal/model"
)

type Case struct {
	Corpus     model.Corpus `json:"corpus"`
	FracOf     []int        `json:"frac_of"`
	K          int          `json:"k"`
	LastActive bool         `json:"last_active"`
	// Dups: [document index, fraction] - the document is delivered once more into another
	// fraction (a repeat that the merge has to drop: ids, histogram and aggregations count it once)
	Dups  [][2]int          `json:"dups,omitempty"`
	R     model.SearchReq   `json:"r"`
	Style model.RenderStyle `json:"style"`
	Aggs  []model.AggSpec   `json:"aggs,omitempty"`
	// crash after the N-th hit of Point inside mustWriteFileAtomic (0: no crash);
	// Again: once more after that many further hits in the restarted process
	Point string `json:"point,omitempty"` // async.write.begin | async.write.synced | async.write.renamed
	N     int    `json:"n,omitempty"`
	Again int    `json:"again,omitempty"`
	Fsync bool   `json:"fsync,omitempty"`
	// Late: documents ingested into a NEW fraction after the search was started and before
	// it is resumed (through an intermediate process that does not run the async searcher);
	// they match the query's fields but must not show up in the result
	Late []model.Doc `json:"late,omitempty"`
	// Retire: between the crash and the resumption size-based retention removes the oldest
	// fraction (an intermediate process with the size limit just below what is stored).
	// The resumed search has to end; its answer holds every matching document of the
	// surviving fractions and nothing that was never stored.
	Retire bool `json:"retire,omitempty"`
	// Remap: the process that resumes the search after the crash runs with a mapping that
	// indexes only the field svc (an operator has edited the mapping file).  When the persisted
	// query names another field it no longer parses: the search has to end as failed - every
	// fetch answers (no hang), the store stays up, also after one more restart.
	Remap bool `json:"remap,omitempty"`
	// BadAgg: the only aggregation asks for a number function over the text field svc; when a
	// matching document carries a non-numeric value the synchronous search fails with an error.
	// The asynchronous search then has to fail too - reported by the fetch, with the store
	// staying up, also across a restart - and must not present a result.
	BadAgg bool `json:"bad_agg,omitempty"`
	// Huge: two more documents whose dur values are finite but add up beyond float64
	// (1e308 + 1.5e308): sums and averages are +Inf in the synchronous answer
	Huge bool `json:"huge,omitempty"`
	// Phrase: the store runs with a mapping in which msg is a text field (every other field the
	// request names is a keyword field), and the asynchronous search gets the query extended by
	// `and msg:"w1 w2 ..."`: on a text field a value of several words denotes the conjunction of its
	// words.  The synchronous comparison and the model use the written-out conjunction.  The
	// persisted text is parsed again at every resumption - with the same mapping.
	Phrase    []string `json:"phrase,omitempty"`
	PhraseSep string   `json:"phrase_sep,omitempty"`
}

func fieldsOf(q *model.Q, into map[string]bool) {
	if q == nil {
		return
	}
	if q.Field != "" {
		into[q.Field] = true
	}
	for _, k := range q.Kids {
		fieldsOf(k, into)
	}
}

// phraseMapping: the fields the store's mapping lists in phrase mode
func (c *Case) phraseMapping() []string {
	if len(c.Phrase) == 0 {
		return nil
	}
	set := map[string]bool{}
	fieldsOf(c.R.Q, set)
	for _, a := range c.Aggs {
		set[a.Field], set[a.GroupBy] = true, true
	}
	for _, f := range gen.AllFields {
		set[f] = true
	}
	delete(set, "")
	delete(set, gen.TextField)
	out := []string{gen.TextField + ":text"}
	for f := range set {
		out = append(out, f)
	}
	sort.Strings(out)
	return out
}

var phraseMark = regexp.MustCompile("[\"'`]?ZZPHRASEMARKZZ[\"'`]?")

// texts: the query text for the synchronous search (parsed without a mapping, every field a
// keyword) and for the asynchronous one; they differ in phrase mode only.  c.R.Q is the
// written-out form, which the model evaluates.
func (c *Case) texts() (syncText, asyncText string) {
	if len(c.Phrase) == 0 {
		t := model.RenderSeqQL(c.R.Q, c.Style)
		return t, t
	}
	var conj *model.Q
	for _, w := range c.Phrase {
		l := model.Lit(gen.TextField, model.Exact(w))
		if conj == nil {
			conj = l
		} else {
			conj = model.And(conj, l)
		}
	}
	orig := c.R.Q
	c.R.Q = model.And(orig, conj)
	marked := model.RenderSeqQL(model.And(orig, model.Lit(gen.TextField, model.Exact("ZZPHRASEMARKZZ"))), c.Style)
	return model.RenderSeqQL(c.R.Q, c.Style), phraseMark.ReplaceAllLiteralString(marked, `"`+strings.Join(c.Phrase, c.PhraseSep)+`"`)
}

func genCase(t *rapid.T) Case {
	var c Case
	c.Corpus = gen.Corpus(t, gen.CorpusOpts{MinDocs: 1, MaxDocs: 60})
	c.K = rapid.IntRange(1, 6).Draw(t, "k")
	c.LastActive = rapid.Bool().Draw(t, "lastactive")
	for range c.Corpus {
		c.FracOf = append(c.FracOf, rapid.IntRange(0, c.K-1).Draw(t, "frac"))
	}
	if c.K > 1 {
		for n := rapid.IntRange(0, 3).Draw(t, "ndups"); n > 0; n-- {
			i := rapid.IntRange(0, len(c.Corpus)-1).Draw(t, "dupdoc")
			f := rapid.IntRange(0, c.K-1).Draw(t, "dupfrac")
			if f != c.FracOf[i] {
				c.Dups = append(c.Dups, [2]int{i, f})
			}
		}
	}
	c.R = gen.SearchReq(t, c.Corpus, 3)
	if rapid.Bool().Draw(t, "matchall") {
		c.R.Q = model.All()
	}
	c.R.WithTotal = false // the async API never asks for a total
	c.R.Limit = 1<<31 - 1 // and uses this limit
	c.Style = gen.Style(t)
	c.Aggs = gen.AggSpecs(t, 2)
	switch rapid.IntRange(0, 9).Draw(t, "trouble") {
	case 8:
		c.BadAgg = true
		c.Aggs = []model.AggSpec{{Func: rapid.SampledFrom([]string{"sum", "min", "avg", "quantile"}).Draw(t, "badfunc"), Field: "svc"}}
		if c.Aggs[0].Func == "quantile" {
			c.Aggs[0].Quantiles = []float64{0.5}
		}
	case 9:
		c.Huge = true
		c.Aggs = append(c.Aggs, model.AggSpec{Func: rapid.SampledFrom([]string{"sum", "avg"}).Draw(t, "hugefunc"), Field: "dur"})
	}
	if rapid.IntRange(0, 3).Draw(t, "crash") > 0 {
		c.Point = rapid.SampledFrom([]string{"async.write.renamed", "async.write.synced", "async.write.begin"}).Draw(t, "point")
		c.N = rapid.IntRange(1, c.K+2).Draw(t, "n")
		if rapid.IntRange(0, 3).Draw(t, "again") == 3 {
			c.Again = rapid.IntRange(1, c.K+1).Draw(t, "againn")
		}
	}
	c.Fsync = rapid.IntRange(0, 3).Draw(t, "fsync") == 3
	if c.N > 0 && rapid.IntRange(0, 2).Draw(t, "late") == 2 {
		late := gen.Corpus(t, gen.CorpusOpts{MinDocs: 1, MaxDocs: 8})
		for i := range late {
			late[i].ID.RID |= 1 << 61 // distinct from every earlier id
		}
		c.Late = late
	}
	if c.N > 0 && len(c.Late) == 0 && c.K > 1 {
		c.Retire = rapid.IntRange(0, 3).Draw(t, "retire") == 3
	}
	if c.N > 0 && len(c.Late) == 0 && !c.Retire && !c.BadAgg && !c.Huge {
		c.Remap = rapid.IntRange(0, 4).Draw(t, "remap") == 4
	}
	used := map[string]bool{}
	fieldsOf(c.R.Q, used)
	if !c.Remap && !c.BadAgg && !used[gen.TextField] && rapid.IntRange(0, 3).Draw(t, "phrase") == 3 {
		// words of one document's text field where possible, so that the phrase selects something
		var have []string
		for _, i := range rapid.Permutation(seqInts(len(c.Corpus))).Draw(t, "phrasedoc") {
			have = have[:0]
			for _, tk := range c.Corpus[i].Toks {
				if tk.F == gen.TextField && tk.V != "" && !slices.Contains(have, tk.V) {
					have = append(have, tk.V)
				}
			}
			if len(have) >= 2 {
				break
			}
		}
		for len(have) < 2 {
			have = append(have, rapid.SampledFrom(gen.ValsOf(gen.TextField)).Draw(t, "phraseword"))
		}
		c.Phrase = have[:rapid.IntRange(2, min(3, len(have))).Draw(t, "phraselen")]
		c.PhraseSep = rapid.SampledFrom([]string{" ", ", ", " - ", "  ", "/"}).Draw(t, "phrasesep")
	}
	return c
}

func seqInts(n int) []int {
	out := make([]int, n)
	for i := range out {
		out[i] = i
	}
	return out
}

func waitDone(p *harness.Proc, id string, aggs []model.AggSpec) (*harness.PResp, error) {
	deadline := time.Now().Add(30 * time.Second)
	for {
		r, err := p.Do(harness.PCmd{Op: "fetchasync", ID: id, Aggs: aggs})
		if err != nil {
			return nil, err
		}
		if !r.OK {
			return nil, evid.Failf("fetchasync-error", "%s", r.Err)
		}
		if !r.Found {
			return nil, evid.Failf("async-request-lost", "the store does not know async search %s", id)
		}
		if r.Failed != "" {
			return nil, evid.Failf("async-search-failed", "the synchronous search succeeds, the asynchronous one has failed: %s", r.Failed)
		}
		if r.Done {
			return r, nil
		}
		if time.Now().After(deadline) {
			return nil, evid.Failf("async-never-done", "async search %s over a few dozen documents is not done after 30 s", id)
		}
		time.Sleep(2 * time.Millisecond)
	}
}

// absScale: the sum of the absolute values of every numeric token of the corpus - an upper
// bound of what the rounding error of any sum over its documents is relative to
func absScale(corpus model.Corpus) float64 {
	s := 0.0
	for _, d := range corpus {
		for _, t := range d.Toks {
			if v, ok := model.IsNum(t.V); ok {
				s += math.Abs(v)
			}
		}
	}
	if math.IsInf(s, 0) {
		return 0
	}
	return s
}

// aggDiff compares two aggregation results of the same request: same buckets (order is not
// significant), equal counters, values equal up to the rounding of a different summation
// order (relative 1e-9, as harness.CompareAgg allows against the model).
func aggDiff(a, b harness.AggOut, scale float64) string {
	if a.NotExists != b.NotExists {
		return fmt.Sprintf("not_exists %d vs %d", a.NotExists, b.NotExists)
	}
	if len(a.Buckets) != len(b.Buckets) {
		return fmt.Sprintf("%d buckets vs %d", len(a.Buckets), len(b.Buckets))
	}
	key := func(x harness.AggBucket) string { return fmt.Sprintf("%q@%d", x.Name, x.MID) }
	near := func(x, y string) bool {
		if x == y {
			return true
		}
		f, e1 := strconv.ParseFloat(x, 64)
		g, e2 := strconv.ParseFloat(y, 64)
		if e1 != nil || e2 != nil {
			return false
		}
		return math.Abs(f-g) <= 1e-9*math.Max(math.Max(math.Abs(f), math.Abs(g)), scale)
	}
	bm := map[string]harness.AggBucket{}
	for _, x := range b.Buckets {
		bm[key(x)] = x
	}
	for _, x := range a.Buckets {
		y, ok := bm[key(x)]
		if !ok {
			return "bucket " + key(x) + " only on one side"
		}
		if x.NotExists != y.NotExists || !near(x.Value, y.Value) || len(x.Quantiles) != len(y.Quantiles) {
			return fmt.Sprintf("bucket %s: %s %v /%d vs %s %v /%d", key(x), x.Value, x.Quantiles, x.NotExists, y.Value, y.Quantiles, y.NotExists)
		}
		for i := range x.Quantiles {
			if !near(x.Quantiles[i], y.Quantiles[i]) {
				return fmt.Sprintf("bucket %s: quantiles %v vs %v", key(x), x.Quantiles, y.Quantiles)
			}
		}
	}
	return ""
}

// compare: ids and histogram against the model; aggregations against the model too, or -
// when a document lives in two fractions, which the per-fraction aggregation cannot know
// and the synchronous search therefore counts twice as well - against the synchronous answer
// (aggRef; nil: not comparable, e.g. the search was started anew over more fractions).
func compare(what string, r *harness.PResp, corpus model.Corpus, c *Case, dups bool, aggRef *harness.PResp) error {
	want := model.Search(corpus, &c.R)
	if !model.EqualIDs(r.IDs, want.IDs) {
		return evid.Failf("ids-differ", "[%s] got %d ids %v, want %d ids %v", what, len(r.IDs), head(r.IDs), len(want.IDs), head(want.IDs))
	}
	if c.R.Interval > 0 && !harness.EqualHist(r.Hist, want.Hist) {
		return evid.Failf("hist-differs", "[%s] got %s want %s", what, harness.FmtHist(r.Hist), harness.FmtHist(want.Hist))
	}
	if len(c.Aggs) > 0 && dups {
		if aggRef == nil {
			return nil
		}
		if len(r.Aggs) != len(aggRef.Aggs) {
			return evid.Failf("aggs-missing", "[%s] %d aggregation results, the synchronous search gave %d", what, len(r.Aggs), len(aggRef.Aggs))
		}
		for i := range r.Aggs {
			if d := aggDiff(r.Aggs[i], aggRef.Aggs[i], absScale(corpus)); d != "" {
				return evid.Failf("agg-differs-from-sync", "[%s] agg %+v differs from what the synchronous search gave: %s", what, c.Aggs[i], d)
			}
		}
		return nil
	}
	if len(c.Aggs) > 0 {
		if len(r.Aggs) != len(c.Aggs) {
			return evid.Failf("aggs-missing", "[%s] %d aggregation results for %d requests", what, len(r.Aggs), len(c.Aggs))
		}
		matching := model.Matching(corpus.Dedup(), &c.R)
		for i, spec := range c.Aggs {
			w, err := model.Agg(matching, spec)
			if err != nil {
				return err
			}
			if err := harness.CompareAgg(r.Aggs[i].ToAggregationResult(), w, spec); err != nil {
				return evid.Failf("agg-differs", "[%s] agg %+v: %v", what, spec, err)
			}
		}
	}
	return nil
}

func head(ids []model.ID) []model.ID {
	if len(ids) > 8 {
		return ids[:8]
	}
	return ids
}

func runCase(c Case) (evid.Result, error) {
	res := evid.Result{}
	dir := evid.ScratchDir("c19")
	defer os.RemoveAll(dir)
	opts := harness.StoreOpts{}
	pmap := c.phraseMapping()
	if pmap != nil {
		res.Labels = append(res.Labels, "phrase-on-a-text-field")
	}
	p, err := harness.OpenProcAsyncMapped(dir, opts, c.Fsync, true, pmap)
	if err != nil {
		return res, evid.Failf("no-start", "%v", err)
	}
	defer func() { p.Kill() }()
	if c.Huge {
		// appended to the last fraction, at the time of the first document; the model sees them as well
		at := c.Corpus[0].ID.MID
		c.Corpus = append(append(model.Corpus{}, c.Corpus...),
			model.Doc{ID: model.ID{MID: at, RID: 1<<60 + 1}, Body: []byte(`{"dur":"1e308"}`), Toks: []model.Tok{{F: "_all_", V: ""}, {F: "_exists_", V: "dur"}, {F: "dur", V: "1e308"}}},
			model.Doc{ID: model.ID{MID: at, RID: 1<<60 + 2}, Body: []byte(`{"dur":"1.5e308"}`), Toks: []model.Tok{{F: "_all_", V: ""}, {F: "_exists_", V: "dur"}, {F: "dur", V: "1.5e308"}}})
		c.FracOf = append(append([]int{}, c.FracOf...), c.K-1, c.K-1)
		res.Labels = append(res.Labels, "sum-beyond-float64")
	}
	nfr, firstFrac := 0, -1
	dupApplied := false
	for f := 0; f < c.K; f++ {
		var part []model.Doc
		for i, d := range c.Corpus {
			if c.FracOf[i] == f {
				part = append(part, d)
			}
		}
		for _, dp := range c.Dups {
			if dp[1] == f && dp[0] >= 0 && dp[0] < len(c.Corpus) && c.FracOf[dp[0]] != f {
				dup := false
				for _, d := range part {
					dup = dup || d.ID == c.Corpus[dp[0]].ID
				}
				if !dup {
					part = append(part, c.Corpus[dp[0]])
					dupApplied = true
				}
			}
		}
		if len(part) == 0 {
			continue
		}
		if nfr == 0 {
			firstFrac = f
		}
		nfr++
		if r, err := p.Do(harness.PCmd{Op: "bulk", Docs: part, Wait: true}); err != nil || !r.OK {
			return res, fmt.Errorf("ingest: %v %+v", err, r)
		}
		if !(f == c.K-1 && c.LastActive) {
			if _, err := p.Do(harness.PCmd{Op: "seal"}); err != nil {
				return res, fmt.Errorf("seal: %v", err)
			}
		}
	}
	if dupApplied {
		res.Labels = append(res.Labels, "document-in-two-fractions")
	}
	text, atext := c.texts()
	// the synchronous answer over the same fractions
	sync, err := p.Do(harness.PCmd{Op: "search", Req: &c.R, Text: text, Aggs: c.Aggs})
	if err != nil {
		return res, evid.Failf("died-in-search", "exit %d %s", p.Exit, p.StderrTail())
	}
	if !sync.OK && c.BadAgg {
		return failingSearch(&c, &p, dir, opts, text, sync.Err, res)
	}
	if !sync.OK {
		return res, evid.Failf("search-error", "%q: %s", text, sync.Err)
	}
	if c.BadAgg {
		c.Aggs = nil // no matching document has a non-numeric value: nothing special about this case
	}
	if err := compare("sync", sync, c.Corpus, &c, dupApplied, nil); err != nil {
		return res, err
	}
	id := "req-1"
	if c.N > 0 {
		if _, err := p.Do(harness.PCmd{Op: "arm", Point: c.Point, N: c.N}); err != nil {
			return res, err
		}
	}
	crashes := 0
	retired := false
	expected := c.Corpus // the documents of the fractions that existed when the search was (re)started
	lateIngested := false
	var final *harness.PResp
	r, err := p.Do(harness.PCmd{Op: "startasync", ID: id, Req: &c.R, Text: atext, Aggs: c.Aggs})
	if err == nil && !r.OK {
		return res, evid.Failf("startasync-error", "%q: %s", atext, r.Err)
	}
	if err == nil {
		final, err = waitDone(p, id, c.Aggs)
	}
	for round := 0; err != nil; round++ {
		if _, isFail := err.(*evid.Failure); isFail {
			return res, err
		}
		// the process died: either at the armed point or because of a defect
		if p.Crash == nil {
			return res, evid.Failf("died-in-async", "store died during the async search: exit %d %s", p.Exit, p.StderrTail())
		}
		if round > 2 {
			return res, fmt.Errorf("harness: more crashes than armed")
		}
		crashes++
		res.Labels = append(res.Labels, fmt.Sprintf("crash@%s#%d", p.Crash.Crashed, min(c.N, 9)))
		if crashes == 1 && c.Retire && nfr >= 2 && !retired {
			q, err := harness.OpenProcAsync(dir, opts, c.Fsync, false)
			if err != nil {
				return res, evid.Failf("no-start", "intermediate start: %v", err)
			}
			fr, err := q.Do(harness.PCmd{Op: "fracs"})
			if err != nil {
				return res, evid.Failf("died-idle", "intermediate: exit %d %s", q.Exit, q.StderrTail())
			}
			var total uint64
			for _, f := range fr.Fracs {
				total += f.Size
			}
			if err := q.StopGraceful(); err != nil {
				return res, evid.Failf("stop-failed", "intermediate: %v", err)
			}
			if len(fr.Fracs) >= 2 && fr.Fracs[0].Sealed && fr.Fracs[0].Size > 0 && total > 2 {
				lower := opts
				lower.TotalSize = total - 1 // one maintenance pass removes exactly the oldest fraction
				lower.NoMaintLoop = true    // exactly one pass at a time: the one asked for below
				q, err := harness.OpenProcAsync(dir, lower, c.Fsync, false)
				if err != nil {
					return res, evid.Failf("no-start", "intermediate start with the lowered limit: %v", err)
				}
				if _, err := q.Do(harness.PCmd{Op: "maintain"}); err != nil {
					return res, evid.Failf("died-in-maintenance", "intermediate: exit %d %s", q.Exit, q.StderrTail())
				}
				if err := q.StopGraceful(); err != nil {
					return res, evid.Failf("stop-failed", "intermediate: %v", err)
				}
				retired = true
				res.Labels = append(res.Labels, "oldest-fraction-retired-before-resume")
			}
		}
		if crashes == 1 && len(c.Late) > 0 {
			// ingest into a fresh fraction while no async searcher is running
			q, err := harness.OpenProcAsync(dir, opts, c.Fsync, false)
			if err != nil {
				return res, evid.Failf("no-start", "intermediate start: %v", err)
			}
			if _, err := q.Do(harness.PCmd{Op: "seal"}); err != nil {
				return res, evid.Failf("died-in-seal", "intermediate: exit %d %s", q.Exit, q.StderrTail())
			}
			if r, err := q.Do(harness.PCmd{Op: "bulk", Docs: c.Late, Wait: true}); err != nil || !r.OK {
				return res, fmt.Errorf("late ingest: %v %+v", err, r)
			}
			if err := q.StopGraceful(); err != nil {
				return res, evid.Failf("stop-failed", "intermediate: %v", err)
			}
			res.Labels = append(res.Labels, "late-fraction-before-resume")
			lateIngested = true
		}
		if c.Remap {
			return resumeRemapped(&c, dir, opts, id, text, res)
		}
		p, err = harness.OpenProcAsyncMapped(dir, opts, c.Fsync, true, pmap)
		if err != nil {
			return res, evid.Failf("no-start", "after crash %d: %v", crashes, err)
		}
		if crashes == 1 && c.Again > 0 {
			if _, err := p.Do(harness.PCmd{Op: "arm", Point: c.Point, N: c.Again}); err != nil {
				// the resumed search may already have hit... arming is best effort
				continue
			}
		}
		// a crash before the request was persisted loses the request: the client's
		// StartAsyncSearch call never returned, so it retries
		fr, ferr := p.Do(harness.PCmd{Op: "fetchasync", ID: id, Aggs: c.Aggs})
		if ferr == nil && fr.OK && !fr.Found {
			res.Labels = append(res.Labels, "request-not-persisted-retry")
			if lateIngested {
				// the search is started anew now: the late fraction exists at its start
				expected = append(append(model.Corpus{}, c.Corpus...), c.Late...)
			}
			if r, serr := p.Do(harness.PCmd{Op: "startasync", ID: id, Req: &c.R, Text: atext, Aggs: c.Aggs}); serr != nil {
				err = serr
				continue
			} else if !r.OK {
				return res, evid.Failf("startasync-error", "%q: %s", text, r.Err)
			}
		}
		final, err = waitDone(p, id, c.Aggs)
	}
	aggRef := sync
	if len(expected) != len(c.Corpus) {
		aggRef = nil
	}
	if retired {
		// the oldest fraction is gone; whether its partial result had been persisted before the
		// crash is the schedule's: every id must be a stored matching document, and every
		// matching document of the surviving fractions must be there
		var surviving model.Corpus
		for i, d := range c.Corpus {
			survives := c.FracOf[i] != firstFrac
			for _, dp := range c.Dups {
				if dp[0] == i && dp[1] != firstFrac {
					survives = true
				}
			}
			if survives {
				surviving = append(surviving, d)
			}
		}
		all := map[model.ID]bool{}
		for _, id := range model.Search(c.Corpus, &c.R).IDs {
			all[id] = true
		}
		got := map[model.ID]bool{}
		for _, id := range final.IDs {
			if !all[id] {
				return res, evid.Failf("ids-differ", "[async, oldest fraction retired before the resumption] id %v is not a stored matching document", id)
			}
			got[id] = true
		}
		for _, id := range model.Search(surviving, &c.R).IDs {
			if !got[id] {
				return res, evid.Failf("ids-differ", "[async, oldest fraction retired before the resumption] matching document %v of a surviving fraction is missing", id)
			}
		}
		res.Evals = 2
		res.NonTrivial = true
		return res, nil
	}
	if err := compare("async", final, expected, &c, dupApplied, aggRef); err != nil {
		return res, err
	}
	res.Evals = 2
	// a later fetch and a clean restart still give the same answer
	if err := p.StopGraceful(); err != nil {
		return res, evid.Failf("stop-failed", "%v", err)
	}
	p, err = harness.OpenProcAsyncMapped(dir, opts, c.Fsync, true, pmap)
	if err != nil {
		return res, evid.Failf("no-start", "final: %v", err)
	}
	again, err := waitDone(p, id, c.Aggs)
	if err != nil {
		if _, isFail := err.(*evid.Failure); isFail {
			return res, err
		}
		return res, evid.Failf("died-in-async", "after final restart: exit %d %s", p.Exit, p.StderrTail())
	}
	if err := compare("async after restart", again, expected, &c, dupApplied, aggRef); err != nil {
		return res, err
	}
	res.Evals++
	contributing := map[int]bool{}
	idxOf := map[model.ID]int{}
	for i, d := range c.Corpus {
		idxOf[d.ID] = i
	}
	for _, d := range model.Matching(c.Corpus, &c.R) {
		contributing[c.FracOf[idxOf[d.ID]]] = true
	}
	res.NonTrivial = len(contributing) >= 2 && crashes > 0 && c.N > 1 && c.N < nfr+2
	if crashes == 0 && c.N > 0 {
		res.Labels = append(res.Labels, "crash-not-reached")
	}
	if crashes >= 2 {
		res.Labels = append(res.Labels, "two-crashes")
	}
	if len(contributing) >= 2 {
		res.Labels = append(res.Labels, "fracs-contributing>=2")
	}
	return res, nil
}

// resumeRemapped: the store comes back with a mapping that indexes svc only.  Whatever the
// persisted query then means - it may still parse - every fetch has to answer within its time,
// with a result, a failure or "unknown search"; never a hang, never a dead store.
func resumeRemapped(c *Case, dir string, opts harness.StoreOpts, id, text string, res evid.Result) (evid.Result, error) {
	res.Labels = append(res.Labels, "resumed-under-another-mapping")
	res.NonTrivial = true
	for round := 0; round < 2; round++ {
		p, err := harness.OpenProcAsyncMapped(dir, opts, c.Fsync, true, []string{"svc"})
		if err != nil {
			return res, evid.Failf("no-start", "resumption %d under the edited mapping: %v", round, err)
		}
		deadline := time.Now().Add(40 * time.Second)
		for {
			r, err := p.Do(harness.PCmd{Op: "fetchasync", ID: id, Aggs: c.Aggs})
			if err != nil {
				return res, evid.Failf("died-in-async", "resumption %d of %q under a mapping that indexes svc only: the store died: exit %d %s", round, text, p.Exit, p.StderrTail())
			}
			if !r.OK {
				p.Kill()
				return res, evid.Failf("fetch-hangs-after-failed-resumption", "resumption %d of %q under a mapping that indexes svc only: %s", round, text, r.Err)
			}
			if !r.Found || r.Failed != "" || r.Done {
				if r.Failed != "" {
					res.Labels = append(res.Labels, "resumed-search-failed-cleanly")
				}
				break
			}
			if time.Now().After(deadline) {
				p.Kill()
				return res, evid.Failf("async-never-done", "resumption %d: neither done nor failed after 40 s", round)
			}
			time.Sleep(2 * time.Millisecond)
		}
		// the store still serves synchronous searches
		if sr, err := p.Do(harness.PCmd{Op: "search", Req: &model.SearchReq{Q: model.All(), From: 0, To: 1 << 41, Limit: 5}, Text: "*"}); err != nil || !sr.OK {
			return res, evid.Failf("store-unusable", "after the resumption: %v %+v", err, sr)
		}
		res.Evals++
		if err := p.StopGraceful(); err != nil {
			p.Kill()
			return res, evid.Failf("stop-failed", "after the resumption under the edited mapping: %v", err)
		}
	}
	return res, nil
}

// failingSearch: the synchronous search has answered with an error.  The asynchronous one
// may be refused at the start; otherwise every fetch, before and after a restart, must say
// that it failed (or that it does not know the search) - with the store up.
func failingSearch(c *Case, pp **harness.Proc, dir string, opts harness.StoreOpts, text, syncErr string, res evid.Result) (evid.Result, error) {
	p := *pp
	res.Labels = append(res.Labels, "synchronous-search-fails")
	res.NonTrivial = true
	id := "req-bad"
	r, err := p.Do(harness.PCmd{Op: "startasync", ID: id, Req: &c.R, Text: text, Aggs: c.Aggs})
	if err != nil {
		return res, evid.Failf("died-in-async", "store died when an async search was started whose synchronous form fails with %q: exit %d %s", syncErr, p.Exit, p.StderrTail())
	}
	if !r.OK {
		res.Labels = append(res.Labels, "async-start-refused")
		return res, nil
	}
	poll := func(when string) error {
		deadline := time.Now().Add(30 * time.Second)
		for {
			r, err := p.Do(harness.PCmd{Op: "fetchasync", ID: id, Aggs: c.Aggs})
			if err != nil {
				return evid.Failf("died-in-async", "%s: the synchronous search fails with %q; the store died during the asynchronous one: exit %d %s", when, syncErr, p.Exit, p.StderrTail())
			}
			if !r.OK {
				return evid.Failf("fetchasync-error", "%s: %s", when, r.Err)
			}
			if !r.Found || r.Failed != "" {
				return nil
			}
			if r.Done {
				return evid.Failf("error-hidden", "%s: the synchronous search fails with %q, the asynchronous one reports done with a result (%d ids)", when, syncErr, len(r.IDs))
			}
			if time.Now().After(deadline) {
				return evid.Failf("async-never-done", "%s: async search is neither done nor failed after 30 s", when)
			}
			time.Sleep(2 * time.Millisecond)
		}
	}
	if err := poll("first run"); err != nil {
		return res, err
	}
	res.Evals++
	for round := 0; round < 2; round++ {
		if round == 0 {
			p.Kill()
		} else if err := p.StopGraceful(); err != nil {
			return res, evid.Failf("stop-failed", "%v", err)
		}
		q, err := harness.OpenProcAsync(dir, opts, c.Fsync, true)
		if err != nil {
			return res, evid.Failf("no-start", "with a failed async search on disk: %v", err)
		}
		p, *pp = q, q
		if err := poll(fmt.Sprintf("after restart %d", round+1)); err != nil {
			return res, err
		}
		res.Evals++
	}
	return res, nil
}

func TestProp(t *testing.T)   { evid.Check(t, genCase, runCase) }
func TestReplay(t *testing.T) { evid.Replay(t, runCase) }
