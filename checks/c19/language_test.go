package c19

// Recorded finding "query-language" (known_findings.json): an asynchronous search is always
// parsed as SeqQL (fracmanager/async_searcher.go), a synchronous one by the legacy parser
// unless the request or --use-seq-ql-by-default says otherwise (the default is the legacy
// language), and the async request carries no language.  The same query text is then read by
// two grammars: with single quotes the legacy language takes the quotes for part of the value.
// Not part of the campaigns (everything else in C19 uses SeqQL on both sides, as the property's
// "same query" needs); the replay file shows the finding, the generator is kept for exploring it.

import (
	"context"
	"fmt"
	"testing"
	"time"

	"pgregory.net/rapid"

	"github.com/ozontech/seq-db/proxy/search"
	"github.com/ozontech/seq-db/seq"

	"verif/internal/evid"
	"verif/internal/harness"
	"verif/internal/model"
)

type LanguageCase struct {
	Value string `json:"value"` // keyword value; documents carry it bare and wrapped in single quotes
	Quote string `json:"quote"` // quote character used in the query
}

func genLanguage(t *rapid.T) LanguageCase {
	return LanguageCase{Value: rapid.StringMatching(`[a-z]{1,4}`).Draw(t, "value"), Quote: rapid.SampledFrom([]string{"'", "`"}).Draw(t, "quote")}
}

func runLanguage(c LanguageCase) (evid.Result, error) {
	res := evid.Result{NonTrivial: true}
	cl, err := harness.NewCluster(evid.ScratchDir("c19l"), 1, 1, harness.StoreOpts{}, nil, false) // false: no use-seq-ql header, the default
	if err != nil {
		return res, err
	}
	defer cl.Close()
	mk := func(rid uint64, v string) model.Doc {
		return model.Doc{ID: model.ID{MID: 1_700_000_000_000, RID: rid}, Body: []byte(fmt.Sprintf(`{"svc":%q}`, v)),
			Toks: []model.Tok{{F: "_all_", V: ""}, {F: "_exists_", V: "svc"}, {F: "svc", V: v}}}
	}
	if err := cl.Stores[0][0].Bulk([]model.Doc{mk(1, c.Value), mk(2, c.Quote+c.Value+c.Quote)}); err != nil {
		return res, err
	}
	cl.Stores[0][0].WaitIdle()
	text := "svc:" + c.Quote + c.Value + c.Quote
	r := model.SearchReq{From: 0, To: 1 << 41, Limit: 10}
	sq, _, err := cl.ProxySearch(text, &r, 0, 10, nil, false)
	if err != nil {
		return res, evid.Failf("proxy-search-error", "%q: %v", text, err)
	}
	ctx := context.Background()
	start, err := cl.Ing.StartAsyncSearch(ctx, search.AsyncRequest{Query: text, From: time.UnixMilli(0), To: time.UnixMilli(1 << 41), Order: seq.DocsOrderDesc})
	if err != nil {
		return res, evid.Failf("startasync-error", "%q: %v", text, err)
	}
	deadline := time.Now().Add(30 * time.Second)
	var fr search.FetchAsyncSearchResultResponse
	for {
		if fr, err = cl.Ing.FetchAsyncSearchResult(ctx, search.FetchAsyncSearchResultRequest{ID: start.ID, Size: 10}); err != nil {
			return res, evid.Failf("fetchasync-error", "%q: %v", text, err)
		}
		if fr.Done {
			break
		}
		if time.Now().After(deadline) {
			return res, evid.Failf("async-never-done", "%q", text)
		}
		time.Sleep(time.Millisecond)
	}
	if s, a := harness.FromSeqIDs(sq.IDs), harness.FromSeqIDs(fr.QPR.IDs); !model.EqualIDs(s, a) {
		return res, evid.Failf("async-differs-from-sync:query-language", "query %q with the store's default language settings: the synchronous search returns %v, the finished asynchronous search %v (documents: rid 1 svc=%s, rid 2 svc=%s)", text, s, a, c.Value, c.Quote+c.Value+c.Quote)
	}
	res.Evals = 1
	return res, nil
}

func TestPropLanguage(t *testing.T)   { evid.Check(t, genLanguage, runLanguage) }
func TestReplayLanguage(t *testing.T) { evid.Replay(t, runLanguage) }
