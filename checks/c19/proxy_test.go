package c19

import (
	"context"
	"fmt"
	"google.golang.org/grpc/codes"
	"google.golang.org/grpc/status"
	"math"
	"slices"
	"testing"
	"time"

	"google.golang.org/protobuf/types/known/timestamppb"
	"pgregory.net/rapid"

	"github.com/ozontech/seq-db/pkg/seqproxyapi/v1"
	"github.com/ozontech/seq-db/proxy/search"
	"github.com/ozontech/seq-db/proxyapi"
	"github.com/ozontech/seq-db/seq"

	"verif/internal/evid"
	"verif/internal/gen"
	"verif/internal/harness"
	"verif/internal/model"
)

// The same property one level up: through the proxy's StartAsyncSearch /
// FetchAsyncSearchResult over 1..3 shards (in-process cluster, no crashes), compared with
// the model and with the proxy's synchronous search of the same request.

type ProxyCase struct {
	Corpus  model.Corpus      `json:"corpus"`
	Shards  int               `json:"shards"`
	ShardOf []int             `json:"shard_of"`
	FracOf  []int             `json:"frac_of"`
	R       model.SearchReq   `json:"r"`
	Style   model.RenderStyle `json:"style"`
	Aggs    []model.AggSpec   `json:"aggs,omitempty"`
	// Page: a second fetch of the finished search asks for Size ids from Offset on, as a
	// synchronous search with these paging parameters would return them
	PageOffset int `json:"page_offset,omitempty"`
	PageSize   int `json:"page_size,omitempty"`
	// NaNQuantile: the search is started through the proxy's gRPC StartAsyncSearch handler with a
	// quantile aggregation whose argument list holds NaN (a legal double on the wire, "NaN" in the
	// JSON gateway).  Not a number between 0 and 1: the request has to be refused, and no store
	// may die of it.
	NaNQuantile bool `json:"nan_quantile,omitempty"`
	// BadUTF8: three more documents (built at run time: case files are JSON) whose svc values
	// are not valid UTF-8 - "a\xff" once, "a\xfe" twice - and a count by svc as the only
	// aggregation.  Keyword tokens keep their bytes; the finished asynchronous search has to
	// report the same groups as the synchronous one.
	BadUTF8 bool `json:"bad_utf8,omitempty"`
	// Replicas per shard (0 = 1); every replica holds the shard's documents.
	Replicas int `json:"replicas,omitempty"`
	// RefuseStart: bit shard*4+replica set = that replica answers Unavailable while the search is
	// started (and works again afterwards).  When a shard has no replica left that took the
	// request, the start must not hand out a search id whose result is then presented as done
	// without that shard: whatever StartAsyncSearch answers, a finished result holds every
	// matching document.
	RefuseStart uint32 `json:"refuse_start,omitempty"`
	// ViaHandler: the search is started through the proxy's gRPC StartAsyncSearch handler
	// (proxyapi/grpc_async_search.go), which converts the request, instead of the ingestor below it
	ViaHandler bool `json:"via_handler,omitempty"`
	// Future: that many more documents (built at run time) carry a time 1..3 hours ahead of the
	// wall clock - legal for a store, whose clock the proxy's need not match - and the request
	// range reaches to 2039.  They exist when the search is started: they belong to its result.
	Future int `json:"future,omitempty"`
}

var protoAggFunc = map[string]seqproxyapi.AggFunc{
	"count": seqproxyapi.AggFunc_AGG_FUNC_COUNT, "sum": seqproxyapi.AggFunc_AGG_FUNC_SUM, "min": seqproxyapi.AggFunc_AGG_FUNC_MIN,
	"max": seqproxyapi.AggFunc_AGG_FUNC_MAX, "avg": seqproxyapi.AggFunc_AGG_FUNC_AVG, "quantile": seqproxyapi.AggFunc_AGG_FUNC_QUANTILE,
	"unique": seqproxyapi.AggFunc_AGG_FUNC_UNIQUE,
}

func genProxy(t *rapid.T) ProxyCase {
	var c ProxyCase
	c.Corpus = gen.Corpus(t, gen.CorpusOpts{MinDocs: 1, MaxDocs: 50})
	c.Shards = rapid.IntRange(1, 3).Draw(t, "shards")
	for range c.Corpus {
		c.ShardOf = append(c.ShardOf, rapid.IntRange(0, c.Shards-1).Draw(t, "shard"))
		c.FracOf = append(c.FracOf, rapid.IntRange(0, 1).Draw(t, "frac"))
	}
	c.R = gen.SearchReq(t, c.Corpus, 3)
	if rapid.Bool().Draw(t, "matchall") {
		c.R.Q = model.All()
	}
	c.R.WithTotal = false
	c.R.Limit = 1 << 20
	c.Style = gen.Style(t)
	c.Aggs = gen.AggSpecs(t, 2)
	c.NaNQuantile = rapid.IntRange(0, 19).Draw(t, "nanquantile") == 19
	c.BadUTF8 = !c.NaNQuantile && rapid.IntRange(0, 9).Draw(t, "badutf8") == 9
	if rapid.IntRange(0, 2).Draw(t, "tworeplicas") == 2 {
		c.Replicas = 2
	}
	if !c.NaNQuantile && rapid.IntRange(0, 3).Draw(t, "refuse") == 3 {
		reps := max(1, c.Replicas)
		if rapid.Bool().Draw(t, "wholeshard") {
			s := rapid.IntRange(0, c.Shards-1).Draw(t, "refshard")
			for r := 0; r < reps; r++ {
				c.RefuseStart |= 1 << (s*4 + r)
			}
		} else {
			for s := 0; s < c.Shards; s++ {
				for r := 0; r < reps; r++ {
					if rapid.IntRange(0, 2).Draw(t, "refbit") == 2 {
						c.RefuseStart |= 1 << (s*4 + r)
					}
				}
			}
		}
	}
	c.PageOffset = rapid.IntRange(0, len(c.Corpus)+1).Draw(t, "pageoffset")
	c.PageSize = rapid.IntRange(0, len(c.Corpus)+1).Draw(t, "pagesize")
	if rapid.IntRange(0, 3).Draw(t, "hugepage") == 3 {
		// a client that wants "everything from the offset on"
		c.PageSize = rapid.SampledFrom([]int{math.MaxInt32, math.MaxInt32 - 1, 1 << 30, math.MaxInt32 - len(c.Corpus)}).Draw(t, "hugesize")
	}
	c.ViaHandler = !c.NaNQuantile && rapid.IntRange(0, 2).Draw(t, "viahandler") == 2
	if !c.NaNQuantile && !c.BadUTF8 && rapid.IntRange(0, 4).Draw(t, "future") == 4 {
		c.Future = rapid.IntRange(1, 4).Draw(t, "nfuture")
	}
	return c
}

func runProxy(c ProxyCase) (evid.Result, error) {
	res := evid.Result{}
	if c.BadUTF8 {
		at := c.Corpus[0].ID.MID
		c.Corpus = append(model.Corpus{}, c.Corpus...)
		for i, v := range []string{"a\xff", "a\xfe", "a\xfe"} {
			c.Corpus = append(c.Corpus, model.Doc{ID: model.ID{MID: at, RID: 1<<59 + uint64(i)}, Body: []byte(fmt.Sprintf(`{"i":%d}`, i)),
				Toks: []model.Tok{{F: "_all_", V: ""}, {F: "_exists_", V: "svc"}, {F: "svc", V: v}}})
			c.ShardOf = append(append([]int{}, c.ShardOf...), 0)
			c.FracOf = append(append([]int{}, c.FracOf...), i%2)
		}
		c.R.Q, c.R.From, c.R.To = model.All(), 0, 1<<41
		c.Aggs = []model.AggSpec{{Func: "count", GroupBy: "svc"}}
		res.Labels = append(res.Labels, "group-values-with-invalid-utf8")
	}
	if c.Future > 0 {
		c.Corpus = append(model.Corpus{}, c.Corpus...)
		now := uint64(time.Now().UnixMilli())
		for i := 0; i < c.Future; i++ {
			c.Corpus = append(c.Corpus, model.Doc{ID: model.ID{MID: now + 3_600_000*uint64(1+i%3) + uint64(i), RID: 1<<58 + uint64(i)}, Body: []byte(fmt.Sprintf(`{"f":%d}`, i)),
				Toks: []model.Tok{{F: "_all_", V: ""}, {F: "_exists_", V: "svc"}, {F: "svc", V: "a"}}})
			c.ShardOf = append(append([]int{}, c.ShardOf...), i%c.Shards)
			c.FracOf = append(append([]int{}, c.FracOf...), i%2)
		}
		c.R.From, c.R.To = 0, 1<<41
		res.Labels = append(res.Labels, "documents-stamped-ahead-of-the-clock")
	}
	reps := max(1, c.Replicas)
	cl, err := harness.NewCluster(evid.ScratchDir("c19p"), c.Shards, reps, harness.StoreOpts{}, nil, true)
	if err != nil {
		return res, err
	}
	defer cl.Close()
	for s := 0; s < c.Shards; s++ {
		for f := 0; f < 2; f++ {
			var part model.Corpus
			for i, d := range c.Corpus {
				if c.ShardOf[i] == s && c.FracOf[i] == f {
					part = append(part, d)
				}
			}
			if len(part) == 0 {
				continue
			}
			for r := 0; r < reps; r++ {
				if err := cl.Stores[s][r].Bulk(part); err != nil {
					return res, err
				}
				cl.Stores[s][r].WaitIdle()
				if f == 0 {
					cl.Stores[s][r].Seal()
				}
			}
		}
	}
	text := model.RenderSeqQL(c.R.Q, c.Style)
	order := seq.DocsOrderDesc
	if c.R.Asc {
		order = seq.DocsOrderAsc
	}
	ar := search.AsyncRequest{
		Query: text, From: time.UnixMilli(int64(c.R.From)), To: time.UnixMilli(int64(c.R.To)), Order: order,
		HistogramInterval: seq.MID(c.R.Interval),
	}
	for _, a := range c.Aggs {
		ar.Aggregations = append(ar.Aggregations, search.AggQuery{Field: a.Field, GroupBy: a.GroupBy, Func: harness.AggFuncOf(a), Quantiles: a.Quantiles, Interval: seq.MID(a.Interval)})
	}
	ctx := context.Background()
	if c.NaNQuantile {
		api := proxyapi.VerifNewGrpcV1(proxyapi.APIConfig{SearchTimeout: time.Minute, ExportTimeout: time.Minute}, cl.Ing, nil, nil)
		_, err := api.StartAsyncSearch(ctx, &seqproxyapi.StartAsyncSearchRequest{
			Query: &seqproxyapi.SearchQuery{Query: text, From: timestamppb.New(time.UnixMilli(int64(min(c.R.From, 1<<41)))), To: timestamppb.New(time.UnixMilli(int64(min(c.R.To, 1<<41))))},
			Aggs:  []*seqproxyapi.AggQuery{{Func: seqproxyapi.AggFunc_AGG_FUNC_QUANTILE, Field: "dur", Quantiles: []float64{0.5, math.NaN()}}},
		})
		res.Labels = append(res.Labels, "nan-quantile")
		res.NonTrivial = true
		if err == nil {
			return res, evid.Failf("nan-quantile-accepted", "StartAsyncSearch accepted the quantile list [0.5, NaN]")
		}
		// the stores must still answer
		if _, _, serr := cl.ProxySearch("*", &model.SearchReq{Q: model.All(), From: 0, To: 1 << 41, Limit: 10}, 0, 10, nil, false); serr != nil {
			return res, evid.Failf("store-unusable-after-nan-quantile", "%v", serr)
		}
		return res, nil
	}
	shardLeft := make([]bool, c.Shards) // has a replica that takes the request
	for s := 0; s < c.Shards; s++ {
		for r := 0; r < reps; r++ {
			if c.RefuseStart&(1<<(s*4+r)) != 0 {
				cl.Clients[s][r].RefuseStart = status.Error(codes.Unavailable, "scripted: replica unreachable while the search is started")
			} else {
				shardLeft[s] = true
			}
		}
	}
	var start search.AsyncResponse
	if c.ViaHandler {
		api := proxyapi.VerifNewGrpcV1(proxyapi.APIConfig{SearchTimeout: time.Minute, ExportTimeout: time.Minute}, cl.Ing, nil, nil)
		req := &seqproxyapi.StartAsyncSearchRequest{
			Query: &seqproxyapi.SearchQuery{Query: text, From: timestamppb.New(time.UnixMilli(int64(min(c.R.From, 1<<41)))), To: timestamppb.New(time.UnixMilli(int64(min(c.R.To, 1<<41))))},
			Order: seqproxyapi.Order_ORDER_DESC,
		}
		if c.R.Asc {
			req.Order = seqproxyapi.Order_ORDER_ASC
		}
		if c.R.Interval > 0 {
			req.Hist = &seqproxyapi.HistQuery{Interval: fmt.Sprintf("%dms", c.R.Interval)}
		}
		for _, a := range c.Aggs {
			q := &seqproxyapi.AggQuery{Field: a.Field, GroupBy: a.GroupBy, Func: protoAggFunc[a.Func], Quantiles: a.Quantiles}
			if a.Interval > 0 {
				iv := fmt.Sprintf("%dms", a.Interval)
				q.Interval = &iv
			}
			req.Aggs = append(req.Aggs, q)
		}
		var hr *seqproxyapi.StartAsyncSearchResponse
		hr, err = api.StartAsyncSearch(ctx, req)
		if err == nil {
			start.ID = hr.SearchId
		}
		res.Labels = append(res.Labels, "started-through-the-grpc-handler")
	} else {
		start, err = cl.Ing.StartAsyncSearch(ctx, ar)
	}
	for s := range cl.Clients {
		for r := range cl.Clients[s] {
			cl.Clients[s][r].RefuseStart = nil
		}
	}
	if c.RefuseStart != 0 {
		res.Labels = append(res.Labels, "replicas-unreachable-at-the-start")
	}
	if err != nil {
		if !slices.Contains(shardLeft, false) {
			return res, evid.Failf("startasync-error", "%q: %v (every shard had a replica that takes the request)", text, err)
		}
		// a shard without a reachable replica: the start is refused, nothing to fetch
		res.Labels = append(res.Labels, "start-refused:a-shard-is-unreachable")
		res.NonTrivial = true
		// the shards asked before the unreachable one are running the search: let them finish
		for s := range cl.Stores {
			for r := range cl.Stores[s] {
				if err := cl.Stores[s][r].WaitAsyncIdle(30 * time.Second); err != nil {
					return res, evid.Failf("async-never-done", "after a refused start: %v", err)
				}
			}
		}
		return res, nil
	}
	deadline := time.Now().Add(30 * time.Second)
	var fr search.FetchAsyncSearchResultResponse
	for {
		fr, err = cl.Ing.FetchAsyncSearchResult(ctx, search.FetchAsyncSearchResultRequest{ID: start.ID, Size: c.R.Limit})
		if err != nil {
			return res, evid.Failf("fetchasync-error", "%q: %v", text, err)
		}
		if fr.Done {
			break
		}
		if time.Now().After(deadline) {
			return res, evid.Failf("async-never-done", "%q not done after 30 s", text)
		}
		time.Sleep(time.Millisecond)
	}
	want := model.Search(c.Corpus, &c.R)
	got := harness.FromSeqIDs(fr.QPR.IDs)
	if !model.EqualIDs(got, want.IDs) {
		return res, evid.Failf("ids-differ", "[proxy async] %q: got %v want %v", text, head(got), head(want.IDs))
	}
	if c.PageSize > 0 {
		pg, err := cl.Ing.FetchAsyncSearchResult(ctx, search.FetchAsyncSearchResultRequest{ID: start.ID, Size: c.PageSize, Offset: c.PageOffset})
		if err != nil {
			return res, evid.Failf("fetchasync-error", "%q page: %v", text, err)
		}
		lo, hi := min(c.PageOffset, len(want.IDs)), min(c.PageOffset+c.PageSize, len(want.IDs))
		if got := harness.FromSeqIDs(pg.QPR.IDs); !model.EqualIDs(got, want.IDs[lo:hi]) {
			return res, evid.Failf("page-differs", "[proxy async] %q: fetch with offset %d size %d of %d ids: got %v want %v", text, c.PageOffset, c.PageSize, len(want.IDs), head(got), head(want.IDs[lo:hi]))
		}
		if c.PageOffset > 0 {
			res.Labels = append(res.Labels, "page-offset>0")
		}
	}
	// the same fetch through the proxy's public gRPC handler (proxyapi/grpc_async_search.go)
	if n := min(len(want.IDs), 7); n > 0 {
		api := proxyapi.VerifNewGrpcV1(proxyapi.APIConfig{SearchTimeout: time.Minute, ExportTimeout: time.Minute}, cl.Ing, nil, nil)
		var hr *seqproxyapi.FetchAsyncSearchResultResponse
		var herr error
		func() {
			defer func() {
				if p := recover(); p != nil {
					herr = evid.Failf("handler-panic", "[proxy API] FetchAsyncSearchResult of a finished search with %d ids, size %d: panic: %v", len(want.IDs), n, p)
				}
			}()
			hr, herr = api.FetchAsyncSearchResult(ctx, &seqproxyapi.FetchAsyncSearchResultRequest{SearchId: start.ID, Size: int32(n)})
		}()
		if herr != nil {
			if _, isFail := herr.(*evid.Failure); isFail {
				return res, herr
			}
			return res, evid.Failf("fetchasync-error", "[proxy API] %q: %v", text, herr)
		}
		var got []model.ID
		for _, d := range hr.GetResponse().GetDocs() {
			id, err := seq.FromString(d.Id)
			if err != nil {
				return res, evid.Failf("bad-id", "[proxy API] %q", d.Id)
			}
			got = append(got, model.ID{MID: uint64(id.MID), RID: uint64(id.RID)})
		}
		if !model.EqualIDs(got, want.IDs[:n]) {
			return res, evid.Failf("ids-differ", "[proxy API] %q size %d: got %v want %v", text, n, head(got), head(want.IDs[:n]))
		}
		res.Labels = append(res.Labels, "fetched-through-the-grpc-handler")
	}
	if c.R.Interval > 0 && !harness.EqualHist(harness.HistOf(&fr.QPR), want.Hist) {
		return res, evid.Failf("hist-differs", "[proxy async] %q: got %s want %s", text, harness.FmtHist(harness.HistOf(&fr.QPR)), harness.FmtHist(want.Hist))
	}
	matching := model.Matching(c.Corpus.Dedup(), &c.R)
	// the synchronous answer of the same proxy, for the "equals the synchronous one" half
	sq, _, err := cl.ProxySearch(text, &c.R, 0, c.R.Limit, c.Aggs, false)
	if err != nil {
		return res, evid.Failf("proxy-search-error", "%q: %v", text, err)
	}
	syncAggs := sq.Aggregate(harness.AggArgs(c.Aggs))
	for i, spec := range c.Aggs {
		w, err := model.Agg(matching, spec)
		if err != nil {
			return res, err
		}
		if i >= len(fr.AggResult) {
			return res, evid.Failf("aggs-missing", "[proxy async] %q: %d results for %d aggregations", text, len(fr.AggResult), len(c.Aggs))
		}
		if err := harness.CompareAgg(syncAggs[i], w, spec); err != nil {
			return res, evid.Failf("agg-differs", "[proxy sync] %q agg %+v: %v", text, spec, err)
		}
		if err := harness.CompareAgg(fr.AggResult[i], w, spec); err != nil {
			return res, evid.Failf("async-agg-differs-from-sync", "[proxy async] %q agg %+v: %v (the synchronous search of the same request agrees with the model)", text, spec, err)
		}
	}
	res.Evals = 2
	res.NonTrivial = c.Shards >= 2 && len(want.IDs) > 0
	res.Labels = append(res.Labels, fmt.Sprintf("shards=%d", c.Shards))
	for _, a := range c.Aggs {
		if a.Interval > 0 {
			res.Labels = append(res.Labels, "agg-interval")
		}
	}
	return res, nil
}

func TestPropProxy(t *testing.T)   { evid.Check(t, genProxy, runProxy) }
func TestReplayProxy(t *testing.T) { evid.Replay(t, runProxy) }
