package c08

// Family 3: sealings that overlap in one store.  The maintenance loop starts the sealing
// of a rotated fraction in its own goroutine, so under sustained ingest the sealing of
// fraction N+1 runs while fraction N is still between two of its file operations.  Here
// the harness owns that schedule: at a generated verifhook point inside the sealing of
// fraction i, the same goroutine ingests fraction i+1 and seals it completely (one legal
// interleaving of the two goroutines: i is descheduled at the point, i+1 runs to the
// end), nested up to the number of fractions.  Then the store is restarted and has to
// serve every document of every fraction byte for byte.

import (
	"fmt"
	"math"
	"testing"

	"github.com/ozontech/seq-db/verifhook"
	"pgregory.net/rapid"

	"verif/internal/evid"
	"verif/internal/gen"
	"verif/internal/harness"
	"verif/internal/model"
)

type hookAt struct {
	Point string `json:"point"`
	Arg   string `json:"arg,omitempty"`
}

type OverlapCase struct {
	Parts        []model.Corpus `json:"parts"`
	At           []hookAt       `json:"at"` // At[i]: where inside the sealing of part i part i+1 is ingested and sealed
	SkipSortDocs bool           `json:"skip_sort_docs,omitempty"`
	KeepMetaFile bool           `json:"keep_meta_file,omitempty"`
}

var overlapPoints = []hookAt{
	{Point: "seal.section", Arg: "info"}, {Point: "seal.sdocs_renamed"}, {Point: "seal.sdocs_written"},
	{Point: "seal.sdocs_tmp_created"}, {Point: "seal.index_tmp_created"}, {Point: "seal.section", Arg: "tokens"},
	{Point: "seal.section", Arg: "token_table"}, {Point: "seal.section", Arg: "positions"}, {Point: "seal.section", Arg: "ids"},
	{Point: "seal.section", Arg: "lids"}, {Point: "seal.index_written"}, {Point: "seal.index_renamed"},
	{Point: "seal.dir_synced"}, {Point: "pfrac.seal.before_release"}, {Point: "pfrac.seal.released"},
}

func genOverlap(t *rapid.T) OverlapCase {
	var c OverlapCase
	k := rapid.IntRange(2, 4).Draw(t, "fractions")
	all := gen.Corpus(t, gen.CorpusOpts{MinDocs: k, MaxDocs: 60})
	c.Parts = make([]model.Corpus, k)
	for i, d := range all {
		p := i
		if i >= k { // every part gets at least one document
			p = rapid.IntRange(0, k-1).Draw(t, "part")
		}
		c.Parts[p] = append(c.Parts[p], d)
	}
	for i := 0; i < k-1; i++ {
		c.At = append(c.At, rapid.SampledFrom(overlapPoints).Draw(t, "at"))
	}
	c.SkipSortDocs = rapid.IntRange(0, 3).Draw(t, "skipsort") == 3
	c.KeepMetaFile = rapid.IntRange(0, 3).Draw(t, "keepmeta") == 3
	return c
}

func runOverlap(c OverlapCase) (res evid.Result, err error) {
	dir := evid.ScratchDir("c08o")
	opts := harness.StoreOpts{NoMaintLoop: true, SkipSortDocs: c.SkipSortDocs, KeepMetaFile: c.KeepMetaFile}
	st, err := harness.OpenStore(dir, opts)
	if err != nil {
		return res, err
	}
	defer func() { verifhook.Set(nil); st.Close() }()

	depth, reached := 0, 0
	var inner error
	ingestAndSeal := func(i int) {
		if e := st.Bulk(c.Parts[i]); e != nil && inner == nil {
			inner = evid.Failf("bulk-error", "part %d: %v", i, e)
			return
		}
		st.Seal()
	}
	verifhook.Set(func(name string, args ...string) {
		if depth >= len(c.At) || inner != nil {
			return
		}
		at := c.At[depth]
		if name != at.Point || (at.Arg != "" && (len(args) == 0 || args[0] != at.Arg)) {
			return
		}
		depth++
		reached++
		ingestAndSeal(depth)
	})
	ingestAndSeal(0)
	verifhook.Set(nil)
	if inner != nil {
		return res, inner
	}
	// points that a configuration does not pass (sorted-docs steps with SkipSortDocs):
	// the remaining parts are sealed one after the other
	for depth+1 < len(c.Parts) {
		depth++
		ingestAndSeal(depth)
	}
	res.Labels = append(res.Labels, fmt.Sprintf("nested-seals=%d", reached))
	for i := 0; i < reached; i++ {
		res.Labels = append(res.Labels, "at:"+c.At[i].Point+c.At[i].Arg)
	}
	res.NonTrivial = reached > 0

	st2, err := st.Restart(nil)
	if err != nil {
		return res, evid.Failf("restart-failed", "%v", err)
	}
	st = st2
	var all model.Corpus
	for _, p := range c.Parts {
		all = append(all, p...)
	}
	rq := model.SearchReq{Q: model.All(), From: 0, To: math.MaxInt64, Limit: len(all) + 10, WithTotal: true}
	want := model.Search(all, &rq)
	qpr, err := st.Search(&rq, "*", nil)
	if err != nil {
		return res, evid.Failf("search-error", "after overlapping seals and a restart: %v", err)
	}
	if got := harness.FromSeqIDs(qpr.IDs); !model.EqualIDs(got, want.IDs) {
		return res, evid.Failf("doc-lost", "after overlapping seals and a restart `*` returns %d ids, want %d: got %v want %v", len(got), len(want.IDs), got, want.IDs)
	}
	bodies, err := st.Fetch(harness.ToSeqIDs(want.IDs))
	if err != nil {
		return res, evid.Failf("fetch-error", "after overlapping seals and a restart: %v", err)
	}
	idx := all.Index()
	for i, id := range want.IDs {
		if !model.EqualBytes(bodies[i], idx[id].Body) {
			return res, evid.Failf("fetch-differs", "after overlapping seals and a restart id %v fetches %d bytes %.60q, want %d bytes %.60q", id, len(bodies[i]), bodies[i], len(idx[id].Body), idx[id].Body)
		}
		res.Evals++
	}
	return res, nil
}

func TestPropOverlap(t *testing.T)   { evid.Check(t, genOverlap, runOverlap) }
func TestReplayOverlap(t *testing.T) { evid.Replay(t, runOverlap) }
