// C08: sealing is all-or-nothing under crashes and I/O errors.
//
//	TestPropCrash      crash points between the file operations of Seal / Active.Release in a
//	                   child store (verifhook) x torn temp files, and persistent write failure
//	                   at byte L (RLIMIT_FSIZE, EFBIG); then restart, full comparison with the
//	                   model, re-seal, restart again.
//	TestPropWriteFault every single Seek/Write of the index output failing (k = 1..all) while
//	                   later operations succeed again: the sealing routine must report an error.
package c08

import (
	"errors"
	"fmt"
	"io"
	"os"
	"path/filepath"
	"strings"
	"sync"
	"testing"

	"github.com/prometheus/client_golang/prometheus"
	"pgregory.net/rapid"

	"github.com/ozontech/seq-db/cache"
	"github.com/ozontech/seq-db/disk"
	"github.com/ozontech/seq-db/frac"

	"verif/internal/evid"
	"verif/internal/gen"
	"verif/internal/harness"
	"verif/internal/model"
)

// ---------------------------------------------------------------- family 1 + 3: child process

type Point struct {
	Name string `json:"name"`
	Arg  string `json:"arg,omitempty"`
}

var sealPoints = []Point{
	{Name: "seal.index_tmp_created"},
	{Name: "seal.sdocs_tmp_created"},
	{Name: "seal.sdocs_written"},
	{Name: "seal.tmp_synced", Arg: ".sdocs"},
	{Name: "seal.sdocs_renamed"},
	{Name: "seal.section", Arg: "info"},
	{Name: "seal.section", Arg: "tokens"},
	{Name: "seal.section", Arg: "token_table"},
	{Name: "seal.section", Arg: "positions"},
	{Name: "seal.section", Arg: "ids"},
	{Name: "seal.section", Arg: "lids"},
	{Name: "seal.index_written"},
	{Name: "seal.tmp_synced", Arg: ".index"},
	{Name: "seal.index_renamed"},
	{Name: "seal.dir_synced"},
	{Name: "pfrac.seal.before_release"},
	{Name: "active.release.meta_removed"},
	{Name: "active.release.docs_removed"},
	{Name: "pfrac.seal.released"},
}

type CrashCase struct {
	Corpus model.Corpus      `json:"corpus,omitempty"`
	Synth  gen.Synth         `json:"synth"`
	Bulk   int               `json:"bulk"`
	Opts   harness.StoreOpts `json:"opts"`
	Fsync  bool              `json:"fsync"`
	// fault: either a crash point (+ torn temp file) or a file size limit
	Mode          string `json:"mode"` // crash | fsize
	Point         Point  `json:"point"`
	TornPermille  int    `json:"torn_permille"`  // temp file cut to this share (1000 = untouched)
	LimitPermille int    `json:"limit_permille"` // fsize: limit = docs file size * this / 1000
	Rounds        int    `json:"rounds"`         // faulty seal attempts before the clean one
	// Flip: after the first faulty round the operator restarts the store with the sorted-docs
	// rewriting switched the other way (e.g. off, to save the space the sort needs) and leaves it so
	Flip bool `json:"flip,omitempty"`
	// Point2: crash point of the second faulty round when it differs from the first
	Point2 *Point `json:"point2,omitempty"`
	// More: the last More documents of the corpus arrive only after the restart that follows the
	// first faulty round (the fraction whose sealing was interrupted is active again and keeps
	// receiving data, or a new fraction does when the index had been published already)
	More int `json:"more,omitempty"`
}

func genCrash(t *rapid.T) CrashCase {
	var c CrashCase
	if rapid.IntRange(0, 7).Draw(t, "big") == 7 {
		c.Synth = gen.Synth{N: rapid.IntRange(4000, 9000).Draw(t, "n"), PerMID: 3, UniqLen: rapid.SampledFrom([]int{0, 40}).Draw(t, "ulen"), Big: true}
	} else {
		c.Corpus = gen.Corpus(t, gen.CorpusOpts{MinDocs: 1, MaxDocs: 60, BodyMax: 600})
	}
	c.Bulk = rapid.SampledFrom([]int{1 << 20, 7, 500}).Draw(t, "bulk")
	c.Opts = harness.StoreOpts{SkipSortDocs: rapid.Bool().Draw(t, "skipsort"), KeepMetaFile: rapid.IntRange(0, 3).Draw(t, "keepmeta") == 3, DocBlockSize: rapid.SampledFrom([]int{0, 256}).Draw(t, "docblock")}
	c.Fsync = rapid.IntRange(0, 3).Draw(t, "fsync") == 3
	c.Rounds = rapid.IntRange(1, 2).Draw(t, "rounds")
	c.Flip = rapid.IntRange(0, 3).Draw(t, "flip") == 3
	if rapid.IntRange(0, 3).Draw(t, "mode") == 3 {
		c.Mode = "fsize"
		c.LimitPermille = rapid.IntRange(1, 3000).Draw(t, "limit")
	} else {
		c.Mode = "crash"
		c.Point = rapid.SampledFrom(sealPoints).Draw(t, "point")
		if c.Rounds == 2 && rapid.Bool().Draw(t, "otherpoint") {
			p2 := rapid.SampledFrom(sealPoints).Draw(t, "point2")
			c.Point2 = &p2
		}
		c.TornPermille = rapid.SampledFrom([]int{1000, 0, 1, 500, 999, 250}).Draw(t, "torn")
		if c.TornPermille == 250 {
			c.TornPermille = rapid.IntRange(1, 999).Draw(t, "tornpm")
		}
	}
	if rapid.IntRange(0, 2).Draw(t, "latecomers") == 2 {
		c.More = rapid.IntRange(1, 20).Draw(t, "more")
	}
	return c
}

func (c *CrashCase) docs() model.Corpus {
	return append(append(model.Corpus{}, c.Corpus...), c.Synth.Docs()...)
}

func vfail(step string, err error) error {
	var ve *harness.VerifyErr
	if errors.As(err, &ve) {
		return evid.Failf(ve.Kind, "%s: %s", step, ve.Msg)
	}
	return err
}

func runCrash(c CrashCase) (evid.Result, error) {
	res := evid.Result{Labels: []string{"mode:" + c.Mode}}
	all := c.docs()
	docs := all[:len(all)-max(0, min(c.More, len(all)-1))]
	dir := evid.ScratchDir("c08")
	defer os.RemoveAll(dir)
	var p *harness.Proc
	defer func() {
		if p != nil {
			p.Kill()
		}
	}()
	open := func(step string) error {
		var err error
		p, err = harness.OpenProc(dir, c.Opts, c.Fsync)
		if err != nil {
			return evid.Failf("no-start", "%s: %v", step, err)
		}
		n, err := harness.VerifyServed(p, docs, nil)
		res.Evals += n
		if err != nil {
			return vfail(step, err)
		}
		return nil
	}
	p, err := harness.OpenProc(dir, c.Opts, c.Fsync)
	if err != nil {
		return res, evid.Failf("no-start", "initial: %v", err)
	}
	b := max(1, c.Bulk)
	for pos := 0; pos < len(docs); pos += b {
		r, err := p.Do(harness.PCmd{Op: "bulk", Docs: docs[pos:min(len(docs), pos+b)], Wait: true})
		if err != nil || !r.OK {
			return res, fmt.Errorf("ingest failed: %v %+v", err, r)
		}
	}
	ingestRest := func() error {
		if len(docs) == len(all) {
			return nil
		}
		r, err := p.Do(harness.PCmd{Op: "bulk", Docs: all[len(docs):], Wait: true})
		if err != nil || !r.OK {
			return evid.Failf("ingest-after-fault", "bulk after the restart that followed the interrupted sealing: %v %+v exit %d %s", err, r, p.Exit, p.StderrTail())
		}
		docs = all
		res.Labels = append(res.Labels, "documents-arrive-after-the-interrupted-sealing")
		n, err := harness.VerifyServed(p, docs, nil)
		res.Evals += n
		if err != nil {
			return vfail("after the late bulk", err)
		}
		return nil
	}
	faultLanded := false
	for round := 0; round < c.Rounds; round++ {
		before, err := p.Do(harness.PCmd{Op: "files", Dir: dir})
		if err != nil {
			return res, evid.Failf("died-idle", "exit %d %s", p.Exit, p.StderrTail())
		}
		switch c.Mode {
		case "crash":
			pt := c.Point
			if round > 0 && c.Point2 != nil {
				pt = *c.Point2
			}
			if _, err := p.Do(harness.PCmd{Op: "arm", Point: pt.Name, Arg: pt.Arg, N: 1}); err != nil {
				return res, err
			}
		case "fsize":
			var docsSize int64
			for name, sz := range before.Files {
				if strings.HasSuffix(name, ".docs") {
					docsSize = max(docsSize, sz)
				}
			}
			limit := max(int64(1), docsSize*int64(c.LimitPermille)/1000)
			if _, err := p.Do(harness.PCmd{Op: "rlimit", Bytes: uint64(limit)}); err != nil {
				return res, err
			}
		}
		_, err = p.Do(harness.PCmd{Op: "seal"})
		if err == nil {
			// the fault did not hit this seal (point not on this configuration's path, or the
			// size limit is above every output): an ordinary seal
			res.Labels = append(res.Labels, "fault-not-reached")
			if _, err := p.Do(harness.PCmd{Op: "rlimit", Bytes: 0}); err != nil {
				return res, err
			}
			n, err := harness.VerifyServed(p, docs, nil)
			res.Evals += n
			if err != nil {
				return res, vfail("after un-faulted seal", err)
			}
			break
		}
		if c.Mode == "crash" {
			if p.Crash == nil {
				return res, evid.Failf("died-in-seal", "seal died without reaching the armed point: exit %d %s", p.Exit, p.StderrTail())
			}
			res.Labels = append(res.Labels, "crash@"+c.Point.Name+c.Point.Arg)
			// torn temp files of a generated length
			for name, sz := range p.Crash.Files {
				if (strings.HasSuffix(name, "._index") || strings.HasSuffix(name, "._sdocs")) && c.TornPermille < 1000 && sz > 0 {
					if err := os.Truncate(filepath.Join(dir, name), sz*int64(c.TornPermille)/1000); err != nil {
						return res, err
					}
					res.Labels = append(res.Labels, "torn-temp")
					faultLanded = true
				}
			}
			// the crash leaves a file set that differs from the quiescent ones
			if fmt.Sprint(keys(p.Crash.Files)) != fmt.Sprint(keys(before.Files)) {
				faultLanded = true
			}
		} else {
			// the failed seal must have terminated the store (sealing error is fatal), and
			// must not have published an incomplete index
			res.Labels = append(res.Labels, "seal-failed-on-EFBIG")
			faultLanded = true
		}
		if c.Flip && round == 0 {
			c.Opts.SkipSortDocs = !c.Opts.SkipSortDocs
			res.Labels = append(res.Labels, "sort-docs-flag-flipped-after-the-fault")
		}
		if err := open(fmt.Sprintf("restart after fault (round %d)", round)); err != nil {
			return res, err
		}
		if round == 0 {
			if err := ingestRest(); err != nil {
				return res, err
			}
		}
	}
	// (an un-faulted first round leaves the loop early: the late documents arrive now)
	if err := ingestRest(); err != nil {
		return res, err
	}
	// a clean seal attempt must now succeed and keep everything
	if _, err := p.Do(harness.PCmd{Op: "seal"}); err != nil {
		return res, evid.Failf("reseal-died", "second seal attempt: exit %d %s", p.Exit, p.StderrTail())
	}
	n, err := harness.VerifyServed(p, docs, nil)
	res.Evals += n
	if err != nil {
		return res, vfail("after clean re-seal", err)
	}
	if err := p.StopGraceful(); err != nil {
		return res, evid.Failf("stop-failed", "%v", err)
	}
	if err := open("final restart"); err != nil {
		return res, err
	}
	if c.Flip {
		// once more: the loader decides again from the files the previous start left
		if err := p.StopGraceful(); err != nil {
			return res, evid.Failf("stop-failed", "%v", err)
		}
		if err := open("second restart after the clean seal"); err != nil {
			return res, err
		}
	}
	// nothing of the seal's scratch files may survive a clean seal + restart
	fl, err := p.Do(harness.PCmd{Op: "files", Dir: dir})
	if err == nil {
		for name := range fl.Files {
			if strings.HasSuffix(name, ".meta") && !c.Opts.KeepMetaFile {
				// the new empty active fraction has a .meta; sealed ones must not
				base := strings.TrimSuffix(name, ".meta")
				if _, sealed := fl.Files[base+".index"]; sealed {
					return res, evid.Failf("meta-left-behind", "%s exists next to a published index", name)
				}
			}
		}
	}
	if err := p.StopGraceful(); err != nil {
		return res, evid.Failf("stop-failed", "%v", err)
	}
	p = nil
	res.NonTrivial = faultLanded
	return res, nil
}

func keys(m map[string]int64) []string {
	var out []string
	for k := range m {
		out = append(out, k)
	}
	// sorted for a stable comparison
	for i := range out {
		for j := i + 1; j < len(out); j++ {
			if out[j] < out[i] {
				out[i], out[j] = out[j], out[i]
			}
		}
	}
	return out
}

// TestEnumPairs: every ordered pair of crash points for two consecutive interrupted sealings, for both
// settings of the sorted-docs rewriting, with and without the flag being switched between the two
// attempts, documents arriving in between (small fixed corpus, several doc blocks).
func TestEnumPairs(t *testing.T) {
	evid.Enum(t, func(yield func(CrashCase) bool) {
		for _, skip := range []bool{false, true} {
			for _, flip := range []bool{false, true} {
				for _, p1 := range sealPoints {
					for _, p2 := range sealPoints {
						p2 := p2
						c := CrashCase{Synth: gen.Synth{N: 30, PerMID: 3}, Bulk: 11, Mode: "crash", Rounds: 2, Flip: flip,
							Point: p1, Point2: &p2, TornPermille: 500, More: 8,
							Opts: harness.StoreOpts{SkipSortDocs: skip, DocBlockSize: 256}}
						if !yield(c) {
							return
						}
					}
				}
			}
		}
	}, runCrash)
}

func TestPropCrash(t *testing.T)   { evid.Check(t, genCrash, runCrash) }
func TestReplayCrash(t *testing.T) { evid.Replay(t, runCrash) }

// ---------------------------------------------------------------- family 2: k-th write fails

type FaultCase struct {
	Corpus       model.Corpus `json:"corpus,omitempty"`
	Synth        gen.Synth    `json:"synth"`
	SkipSortDocs bool         `json:"skip_sort_docs"`
	Short        bool         `json:"short"` // failing Write also writes a prefix (short write)
	Step         int          `json:"step"`  // check every Step-th k (1 = all)
	Zstd         int          `json:"zstd"`
}

func genFault(t *rapid.T) FaultCase {
	var c FaultCase
	if rapid.IntRange(0, 5).Draw(t, "big") == 5 {
		c.Synth = gen.Synth{N: rapid.IntRange(4097, 10000).Draw(t, "n"), PerMID: 2, UniqLen: rapid.SampledFrom([]int{0, 30}).Draw(t, "ulen"), Big: rapid.Bool().Draw(t, "bigtok")}
		c.Step = rapid.IntRange(1, 3).Draw(t, "step")
	} else {
		c.Corpus = gen.Corpus(t, gen.CorpusOpts{MinDocs: 1, MaxDocs: 80})
		c.Step = 1
	}
	c.SkipSortDocs = rapid.Bool().Draw(t, "skipsort")
	c.Short = rapid.Bool().Draw(t, "short")
	c.Zstd = rapid.SampledFrom([]int{3, 1, -5}).Draw(t, "zstd")
	return c
}

// faultWS fails exactly one operation (Seek or Write), the k-th; all others go to an
// in-memory file.
type faultWS struct {
	buf   []byte
	pos   int64
	ops   int
	failK int
	short bool
	hit   string
}

var errInjected = errors.New("injected write fault")

func (w *faultWS) Write(p []byte) (int, error) {
	w.ops++
	if w.ops == w.failK {
		w.hit = "write"
		if w.short && len(p) > 1 {
			w.store(p[:len(p)/2])
			return len(p) / 2, errInjected
		}
		return 0, errInjected
	}
	w.store(p)
	return len(p), nil
}

func (w *faultWS) store(p []byte) {
	end := w.pos + int64(len(p))
	if end > int64(len(w.buf)) {
		w.buf = append(w.buf, make([]byte, end-int64(len(w.buf)))...)
	}
	copy(w.buf[w.pos:], p)
	w.pos = end
}

func (w *faultWS) Seek(off int64, whence int) (int64, error) {
	w.ops++
	if w.ops == w.failK {
		w.hit = "seek"
		return 0, errInjected
	}
	switch whence {
	case io.SeekStart:
		w.pos = off
	case io.SeekCurrent:
		w.pos += off
	case io.SeekEnd:
		w.pos = int64(len(w.buf)) + off
	}
	return w.pos, nil
}

var (
	once     sync.Once
	indexer  *frac.ActiveIndexer
	limiter  *disk.ReadLimiter
	bytesCtr = prometheus.NewCounter(prometheus.CounterOpts{Name: "verif_c08_bytes_read"})
)

func runFault(c FaultCase) (evid.Result, error) {
	res := evid.Result{}
	once.Do(func() {
		indexer = frac.NewActiveIndexer(4, 4)
		indexer.Start()
		limiter = disk.NewReadLimiter(4, bytesCtr)
	})
	docs := append(append(model.Corpus{}, c.Corpus...), c.Synth.Docs()...)
	dir := evid.ScratchDir("c08f")
	defer os.RemoveAll(dir)
	a := frac.NewActive(filepath.Join(dir, "seq-db-01TESTFRACTION0000000000000"), indexer, limiter,
		cache.NewCache[[]byte](nil, nil), cache.NewCache[[]byte](nil, nil), &frac.Config{SkipSortDocs: c.SkipSortDocs})
	defer a.Suicide()
	for pos := 0; pos < len(docs); pos += 1000 {
		dk, mt := harness.EncodeBulk(docs[pos:min(len(docs), pos+1000)])
		var wg sync.WaitGroup
		wg.Add(1)
		if err := a.Append(dk, mt, &wg); err != nil {
			return res, err
		}
		wg.Wait()
	}
	params := frac.SealParams{IDsZstdLevel: c.Zstd, LIDsZstdLevel: c.Zstd, TokenListZstdLevel: c.Zstd, DocsPositionsZstdLevel: c.Zstd, TokenTableZstdLevel: c.Zstd, DocBlocksZstdLevel: c.Zstd}
	// dry run: count the operations of a fault-free seal
	dry := &faultWS{failK: -1}
	if _, err := dry.Seek(16, io.SeekStart); err != nil {
		return res, err
	}
	if err := frac.VerifWriteSealedFraction(a, dry, params); err != nil {
		return res, evid.Failf("clean-seal-failed", "%v", err)
	}
	total := dry.ops
	res.Labels = append(res.Labels, fmt.Sprintf("ops~%d", (total/20)*20))
	for k := 2; k <= total; k += max(1, c.Step) { // op 1 is our own initial Seek(16)
		w := &faultWS{failK: k, short: c.Short}
		if _, err := w.Seek(16, io.SeekStart); err != nil {
			return res, err
		}
		err := frac.VerifWriteSealedFraction(a, w, params)
		if w.hit == "" {
			return res, fmt.Errorf("operation %d of %d was not reached (non-deterministic seal?)", k, total)
		}
		if err == nil {
			return res, evid.Failf("write-error-swallowed", "the %d-th output operation (%s, of %d) failed but sealing reported success after %d operations; a truncated index would be published", k, w.hit, total, w.ops)
		}
		res.Evals++
	}
	res.NonTrivial = total > 8
	if len(docs) > 4096 {
		res.Labels = append(res.Labels, "ids>1block")
	}
	return res, nil
}

func TestPropWriteFault(t *testing.T)   { evid.Check(t, genFault, runFault) }
func TestReplayWriteFault(t *testing.T) { evid.Replay(t, runFault) }
