package c10

// The timing rule and the size limit as the command-line flags state them: the real executable in
// single mode (store and proxy in one process) is started with --allowed-time-drift,
// --future-allowed-time-drift and --max-document-size, documents with their own time a generated
// distance from now are posted to /_bulk, and the IDs are read back through the proxy's gRPC
// Search.  "maximum allowed time since the message timestamp": a limit of 0 allows nothing, every
// document with its own time in the past (resp. future) is stamped with the receive time.  Borders
// are kept 2..5 s away from generated distances: the clock in question is the other process's.

import (
	"context"
	"encoding/json"
	"fmt"
	"os"
	"strings"
	"testing"
	"time"

	"google.golang.org/grpc"
	"google.golang.org/grpc/credentials/insecure"
	"google.golang.org/protobuf/types/known/timestamppb"
	"pgregory.net/rapid"

	"github.com/ozontech/seq-db/pkg/seqproxyapi/v1"
	"github.com/ozontech/seq-db/seq"

	"verif/internal/evid"
	"verif/internal/harness"
)

type BinDoc struct {
	OffMs  int64 `json:"off_ms"`        // document time = now + OffMs (0: no time field)
	Pad    int   `json:"pad,omitempty"` // total document length to reach (0: as short as it is)
	Format int   `json:"format,omitempty"`
}

type BinaryCase struct {
	DriftMs  int64    `json:"drift_ms"`
	FutureMs int64    `json:"future_ms"`
	MaxDoc   int      `json:"max_doc"`
	Docs     []BinDoc `json:"docs"`
}

func genBinary(t *rapid.T) BinaryCase {
	c := BinaryCase{
		DriftMs:  rapid.SampledFrom([]int64{0, 60_000, 86_400_000, 1, 3_600_000, 10_000}).Draw(t, "drift"),
		FutureMs: rapid.SampledFrom([]int64{0, 300_000, 1, 60_000, 10_000}).Draw(t, "future"),
		MaxDoc:   rapid.SampledFrom([]int{131072, 1024, 4096}).Draw(t, "maxdoc"),
	}
	n := rapid.IntRange(1, 8).Draw(t, "ndocs")
	for i := 0; i < n; i++ {
		var d BinDoc
		switch rapid.IntRange(0, 6).Draw(t, "when") {
		case 0: // no time field
		case 1: // a little in the past
			d.OffMs = -rapid.Int64Range(2_000, 50_000).Draw(t, "past")
		case 2: // a little ahead
			d.OffMs = rapid.Int64Range(2_000, 50_000).Draw(t, "ahead")
		case 3: // inside the allowed past, away from its border
			if c.DriftMs >= 10_000 {
				d.OffMs = -rapid.Int64Range(2_000, c.DriftMs-5_000).Draw(t, "inpast")
			} else {
				d.OffMs = -3_000
			}
		case 4: // inside the allowed future
			if c.FutureMs >= 10_000 {
				d.OffMs = rapid.Int64Range(2_000, c.FutureMs-5_000).Draw(t, "infuture")
			} else {
				d.OffMs = 3_000
			}
		case 5: // beyond the allowed past
			d.OffMs = -(c.DriftMs + rapid.Int64Range(5_000, 100_000_000).Draw(t, "beyondpast"))
		default: // beyond the allowed future
			d.OffMs = c.FutureMs + rapid.Int64Range(5_000, 100_000_000).Draw(t, "beyondfuture")
		}
		d.Format = rapid.IntRange(0, 2).Draw(t, "format")
		switch rapid.IntRange(0, 5).Draw(t, "size") {
		case 0:
			d.Pad = c.MaxDoc // exactly the limit: not larger, must be stored
		case 1:
			d.Pad = c.MaxDoc + rapid.IntRange(1, 50).Draw(t, "over") // larger: skipped
		case 2:
			d.Pad = c.MaxDoc - rapid.IntRange(1, 50).Draw(t, "under")
		}
		c.Docs = append(c.Docs, d)
	}
	return c
}

func runBinary(c BinaryCase) (evid.Result, error) {
	res := evid.Result{}
	if len(c.Docs) == 0 || len(c.Docs) > 64 || c.MaxDoc < 256 || c.MaxDoc > 1<<20 || c.DriftMs < 0 || c.FutureMs < 0 {
		return res, fmt.Errorf("case outside the domain")
	}
	dir := evid.ScratchDir("c10bin")
	defer os.RemoveAll(dir)
	b, err := harness.StartBinary("--mode=single", "--mapping=auto", "--data-dir="+dir, "--query-rate-limit=100000",
		fmt.Sprintf("--allowed-time-drift=%dms", c.DriftMs), fmt.Sprintf("--future-allowed-time-drift=%dms", c.FutureMs),
		fmt.Sprintf("--max-document-size=%dB", c.MaxDoc), "--frac-size=16MB", "--total-size=256MB", "--cache-size=64MB")
	if err != nil {
		return res, evid.Failf("no-start", "%v", err)
	}
	defer b.Kill()
	t0 := time.Now()
	var body []byte
	type exp struct {
		n      int
		text   string
		stored bool
		own    int64 // expected MID when the document keeps its own time (ms); 0: receive time
	}
	var exps []exp
	for i, d := range c.Docs {
		at := t0.Add(time.Duration(d.OffMs) * time.Millisecond).UTC()
		tf := ""
		if d.OffMs != 0 {
			switch d.Format {
			case 0:
				tf = fmt.Sprintf(`,"timestamp":"%s"`, at.Format("2006-01-02T15:04:05.000Z"))
			case 1:
				tf = fmt.Sprintf(`,"time":"%s"`, at.Format("2006-01-02 15:04:05.000"))
			default:
				tf = fmt.Sprintf(`,"ts":"%s"`, at.In(time.FixedZone("", 3*3600)).Format("2006-01-02T15:04:05.000-07:00"))
			}
		}
		text := fmt.Sprintf(`{"n":%d%s,"pad":""}`, i, tf)
		if d.Pad > len(text) {
			text = text[:len(text)-2] + strings.Repeat("p", d.Pad-len(text)) + `"}`
		}
		e := exp{n: i, text: text, stored: len(text) <= c.MaxDoc}
		if d.OffMs < 0 && -d.OffMs < c.DriftMs || d.OffMs > 0 && d.OffMs < c.FutureMs {
			e.own = at.UnixMilli()
		}
		exps = append(exps, e)
		body = append(body, "{\"index\":{}}\n"...)
		body = append(body, text...)
		body = append(body, '\n')
	}
	code, rb, err := b.PostBulk(body)
	t1 := time.Now()
	if err != nil {
		if !b.Alive() {
			return res, evid.Failf("process-died", "seq-db died while handling a bulk: %s", b.Tail())
		}
		return res, fmt.Errorf("harness: POST /_bulk: %v", err)
	}
	if code != 200 {
		return res, evid.Failf("valid-rejected", "a bulk of %d valid documents answered %d %s", len(c.Docs), code, abbrev(rb))
	}
	want := 0
	for _, e := range exps {
		if e.stored {
			want++
		}
	}
	conn, err := grpc.NewClient(b.GRPCAddr, grpc.WithTransportCredentials(insecure.NewCredentials()), grpc.WithDefaultCallOptions(grpc.MaxCallRecvMsgSize(256<<20)))
	if err != nil {
		return res, err
	}
	defer conn.Close()
	api := seqproxyapi.NewSeqProxyApiClient(conn)
	var docs []*seqproxyapi.Document
	deadline := time.Now().Add(60 * time.Second)
	for {
		ctx, cancel := context.WithTimeout(context.Background(), 30*time.Second)
		r, err := api.Search(ctx, &seqproxyapi.SearchRequest{
			Query: &seqproxyapi.SearchQuery{Query: "n:*", From: timestamppb.New(time.Unix(0, 0)), To: timestamppb.New(t1.Add(400 * 24 * time.Hour))}, Size: 1000,
		})
		cancel()
		if err != nil {
			if !b.Alive() {
				return res, evid.Failf("process-died", "seq-db died while searching: %s", b.Tail())
			}
			return res, evid.Failf("search-error", "%v", err)
		}
		docs = r.Docs
		if len(docs) >= want || time.Now().After(deadline) {
			break
		}
		time.Sleep(20 * time.Millisecond)
	}
	got := map[int]*seqproxyapi.Document{}
	for _, d := range docs {
		var v struct {
			N *int `json:"n"`
		}
		if err := json.Unmarshal(d.Data, &v); err != nil || v.N == nil {
			return res, evid.Failf("doc-foreign", "the store returns %s, which was never sent", abbrev(d.Data))
		}
		if got[*v.N] != nil {
			return res, evid.Failf("doc-twice", "document n=%d is listed twice", *v.N)
		}
		got[*v.N] = d
	}
	flags := fmt.Sprintf("--allowed-time-drift=%dms --future-allowed-time-drift=%dms --max-document-size=%dB", c.DriftMs, c.FutureMs, c.MaxDoc)
	for _, e := range exps {
		d := got[e.n]
		if !e.stored {
			if d != nil {
				return res, evid.Failf("oversize-stored", "[%s] a document of %d bytes is stored", flags, len(e.text))
			}
			res.Labels = append(res.Labels, "oversize-skipped")
			continue
		}
		if d == nil {
			return res, evid.Failf("doc-missing", "[%s] document %s (%d bytes) was acknowledged and is not returned by a search of everything (%d of %d returned)", flags, abbrev([]byte(e.text)), len(e.text), len(docs), want)
		}
		if string(d.Data) != e.text {
			return res, evid.Failf("doc-bytes", "[%s] document n=%d: stored %s, sent %s", flags, e.n, abbrev(d.Data), abbrev([]byte(e.text)))
		}
		id, err := seq.FromString(d.Id)
		if err != nil {
			return res, evid.Failf("bad-id", "%q: %v", d.Id, err)
		}
		mid := int64(id.MID)
		off := c.Docs[e.n].OffMs
		// the receive time lies somewhere between t0 and t1: a document whose place relative to
		// the window differs between these two ends is not judged (a slow machine, not a defect)
		if off != 0 {
			el := t1.Sub(t0).Milliseconds() + 2
			in0 := off < 0 && -off < c.DriftMs || off > 0 && off < c.FutureMs
			in1 := off-el < 0 && -(off-el) < c.DriftMs || off-el > 0 && off-el < c.FutureMs
			if in0 != in1 || (off > 0) != (off-el > 0) {
				res.Labels = append(res.Labels, "window-border-inside-the-request-time:not-judged")
				continue
			}
		}
		if e.own != 0 {
			if mid != e.own {
				return res, evid.Failf("mid-own-time", "[%s] document n=%d carries a time %d ms from now, inside the allowed window, but its id says %d (own time %d, request between %d and %d)", flags, e.n, off, mid, e.own, t0.UnixMilli(), t1.UnixMilli())
			}
			res.Labels = append(res.Labels, "time:own")
		} else {
			if mid < t0.UnixMilli()-1 || mid > t1.UnixMilli()+1 {
				return res, evid.Failf("mid-receive", "[%s] document n=%d (own time %d ms from now: none or outside the allowed window) must be stamped with the receive time, its id says %d, the request ran between %d and %d", flags, e.n, off, mid, t0.UnixMilli(), t1.UnixMilli())
			}
			if off != 0 {
				res.Labels = append(res.Labels, "time:receive(out of window)")
				if c.DriftMs == 0 && off < 0 || c.FutureMs == 0 && off > 0 {
					res.Labels = append(res.Labels, "limit-0-allows-nothing")
				}
			}
		}
		res.Evals++
	}
	res.NonTrivial = res.Evals > 0
	b.Stop()
	return res, nil
}

func TestPropBinary(t *testing.T)   { evid.Check(t, genBinary, runBinary) }
func TestReplayBinary(t *testing.T) { evid.Replay(t, runBinary) }
