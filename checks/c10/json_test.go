package c10

// RFC 8259 serialiser used by the C10 generators.  Everything it emits is "definitely
// valid" JSON: unique keys per object, no raw control characters, valid UTF-8 only, number
// spellings from the RFC grammar.  It records the positions of the structural characters so
// that "definitely invalid" lines can be derived by replacing exactly one of them.

import (
	"fmt"
	"strconv"
	"unicode/utf8"

	"pgregory.net/rapid"
)

type jw struct {
	t       *rapid.T
	b       []byte
	structs []int // offsets of { } [ ] : , outside strings
	ws      int   // 0 none, 1 one space after ':' and ',', 2 mixed blanks/tabs, 3 mixed incl. CR
	wsn     int
	escAll  bool // render every non-ASCII rune (and '/') as an escape
	flags   map[string]bool
}

var wsCycle = [][]string{nil, nil, {" ", "", "\t", "  ", ""}, {"\r", " ", "", "\t\r ", ""}}

func (w *jw) flag(s string) {
	if w.flags != nil {
		w.flags[s] = true
	}
}

func (w *jw) structural(c byte) {
	w.structs = append(w.structs, len(w.b))
	w.b = append(w.b, c)
	switch w.ws {
	case 1:
		if c == ':' || c == ',' {
			w.b = append(w.b, ' ')
		}
	case 2, 3:
		if c != '}' && c != ']' { // never leave blanks at the very end of the text
			cyc := wsCycle[w.ws]
			w.b = append(w.b, cyc[w.wsn%len(cyc)]...)
			w.wsn++
		}
	}
}

// string pieces: ASCII in both cases (the tokenizers lower-case in place), characters that
// need escaping, control characters, multi-byte runes whose lower-case form has another
// width (U+0130, U+212A), astral runes (surrogate pairs when escaped), JSON punctuation.
var pieces = []string{
	"a", "Z", "Error", "WARN", " ", "0", "42", "-", "_", ".", "é", "Ж", "ДА нет", "İ", "K", "ß", "\U0001F600",
	" ", `"`, `\`, "/", "\n", "\t", "\r", "\b", "\f", "\x00", "\x1f", "\x7f", "<", "&", "{", "}", "[", "]", ",", ":", "*",
	"日本", "�", "", "Some Mixed CASE text", "/var/Log/App.log", "GET /Index.html HTTP/1.1", "ÀÉÎ",
}

func (w *jw) str(s string) {
	w.b = append(w.b, '"')
	for _, r := range s {
		switch {
		case r == '"':
			w.b = append(w.b, '\\', '"')
		case r == '\\':
			w.b = append(w.b, '\\', '\\')
		case r == '/' && w.escAll:
			w.b = append(w.b, '\\', '/')
		case r < 0x20:
			w.flag("ctl-escape")
			short := shortEsc(r)
			if short != 0 && !w.escAll {
				w.b = append(w.b, '\\', short)
			} else {
				w.b = append(w.b, fmt.Sprintf(`\u%04X`, r)...)
			}
		case r >= 0x80 && w.escAll:
			w.flag("u-escape")
			if r > 0xffff {
				w.flag("surrogate-pair")
				r -= 0x10000
				w.b = append(w.b, fmt.Sprintf(`\ud%03x\ud%03x`, 0x800+(r>>10), 0xc00+(r&0x3ff))...)
			} else {
				w.b = append(w.b, fmt.Sprintf(`\u%04x`, r)...)
			}
		default:
			if r >= 0x80 {
				w.flag("raw-utf8")
			}
			w.b = utf8.AppendRune(w.b, r)
		}
	}
	w.b = append(w.b, '"')
}

func (w *jw) genString() string {
	n := rapid.IntRange(0, 5).Draw(w.t, "npieces")
	s := ""
	for i := 0; i < n; i++ {
		s += rapid.SampledFrom(pieces).Draw(w.t, "piece")
	}
	return s
}

var numbers = []string{"0", "-0", "1", "-1", "42", "3.14", "-2.5e-3", "1E+2", "1e10", "123456789012345678901234567890", "0.1", "1.0E0", "9007199254740993", "-0.0"}

var keyVocab = []string{"level", "msg", "service", "path", "k8s_pod", "User", "X-Id", "ключ", "a b", "Trace.ID", "q\"uote", "back\\slash", "tab\tkey", "", "message", "Ж"}

func (w *jw) key(used map[string]bool) string {
	k := rapid.SampledFrom(keyVocab).Draw(w.t, "key")
	for i := 0; used[k]; i++ {
		k = k + strconv.Itoa(i)
	}
	used[k] = true
	return k
}

func (w *jw) value(depth int) {
	kind := rapid.IntRange(0, 9).Draw(w.t, "vkind")
	if depth <= 0 && kind >= 8 {
		kind = 0
	}
	switch kind {
	case 0, 1, 2, 3:
		w.str(w.genString())
	case 4, 5:
		w.b = append(w.b, rapid.SampledFrom(numbers).Draw(w.t, "num")...)
	case 6:
		w.b = append(w.b, rapid.SampledFrom([]string{"true", "false", "null"}).Draw(w.t, "lit")...)
	case 7:
		w.str(rapid.SampledFrom([]string{"Error", "INFO", "debug", "Warn"}).Draw(w.t, "lvl"))
	case 8:
		w.flag("nested-object")
		w.object(depth-1, rapid.IntRange(0, 3).Draw(w.t, "nmemb"))
	default:
		w.flag("array")
		n := rapid.IntRange(0, 3).Draw(w.t, "nelem")
		w.structural('[')
		for i := 0; i < n; i++ {
			if i > 0 {
				w.structural(',')
			}
			w.value(depth - 1)
		}
		w.structural(']')
	}
}

func (w *jw) object(depth, n int) {
	used := map[string]bool{}
	w.structural('{')
	for i := 0; i < n; i++ {
		if i > 0 {
			w.structural(',')
		}
		w.str(w.key(used))
		w.structural(':')
		w.value(depth)
	}
	w.structural('}')
}

// deep writes a value nested d levels deep (alternating arrays and objects).
func (w *jw) deep(d int) {
	w.flag("deep")
	for i := 0; i < d; i++ {
		if i%2 == 0 {
			w.structural('[')
		} else {
			w.structural('{')
			w.str("k")
			w.structural(':')
		}
	}
	w.b = append(w.b, '1')
	for i := d - 1; i >= 0; i-- {
		if i%2 == 0 {
			w.structural(']')
		} else {
			w.structural('}')
		}
	}
}

func shortEsc(r rune) byte {
	switch r {
	case '\n':
		return 'n'
	case '\t':
		return 't'
	case '\r':
		return 'r'
	case '\b':
		return 'b'
	case '\f':
		return 'f'
	}
	return 0
}
