package c10

// Family 3 (store side of "stored exactly once with its bytes unchanged"): long quiet runs
// after a burst.  The store's index workers keep one metaDataCollector each for their whole
// life and shrink its buffers when, over a window of 200 bulks, capacity is more than three
// times the rolling average - a branch that needs hundreds of small bulks on the same worker
// after a large one.  The case is (workers, burst size, token shape of the burst, number and
// sizes of the following small bulks, rounds); every document has its own ID, body and
// tokens; afterwards every document must be found under `*` and under its own tokens and
// fetch byte for byte, from the active fraction and again after sealing.

import (
	"fmt"
	"math"
	"strings"
	"testing"

	"pgregory.net/rapid"

	"verif/internal/evid"
	"verif/internal/harness"
	"verif/internal/model"
)

type BurstCase struct {
	Workers  int  `json:"workers"`
	Big      int  `json:"big"`       // documents in the burst bulk
	BigToks  int  `json:"big_toks"`  // extra tokens per burst document
	BigVal   int  `json:"big_val"`   // length of the burst's token values
	NSmall   int  `json:"n_small"`   // small bulks after the burst
	SmallMax int  `json:"small_max"` // their sizes cycle through 1..SmallMax
	Nested   bool `json:"nested"`    // some small documents carry a nested entry
	Rounds   int  `json:"rounds"`
}

func genBurst(t *rapid.T) BurstCase {
	return BurstCase{
		Workers:  rapid.SampledFrom([]int{1, 1, 2}).Draw(t, "workers"),
		Big:      rapid.IntRange(100, 1500).Draw(t, "big"),
		BigToks:  rapid.IntRange(0, 6).Draw(t, "bigtoks"),
		BigVal:   rapid.SampledFrom([]int{4, 40, 300}).Draw(t, "bigval"),
		NSmall:   rapid.IntRange(150, 470).Draw(t, "nsmall"),
		SmallMax: rapid.IntRange(1, 4).Draw(t, "smallmax"),
		Nested:   rapid.Bool().Draw(t, "nested"),
		Rounds:   rapid.IntRange(1, 2).Draw(t, "rounds"),
	}
}

func runBurst(c BurstCase) (res evid.Result, _ error) {
	if c.Workers < 1 || c.Big < 1 || c.NSmall < 1 || c.SmallMax < 1 || c.Rounds < 1 || c.Rounds > 3 || c.Big > 5000 || c.NSmall > 2000 {
		return res, evid.Failf("bad_case", "shape")
	}
	dir := evid.ScratchDir("c10b")
	st, err := harness.OpenStore(dir, harness.StoreOpts{IndexWorkers: c.Workers})
	if err != nil {
		return res, err
	}
	defer func() { st.Close() }()

	var all model.Corpus
	serial := 0
	mk := func(extra, vlen int, nested bool) model.Doc {
		i := serial
		serial++
		d := model.Doc{
			ID:   model.ID{MID: 1_700_000_000_000 + uint64(i/3), RID: uint64(i) + 1},
			Body: []byte(fmt.Sprintf(`{"serial":%d,"pad":"%s"}`, i, strings.Repeat("p", i%37))),
			Toks: []model.Tok{{F: "_all_", V: ""}, {F: "_exists_", V: "serial"}, {F: "serial", V: fmt.Sprint(i)}, {F: "_exists_", V: "grp"}, {F: "grp", V: fmt.Sprintf("g%d", i%7)}},
		}
		for k := 0; k < extra; k++ {
			f := fmt.Sprintf("x%d", k)
			d.Toks = append(d.Toks, model.Tok{F: "_exists_", V: f}, model.Tok{F: f, V: fmt.Sprintf("%d-%s", i, strings.Repeat("v", vlen))})
		}
		if nested {
			d.Nested = [][]model.Tok{{{F: "_all_", V: ""}, {F: "_exists_", V: "n.k"}, {F: "n.k", V: fmt.Sprintf("n%d", i)}}}
		}
		return d
	}
	bulks := 0
	for r := 0; r < c.Rounds; r++ {
		var big []model.Doc
		for i := 0; i < c.Big; i++ {
			big = append(big, mk(c.BigToks, c.BigVal, false))
		}
		if err := st.Bulk(big); err != nil {
			return res, evid.Failf("bulk-error", "burst: %v", err)
		}
		all = append(all, big...)
		for j := 0; j < c.NSmall; j++ {
			var small []model.Doc
			for k := 0; k < 1+j%c.SmallMax; k++ {
				small = append(small, mk(0, 0, c.Nested && (j+k)%5 == 0))
			}
			if err := st.Bulk(small); err != nil {
				return res, evid.Failf("bulk-error", "small bulk %d: %v", j, err)
			}
			if c.Workers == 1 || j%8 == 7 {
				st.WaitIdle() // one bulk at a time per worker, as a lightly loaded store sees them
			}
			all = append(all, small...)
			bulks++
		}
	}
	st.WaitIdle()
	res.Labels = append(res.Labels, fmt.Sprintf("workers=%d", c.Workers), fmt.Sprintf("rounds=%d", c.Rounds))
	if c.NSmall >= 200*c.Workers {
		res.Labels = append(res.Labels, "full-window-of-small-bulks-per-worker")
	}
	res.NonTrivial = c.NSmall >= 200*c.Workers && c.Big > 3*2*c.SmallMax

	idx := all.Index()
	verify := func(form string) error {
		rq := model.SearchReq{Q: model.All(), From: 0, To: math.MaxInt64, Limit: len(all) + 10, WithTotal: true}
		want := model.Search(all, &rq)
		qpr, err := st.Search(&rq, "*", nil)
		if err != nil {
			return evid.Failf("search-error", "[%s] %v", form, err)
		}
		if got := harness.FromSeqIDs(qpr.IDs); !model.EqualIDs(got, want.IDs) {
			return evid.Failf("ids-differ", "[%s] `*` returns %d ids, want %d", form, len(got), len(want.IDs))
		}
		bodies, err := st.Fetch(harness.ToSeqIDs(want.IDs))
		if err != nil {
			return evid.Failf("fetch-error", "[%s] %v", form, err)
		}
		for i, id := range want.IDs {
			if !model.EqualBytes(bodies[i], idx[id].Body) {
				return evid.Failf("fetch-differs", "[%s] after %d bulks id %v fetches %.70q, want %.70q", form, bulks, id, bodies[i], idx[id].Body)
			}
			res.Evals++
		}
		// each document is found under its own `serial` token: the last 3 window's worth
		for s := max(0, serial-700); s < serial; s += 1 + s%3 {
			q := &model.Q{Op: "lit", Field: "serial", Pat: model.Exact(fmt.Sprint(s))}
			rq := model.SearchReq{Q: q, From: 0, To: math.MaxInt64, Limit: 10, WithTotal: true}
			want := model.Search(all, &rq)
			qpr, err := st.Search(&rq, fmt.Sprintf("serial:%d", s), nil)
			if err != nil {
				return evid.Failf("search-error", "[%s] %v", form, err)
			}
			if got := harness.FromSeqIDs(qpr.IDs); !model.EqualIDs(got, want.IDs) {
				return evid.Failf("ids-differ", "[%s] serial:%d returns %v, want %v", form, s, got, want.IDs)
			}
			res.Evals++
		}
		return nil
	}
	if err := verify("active"); err != nil {
		return res, err
	}
	st.Seal()
	if err := verify("sealed"); err != nil {
		return res, err
	}
	return res, nil
}

func TestPropBurst(t *testing.T)   { evid.Check(t, genBurst, runBurst) }
func TestReplayBurst(t *testing.T) { evid.Replay(t, runBurst) }
