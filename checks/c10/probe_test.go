package c10

import (
	"bytes"
	"context"
	"fmt"
	"net/http"
	"net/http/httptest"
	"strings"
	"testing"
	"time"

	insaneJSON "github.com/ozontech/insane-json"
	"github.com/ozontech/seq-db/proxy/bulk"
	"github.com/ozontech/seq-db/proxyapi"
	"github.com/ozontech/seq-db/seq"
)

type mp struct{ m seq.Mapping }

func (p mp) GetMapping() seq.Mapping        { return p.m }
func (p mp) GetRawMapping() *seq.RawMapping { return nil }

type capc struct{ calls int }

func (c *capc) StoreDocuments(_ context.Context, n int, d, m []byte) error {
	c.calls++
	return nil
}

func TestProbe(t *testing.T) {
	for _, s := range []string{`123`, `"str"`, `[1,2]`, `null`, `true`, `false`, `-1.5e3`, `{`, `{"a`, `{"a"`, `{"a":`, `{"a":1`, `{"a":1,`, `{"a":"x\`, `{"a":"\u00`, `{"a":[1,2}`, `["a":1}`, `{"a":1]`, `{"a",1}`, `{"a":1:"b":2}`, `{"a":[1:2]}`, `{"a":{1,2]}`, `{"a":1,"b":2]`, `{"a":tr`, `{"a":1}}`, `{"a":{"b":1}`, `{"a":[}`, `{"a":{]}`, `{,"a":1}`, `{"a":1,}`, `{"a"::1}`, `{"a":[1,,2]}`, `{"a":[1,]}`, `{"a":1 "b":2}`, `{"a":[1 2]}`, `[`, `"abc`, `{"a":n`, `{"a":-`, `{"a":1e`,`{"a":"x"`, `{"a":{}`, `{"a":[]`, `{"a":[[]`} {
		r := insaneJSON.Spawn()
		err := r.DecodeBytes([]byte(s))
		fmt.Printf("%-22s err=%v obj=%v\n", s, err, err == nil && r.IsObject())
		insaneJSON.Release(r)
	}
	c := &capc{}
	ing := bulk.NewIngestor(bulk.IngestorConfig{MaxInflightBulks: 1, AllowedTimeDrift: time.Hour, FutureAllowedTimeDrift: time.Minute, MappingProvider: mp{}, MaxTokenSize: 1024, DocsZSTDCompressLevel: -1, MetasZSTDCompressLevel: -1}, c)
	h := proxyapi.NewBulkHandler(ing, 64)
	do := func(body string) {
		c.calls = 0
		req := httptest.NewRequest(http.MethodPost, "/_bulk", bytes.NewReader([]byte(body)))
		w := httptest.NewRecorder()
		h.ServeHTTP(w, req)
		fmt.Printf("len=%d status=%d calls=%d resp=%q\n", len(body), w.Code, c.calls, w.Body.String())
	}
	pad := func(n int) string { return `{"a":"` + strings.Repeat("x", n-8) + `"}` }
	for _, n := range []int{62, 63, 64, 65, 127, 128, 129} {
		fmt.Println("doc len", n, "no trailing newline, preceded by a good doc")
		do("{\"index\":{}}\n{\"a\":1}\n{\"index\":{}}\n" + pad(n))
		fmt.Println("doc len", n, "trailing newline")
		do("{\"index\":{}}\n{\"a\":1}\n{\"index\":{}}\n" + pad(n) + "\n")
		fmt.Println("doc len", n, "trailing crlf")
		do("{\"index\":{}}\r\n{\"a\":1}\r\n{\"index\":{}}\r\n" + pad(n) + "\r\n")
	}
	do("{\"index\":{}}\n123\n{\"index\":{}}\n{\"a\":1}\n")
	do("{\"index\":true}\n{\"a\":1}\n")
	do("")
	do("\n\n")
}
