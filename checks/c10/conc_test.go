package c10

// Concurrent bulk requests through the real HTTP handler.  The handler keeps line readers, gzip
// readers, document processors and compression buffers in process-wide pools; "stores valid
// documents verbatim ... or stores nothing" has to hold for every request also when several are
// in flight and the pooled objects wander between them.  2..6 clients post their own requests
// (different sizes, terminators, gzip, chunked bodies) 15..80 times at the same time; the
// storage client records every block it is handed.  Oracle: every request is answered 200 with
// one created item per document; afterwards every document sent is stored exactly once, byte
// for byte, and nothing else is.  Runs under the race detector.

import (
	"bytes"
	"compress/gzip"
	"context"
	"encoding/json"
	"fmt"
	"io"
	"net/http"
	"net/http/httptest"
	"strings"
	"sync"
	"sync/atomic"
	"testing"
	"time"

	"pgregory.net/rapid"

	"github.com/ozontech/seq-db/proxyapi"

	"verif/internal/evid"
)

type BulkShape struct {
	Pads      []int `json:"pads"` // one document per entry, padded to about this many bytes
	Gzip      int   `json:"gzip,omitempty"`
	CRLF      bool  `json:"crlf,omitempty"`
	Chunk     int   `json:"chunk,omitempty"`
	NoFinalNL bool  `json:"no_final_nl,omitempty"`
}

type ConcBulkCase struct {
	MaxDoc  int           `json:"max_doc"`
	Clients [][]BulkShape `json:"clients"` // each client cycles through its own shapes
	Rounds  int           `json:"rounds"`
}

func genConcBulk(t *rapid.T) ConcBulkCase {
	var c ConcBulkCase
	c.MaxDoc = rapid.SampledFrom([]int{4096, 1024, 65536, 512}).Draw(t, "maxdoc")
	for g := rapid.IntRange(2, 6).Draw(t, "clients"); g > 0; g-- {
		var shapes []BulkShape
		for n := rapid.IntRange(1, 3).Draw(t, "nshapes"); n > 0; n-- {
			var s BulkShape
			for d := rapid.IntRange(1, 12).Draw(t, "ndocs"); d > 0; d-- {
				switch rapid.IntRange(0, 5).Draw(t, "padclass") {
				case 0:
					s.Pads = append(s.Pads, 0)
				case 1:
					s.Pads = append(s.Pads, c.MaxDoc-rapid.IntRange(0, 3).Draw(t, "nearmax")) // at or just under the limit
				case 2:
					s.Pads = append(s.Pads, rapid.IntRange(c.MaxDoc/2, c.MaxDoc).Draw(t, "large"))
				default:
					s.Pads = append(s.Pads, rapid.IntRange(0, 300).Draw(t, "small"))
				}
			}
			s.Gzip = rapid.SampledFrom([]int{0, 0, 1, 2, 3}).Draw(t, "gzip")
			s.CRLF = rapid.Bool().Draw(t, "crlf")
			s.Chunk = rapid.SampledFrom([]int{0, 0, 1, 7, 64, 4096}).Draw(t, "chunk")
			s.NoFinalNL = rapid.IntRange(0, 3).Draw(t, "nofinalnl") == 3
			shapes = append(shapes, s)
		}
		c.Clients = append(c.Clients, shapes)
	}
	c.Rounds = rapid.SampledFrom([]int{15, 40, 80}).Draw(t, "rounds")
	return c
}

type concCapture struct {
	mu    sync.Mutex
	calls []stored
}

func (c *concCapture) StoreDocuments(_ context.Context, count int, docs, metas []byte) error {
	d := append([]byte{}, docs...)
	c.mu.Lock()
	c.calls = append(c.calls, stored{count: count, docs: d})
	c.mu.Unlock()
	return nil
}

func concDoc(client, round, i, pad, maxDoc int) []byte {
	head := fmt.Sprintf(`{"c":%d,"r":%d,"i":%d,"pad":"`, client, round, i)
	n := min(pad, maxDoc) - len(head) - 2
	fill := byte('a' + (client*7+round+i)%26)
	return []byte(head + strings.Repeat(string(fill), max(0, n)) + `"}`)
}

func runConcBulk(c ConcBulkCase) (evid.Result, error) {
	res := evid.Result{}
	if c.MaxDoc < 64 || c.MaxDoc > 1<<20 || len(c.Clients) < 1 || len(c.Clients) > 16 || c.Rounds < 1 || c.Rounds > 500 {
		return res, fmt.Errorf("case outside the domain")
	}
	if err := resetReaderPool(c.MaxDoc); err != nil {
		return res, err
	}
	cl := &concCapture{}
	cfg := Case{MaxDoc: c.MaxDoc, DriftMs: 86_400_000, FutureMs: 300_000, MaxTok: 72}
	ing := cfg.ingestorN(cl, len(c.Clients)+1)
	defer ing.Stop()
	handler := proxyapi.NewBulkHandler(ing, c.MaxDoc)
	var stop atomic.Bool
	var wg sync.WaitGroup
	errs := make([]error, len(c.Clients))
	sent := make([][][]byte, len(c.Clients))
	for g, shapes := range c.Clients {
		wg.Add(1)
		go func(g int, shapes []BulkShape) {
			defer wg.Done()
			defer func() {
				if p := recover(); p != nil {
					errs[g] = evid.Failf("handler-panic", "client %d: %v", g, p)
					stop.Store(true)
				}
			}()
			for round := 0; round < c.Rounds && !stop.Load(); round++ {
				s := shapes[round%len(shapes)]
				nl := "\n"
				if s.CRLF {
					nl = "\r\n"
				}
				var body []byte
				var docs [][]byte
				for i, pad := range s.Pads {
					d := concDoc(g, round, i, pad, c.MaxDoc)
					docs = append(docs, d)
					body = append(body, `{"index":{}}`...)
					body = append(body, nl...)
					body = append(body, d...)
					if i < len(s.Pads)-1 || !s.NoFinalNL {
						body = append(body, nl...)
					}
				}
				wire := body
				hdr := http.Header{}
				if s.Gzip > 0 {
					var zb bytes.Buffer
					zw, _ := gzip.NewWriterLevel(&zb, []int{gzip.BestSpeed, gzip.DefaultCompression, gzip.NoCompression}[s.Gzip-1])
					_, _ = zw.Write(body)
					_ = zw.Close()
					wire = zb.Bytes()
					hdr.Set("Content-Encoding", "gzip")
				}
				var rd io.Reader = bytes.NewReader(wire)
				if s.Chunk > 0 {
					rd = &chunkReader{b: wire, n: s.Chunk}
				}
				req := httptest.NewRequest(http.MethodPost, "/_bulk", rd)
				req.Header = hdr
				w := httptest.NewRecorder()
				handler.ServeHTTP(w, req)
				where := fmt.Sprintf("client %d round %d (%d clients at once, %d documents, gzip=%d crlf=%v chunk=%d)", g, round, len(c.Clients), len(docs), s.Gzip, s.CRLF, s.Chunk)
				if w.Code != http.StatusOK {
					errs[g] = evid.Failf("valid-rejected", "%s: answered %d %s", where, w.Code, abbrev(w.Body.Bytes()))
					stop.Store(true)
					return
				}
				var resp struct {
					Errors *bool             `json:"errors"`
					Items  []json.RawMessage `json:"items"`
				}
				if err := json.Unmarshal(w.Body.Bytes(), &resp); err != nil || resp.Errors == nil || *resp.Errors {
					errs[g] = evid.Failf("resp-format", "%s: response %s (%v)", where, abbrev(w.Body.Bytes()), err)
					stop.Store(true)
					return
				}
				if len(resp.Items) != len(docs) {
					errs[g] = evid.Failf("resp-count", "%s: %d items in the response", where, len(resp.Items))
					stop.Store(true)
					return
				}
				sent[g] = append(sent[g], docs...)
			}
		}(g, shapes)
	}
	done := make(chan struct{})
	go func() { wg.Wait(); close(done) }()
	select {
	case <-done:
	case <-time.After(15 * time.Minute): // bounded work of seconds; a deadlock between requests ends here
		return res, evid.Failf("hang", "%d concurrent clients did not finish their %d requests each", len(c.Clients), c.Rounds)
	}
	for _, err := range errs {
		if err != nil {
			return res, err
		}
	}
	want := map[string]int{}
	total := 0
	for _, ds := range sent {
		for _, d := range ds {
			want[string(d)]++
			total++
		}
	}
	cl.mu.Lock()
	calls := cl.calls
	cl.mu.Unlock()
	got := 0
	for k, call := range calls {
		docs, err := decodeBlock(call.docs)
		if err != nil {
			return res, evid.Failf("block-corrupt", "stored block %d of %d: %v", k, len(calls), err)
		}
		if len(docs) != call.count {
			return res, evid.Failf("store-count", "stored block %d holds %d documents, the call said %d", k, len(docs), call.count)
		}
		for _, d := range docs {
			got++
			if want[string(d)] == 0 {
				return res, evid.Failf("doc-foreign", "stored document %s was never sent in this form (or is stored more often than sent); %d clients at once", abbrev(d), len(c.Clients))
			}
			want[string(d)]--
		}
	}
	for d, n := range want {
		if n != 0 {
			return res, evid.Failf("doc-missing", "document %s was acknowledged but is not among the %d stored ones (%d sent); %d clients at once", abbrev([]byte(d)), got, total, len(c.Clients))
		}
	}
	res.Evals = total
	res.NonTrivial = len(c.Clients) >= 2 && total > 0
	res.Labels = append(res.Labels, fmt.Sprintf("clients=%d", len(c.Clients)), fmt.Sprintf("maxdoc=%d", c.MaxDoc))
	return res, nil
}

func TestPropConcBulk(t *testing.T)   { evid.Check(t, genConcBulk, runConcBulk) }
func TestReplayConcBulk(t *testing.T) { evid.Replay(t, runConcBulk) }
