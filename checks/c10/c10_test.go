// C10: bulk ingestion stores valid documents verbatim, timed by rule, or stores nothing.
//
// Two entry points: the real proxyapi.BulkHandler.ServeHTTP (whole /_bulk bodies) and
// bulk.Ingestor.ProcessDocuments with an explicit request time.  The oracle looks at what a
// capturing StorageClient was handed (decoded docs and metas blocks) and at the response.
package c10

import (
	"bytes"
	"compress/gzip"
	"context"
	"encoding/binary"
	"encoding/json"
	"fmt"
	"io"
	"net/http"
	"net/http/httptest"
	"os"
	"regexp"
	"runtime"
	"sort"
	"strconv"
	"strings"
	"testing"
	"time"

	"pgregory.net/rapid"

	"github.com/ozontech/seq-db/disk"
	"github.com/ozontech/seq-db/frac"
	"github.com/ozontech/seq-db/proxy/bulk"
	"github.com/ozontech/seq-db/proxyapi"
	"github.com/ozontech/seq-db/seq"

	"verif/internal/evid"
	"verif/internal/harness"
	"verif/internal/model"
)

// ---------------------------------------------------------------- case

// TSpec describes one parseable time field of a document: where its text sits in the
// (expanded) line and how it is rendered.  The document time is requestTime-Delay truncated
// to the rendered precision; for the HTTP entry the text is re-rendered against the wall
// clock at run time (same length by construction).
type TSpec struct {
	Field string `json:"field"` // timestamp | time | ts
	Off   int    `json:"off"`
	Len   int    `json:"len"`
	Fmt   int    `json:"fmt"`  // 0 "2006-01-02 15:04:05.999" (UTC), 1 RFC3339 with Z, 2 RFC3339 with numeric zone
	Frac  int    `json:"frac"` // fractional digits 0..9
	Zone  int    `json:"zone"` // minutes east of UTC (Fmt 2)
	Delay int64  `json:"delay"`
	// Extra: further fractional digits after the ninth (Frac == 9 only).  Go's time formats,
	// which the proxy's formats are, read any number of fractional digits and ignore what lies
	// beyond nanoseconds.
	Extra string `json:"extra,omitempty"`
	// AbsYear != 0: the text is an absolute calendar time in that year (0001..1700 or 2300..9999),
	// i.e. centuries away from any request time; its distance mostly does not fit an int64
	// duration (time.Sub saturates).  Never re-rendered; always outside every drift.
	AbsYear int `json:"abs_year,omitempty"`
}

type Line struct {
	Kind string `json:"kind"` // doc | nonobj | invalid
	// Lenient: an invalid line of a form the store's JSON decoder is known to accept (recorded
	// finding "lenient-json"); generated only on request
	Lenient bool    `json:"lenient,omitempty"`
	Blank   int     `json:"blank,omitempty"`  // blank lines before the action line (HTTP)
	Action  string  `json:"action,omitempty"` // HTTP
	CRLF    bool    `json:"crlf,omitempty"`   // terminator of the action and of the document line
	Text    string  `json:"text"`             // line without the pad fill
	PadAt   int     `json:"pad_at,omitempty"`
	PadLen  int     `json:"pad_len,omitempty"`
	Times   []TSpec `json:"times,omitempty"` // parseable time fields in priority order (first wins)
	// Flags: generator classes this line belongs to (counted as labels by runCase)
	Flags []string `json:"flags,omitempty"`
}

type Request struct {
	Lines      []Line `json:"lines"`
	ReqNano    int64  `json:"req_nano"`       // direct: the explicit request time; HTTP: nominal time used at generation
	Gzip       int    `json:"gzip,omitempty"` // 0 plain, 1..3 gzip (speed, default, stored)
	Chunk      int    `json:"chunk,omitempty"`
	NoFinalNL  bool   `json:"no_final_nl,omitempty"`
	TrailBlank int    `json:"trail_blank,omitempty"`
	Reuse      bool   `json:"reuse,omitempty"` // direct: readNext hands out slices of one reused buffer, as the line reader does
}

type Case struct {
	Entry    string    `json:"entry"` // http | direct
	MaxDoc   int       `json:"max_doc,omitempty"`
	Mapping  int       `json:"mapping"` // 0 nil mapping (every field keyword), 1 keyword/text/path mapping
	Partial  bool      `json:"partial,omitempty"`
	MaxTok   int       `json:"max_tok"`
	DriftMs  int64     `json:"drift_ms"`
	FutureMs int64     `json:"future_ms"`
	E2E      bool      `json:"e2e,omitempty"`
	Excluded int       `json:"excluded,omitempty"`
	Reqs     []Request `json:"reqs"`
}

func padFill(n int) string {
	const pat = "Ab"
	return strings.Repeat(pat, n/2+1)[:n]
}

func (l Line) expand() []byte {
	if l.PadLen == 0 {
		return []byte(l.Text)
	}
	return []byte(l.Text[:l.PadAt] + padFill(l.PadLen) + l.Text[l.PadAt:])
}

func (l Line) length() int { return len(l.Text) + l.PadLen }

func pow10(n int) int64 {
	r := int64(1)
	for ; n > 0; n-- {
		r *= 10
	}
	return r
}

// docTime: the instant a time field denotes, given the request time.
func (s TSpec) docTime(req int64) int64 {
	p := pow10(9 - s.Frac)
	return (req - s.Delay) / p * p
}

func (s TSpec) render(tn int64) string {
	t := time.Unix(0, tn).UTC()
	if s.Fmt == 2 {
		t = t.In(time.FixedZone("", s.Zone*60))
	}
	sep := "T"
	if s.Fmt == 0 {
		sep = " "
	}
	out := fmt.Sprintf("%04d-%02d-%02d%s%02d:%02d:%02d", t.Year(), int(t.Month()), t.Day(), sep, t.Hour(), t.Minute(), t.Second())
	if s.Frac > 0 {
		out += "." + fmt.Sprintf("%09d", t.Nanosecond())[:s.Frac]
		if s.Frac == 9 {
			out += s.Extra
		}
	}
	switch s.Fmt {
	case 1:
		out += "Z"
	case 2:
		z, sign := s.Zone, '+'
		if z < 0 {
			z, sign = -z, '-'
		}
		out += fmt.Sprintf("%c%02d:%02d", sign, z/60, z%60)
	}
	return out
}

// renderAbs writes a local calendar time of year AbsYear in the spec's format (the zone suffix
// only shifts the instant by hours, never out of "centuries away").
func (s TSpec) renderAbs(month, day, sec, ns int) string {
	sep := "T"
	if s.Fmt == 0 {
		sep = " "
	}
	out := fmt.Sprintf("%04d-%02d-%02d%s%02d:%02d:%02d", s.AbsYear, month, day, sep, sec/3600, sec/60%60, sec%60)
	if s.Frac > 0 {
		out += "." + fmt.Sprintf("%09d", ns)[:s.Frac]
	}
	switch s.Fmt {
	case 1:
		out += "Z"
	case 2:
		z, sign := s.Zone, '+'
		if z < 0 {
			z, sign = -z, '-'
		}
		out += fmt.Sprintf("%c%02d:%02d", sign, z/60, z%60)
	}
	return out
}

// ---------------------------------------------------------------- generators

var (
	actionsShort  = []string{`{"index":{}}`, `{"create":{}}`, `{"index":{"_id":"7"}}`}
	actionsLong   = []string{`{"index":{"_index":"logs-2024","_id":"17"}}`, `{"create":{"_index":"test","_id":"1"}}`, `{ "index" : { } }`, `{"create":{"_index":"x"}}`}
	nonObjects    = []string{`123`, `"just a string"`, `null`, `true`, `false`, `-1.5e3`, `[]`, `[1,2,3]`, `[{"timestamp":"2024-01-01T00:00:00Z"}]`, `""`, `0`}
	badTimes      = []string{`"not a time"`, `"2024-13-45 99:99:99"`, `""`, `1700000000`, `1700000000000`, `true`, `null`, `{}`, `[1]`, `"yesterday"`, `"12:00"`, `{"seconds":1700000000}`}
	driftConfigs  = [][2]int64{{86_400_000, 300_000}, {3_600_000, 3_600_000}, {90_000, 0}, {1, 1}, {10_000, 2_000}}
	shardMaxDocs  = []int{256, 64, 32, 1024, 4096, 128, 48, 65536, 16384, 512, 100, 2048}
	shardIndex, _ = strconv.Atoi(os.Getenv("VERIF_SHARD"))
)

type docOpts struct {
	http     bool
	target   int // wanted total length (0 = free)
	minimal  bool
	drift    int64 // ns
	future   int64 // ns
	req      int64
	forInval bool // no pad, no outer blanks: base text of an invalid line
	// impossible: a calendar date that does not exist (30 February ...) spelled in the ES
	// format, which a normalising parser would read as an instant shortly before the request
	impossible string
	maxLen     int // forInval: longest admissible line (0 = any)
}

// genDelay draws the distance of a document time from the request time.
var esTimeRe = regexp.MustCompile(`^(\d{4})-(\d\d)-(\d\d) (\d\d):(\d\d):(\d\d)(\.\d+)?$`)

// supportedTime: does the text denote a time in one of the three documented formats
// ("2006-01-02 15:04:05.999" with any number of fraction digits, RFC 3339 with or without a
// fraction)?  Independent of the proxy's parser: the standard library for RFC 3339, a regular
// expression plus a calendar check for the first.
func supportedTime(s string) bool {
	if _, err := time.Parse(time.RFC3339Nano, s); err == nil {
		return true
	}
	if _, err := time.Parse(time.RFC3339, s); err == nil {
		return true
	}
	m := esTimeRe.FindStringSubmatch(s)
	if m == nil {
		return false
	}
	n := func(i int) int { v, _ := strconv.Atoi(m[i]); return v }
	if n(2) < 1 || n(2) > 12 || n(3) < 1 || n(4) > 23 || n(5) > 59 || n(6) > 59 {
		return false
	}
	d := time.Date(n(1), time.Month(n(2)), n(3), 0, 0, 0, 0, time.UTC)
	return d.Day() == n(3)
}

// genNearMiss: the text of an instant a few seconds before the request (inside the drift
// window whenever that is wider), spelled in a supported format and then changed in one place
// so that no supported format reads it: a parser that reads a prefix, or forgives the change,
// stamps the document with that instant instead of the request time.
func genNearMiss(t *rapid.T, o docOpts, out *string) bool {
	const sec = int64(1e9)
	hi := max(3*sec, min(o.drift-sec, 600*sec))
	at := time.Unix(0, o.req-rapid.Int64Range(2*sec, hi).Draw(t, "nmdelay")).UTC()
	frac := rapid.SampledFrom([]int{9, 3, 0, 6, 1}).Draw(t, "nmfrac")
	fr := ""
	if frac > 0 {
		fr = "." + fmt.Sprintf("%09d", at.Nanosecond())[:frac]
	}
	es := at.Format("2006-01-02 15:04:05") + fr
	rfc := at.Format("2006-01-02T15:04:05") + fr
	digits := rapid.StringMatching(`[0-9]{0,5}`).Draw(t, "nmdigits")
	var s string
	switch rapid.IntRange(0, 13).Draw(t, "nmkind") {
	case 0: // zone after the ES spelling
		s = es + rapid.SampledFrom([]string{"Z", "+03:00", "-07:30", "+00:00", " UTC", "z"}).Draw(t, "nmzone")
	case 1: // ... after more than nine fraction digits
		s = at.Format("2006-01-02 15:04:05") + "." + fmt.Sprintf("%09d", at.Nanosecond()) + digits + rapid.SampledFrom([]string{"Z", "+03:00", "x", " ", "e3", "-"}).Draw(t, "nmtail")
	case 2: // RFC 3339 without a zone
		s = rfc
	case 3: // comma as the fraction separator of the ES spelling
		s = strings.Replace(es, ".", ",", 1)
		if frac == 0 {
			s = es + ",5"
		}
	case 4: // blank around
		s = rapid.SampledFrom([]string{" ", "\t"}).Draw(t, "nmblank") + es
	case 5:
		s = rapid.SampledFrom([]string{es, rfc + "Z"}).Draw(t, "nmbase") + rapid.SampledFrom([]string{" ", "\n", "\u00a0"}).Draw(t, "nmblank")
	case 6: // lower-case separator
		s = at.Format("2006-01-02t15:04:05") + fr + "Z"
	case 7: // slashes or dots in the date
		s = at.Format(rapid.SampledFrom([]string{"2006/01/02 15:04:05", "2006.01.02 15:04:05", "02-01-2006 15:04:05", "2006-01-02_15:04:05", "2006-01-02  15:04:05"}).Draw(t, "nmdate")) + fr
	case 8: // a dot and nothing after it
		s = at.Format("2006-01-02 15:04:05") + "."
	case 9: // the fraction holds a non-digit
		s = at.Format("2006-01-02 15:04:05") + "." + rapid.SampledFrom([]string{"12a", "1 2", "-12", "+12", "1e2", "0x1"}).Draw(t, "nmfracbad")
	case 10: // zone without a colon or with seconds
		s = rfc + rapid.SampledFrom([]string{"+0300", "+03", "+03:00:00", "UTC", " Z", "+3:00"}).Draw(t, "nmzone2")
	case 11: // no seconds
		s = at.Format(rapid.SampledFrom([]string{"2006-01-02 15:04", "2006-01-02T15:04Z"}).Draw(t, "nmshort"))
	case 12: // hour 24 / second 60 / minute 60 of the same day
		s = at.Format("2006-01-02 ") + rapid.SampledFrom([]string{"24:00:00", "23:59:60", "23:60:00"}).Draw(t, "nmclock")
	default: // signs and separators inside the numbers
		s = at.Format(rapid.SampledFrom([]string{"+2006-01-02 15:04:05", "2006-01-02 15:04:05 ", "2006-1-2 15:04:05", "2006-01-02 3:04:05", "06-01-02 15:04:05"}).Draw(t, "nmnum")) + fr
	}
	if supportedTime(s) {
		return false
	}
	*out = s
	return true
}

func genDelay(t *rapid.T, o docOpts) (delay int64, exact bool) {
	D, F := o.drift, o.future
	const ms, sec, hour = int64(1e6), int64(1e9), int64(3600e9)
	if o.http {
		// the request time is the wall clock inside the handler: stay a minute away from the borders
		lo, hi := -F+60*sec, D-60*sec
		switch rapid.IntRange(0, 5).Draw(t, "hdelay") {
		case 0, 1:
			return rapid.Int64Range(0, 30*sec).Draw(t, "small"), false
		case 2:
			return rapid.Int64Range(lo, hi).Draw(t, "inrange"), false
		case 3:
			return rapid.Int64Range(lo, 0).Draw(t, "infuture"), false
		case 4:
			return D + hour + rapid.Int64Range(0, 10*365*24*hour).Draw(t, "farpast"), false
		default:
			return -F - hour - rapid.Int64Range(0, 10*365*24*hour).Draw(t, "farfuture"), false
		}
	}
	switch rapid.IntRange(0, 15).Draw(t, "ddelay") {
	case 0:
		return rapid.Int64Range(0, min(D, 5*sec)).Draw(t, "small"), false
	case 1:
		return D, true
	case 2:
		return D + ms, true
	case 3:
		return D - ms, true
	case 4:
		return D + 1, true
	case 5:
		return D - 1, true
	case 6:
		return -F, true
	case 7:
		return -F - ms, true
	case 8:
		return -F + ms, true
	case 9:
		return -F - 1, true
	case 10:
		return -F + 1, true
	case 11:
		return D + hour + rapid.Int64Range(0, 10*365*24*hour).Draw(t, "farpast"), false
	case 12:
		return -F - hour - rapid.Int64Range(0, 10*365*24*hour).Draw(t, "farfuture"), false
	case 13:
		return 0, true
	case 14:
		return rapid.Int64Range(-F, D).Draw(t, "inrange"), false
	default:
		return rapid.Int64Range(-F-10*sec, D+10*sec).Draw(t, "around"), false
	}
}

// genDoc writes one document line: a JSON object with a unique serial, 0..3 time fields
// (parseable or not), generated members and optionally a pad member that brings the line to
// an exact length.
func genDoc(t *rapid.T, serial int, o docOpts) Line {
	w := &jw{t: t, flags: map[string]bool{}}
	w.ws = rapid.SampledFrom([]int{0, 0, 0, 1, 2, 3}).Draw(t, "ws")
	w.escAll = rapid.IntRange(0, 3).Draw(t, "escall") == 3
	if o.minimal {
		w.ws = 0
	}
	l := Line{Kind: "doc"}

	type slot struct {
		kind string // n, tf, rnd, deep, pad
		name string
	}
	slots := []slot{{kind: "n"}}
	ntf := 0
	if !o.minimal || rapid.Bool().Draw(t, "mintime") {
		ntf = rapid.SampledFrom([]int{0, 1, 1, 1, 1, 2, 3}).Draw(t, "ntf")
	}
	tfNames := rapid.Permutation([]string{"timestamp", "time", "ts"}).Draw(t, "tfnames")[:ntf]
	for _, n := range tfNames {
		slots = append(slots, slot{kind: "tf", name: n})
	}
	if !o.minimal {
		nr := rapid.IntRange(0, 4).Draw(t, "nrnd")
		for i := 0; i < nr; i++ {
			slots = append(slots, slot{kind: "rnd"})
		}
		if !o.forInval && rapid.IntRange(0, 29).Draw(t, "deep") == 29 {
			slots = append(slots, slot{kind: "deep"})
		}
	}
	if o.target > 0 {
		slots = append(slots, slot{kind: "pad"})
	}
	if len(slots) > 1 && !o.minimal {
		slots = rapid.Permutation(slots).Draw(t, "order")
	}
	lead, trail := "", ""
	if !o.forInval && !o.minimal && rapid.IntRange(0, 9).Draw(t, "outerws") == 9 {
		lead = rapid.SampledFrom([]string{" ", "\t", "  "}).Draw(t, "lead")
		trail = rapid.SampledFrom([]string{"", " ", "\t"}).Draw(t, "trail")
		w.flag("outer-blanks")
	}
	w.b = append(w.b, lead...)
	used := map[string]bool{"n": true, "pad": true, "timestamp": true, "time": true, "ts": true}
	byField := map[string]TSpec{}
	w.structural('{')
	for i, s := range slots {
		if i > 0 {
			w.structural(',')
		}
		switch s.kind {
		case "n":
			w.str("n")
			w.structural(':')
			w.b = append(w.b, fmt.Sprint(serial)...)
		case "tf":
			w.str(s.name)
			w.structural(':')
			if bad := rapid.IntRange(0, 3).Draw(t, "tfbad"); bad == 3 || (bad == 2 && o.impossible != "") {
				if o.impossible != "" && bad == 2 {
					w.b = append(w.b, strconv.Quote(o.impossible)...)
					w.flag("time-impossible-calendar-date")
				} else if nm := ""; !o.http && rapid.Bool().Draw(t, "nearmiss") && genNearMiss(t, o, &nm) {
					w.b = append(w.b, strconv.Quote(nm)...)
					w.flag("time-near-miss-of-a-supported-format")
				} else {
					w.b = append(w.b, rapid.SampledFrom(badTimes).Draw(t, "badtime")...)
				}
				w.flag("time-unparsable")
				break
			}
			sp := TSpec{Field: s.name}
			if rapid.IntRange(0, 9).Draw(t, "tfabs") == 9 {
				// absolute calendar time centuries ahead of / behind the request time
				switch rapid.IntRange(0, 5).Draw(t, "absyear") {
				case 0:
					sp.AbsYear = rapid.IntRange(2300, 9999).Draw(t, "yahead")
				case 1:
					sp.AbsYear = rapid.SampledFrom([]int{2400, 2300, 2318, 2319, 2554, 3000, 9999}).Draw(t, "yahead")
				case 2:
					sp.AbsYear = rapid.IntRange(1, 1700).Draw(t, "yback")
				case 3:
					sp.AbsYear = rapid.SampledFrom([]int{1700, 1, 1677, 1678, 1492, 100, 1000}).Draw(t, "yback")
				case 4:
					sp.AbsYear = 2400
				default:
					sp.AbsYear = 1600
				}
				sp.Fmt = rapid.IntRange(0, 2).Draw(t, "tfmt")
				if sp.Fmt == 2 {
					sp.Zone = rapid.SampledFrom([]int{180, -450, 0, 345, -720, 840}).Draw(t, "zone")
				}
				sp.Frac = rapid.SampledFrom([]int{0, 3, 9, 1, 6}).Draw(t, "frac")
				txt := sp.renderAbs(rapid.IntRange(1, 12).Draw(t, "absmonth"), rapid.IntRange(1, 28).Draw(t, "absday"),
					rapid.IntRange(0, 86399).Draw(t, "abssec"), rapid.IntRange(0, 999_999_999).Draw(t, "absns"))
				sp.Off, sp.Len = len(w.b)+1, len(txt)
				w.b = append(w.b, '"')
				w.b = append(w.b, txt...)
				w.b = append(w.b, '"')
				byField[s.name] = sp
				break
			}
			var exact bool
			sp.Delay, exact = genDelay(t, o)
			sp.Fmt = rapid.IntRange(0, 2).Draw(t, "tfmt")
			if sp.Fmt == 2 {
				sp.Zone = rapid.SampledFrom([]int{180, -450, 0, 345, -720, 840}).Draw(t, "zone")
			}
			fracs := []int{9}
			for _, f := range []int{6, 3, 1, 0} {
				if !exact || (o.req-sp.Delay)%pow10(9-f) == 0 {
					fracs = append(fracs, f)
				}
			}
			sp.Frac = rapid.SampledFrom(fracs).Draw(t, "frac")
			if sp.Frac == 9 && rapid.IntRange(0, 5).Draw(t, "extrafrac") == 5 {
				sp.Extra = rapid.StringMatching(`[0-9]{1,14}`).Draw(t, "extradigits")
				w.flag("time-more-than-9-fraction-digits")
			}
			txt := sp.render(sp.docTime(o.req))
			sp.Off, sp.Len = len(w.b)+1, len(txt)
			w.b = append(w.b, '"')
			w.b = append(w.b, txt...)
			w.b = append(w.b, '"')
			byField[s.name] = sp
		case "rnd":
			w.str(w.key(used))
			w.structural(':')
			w.value(3)
		case "deep":
			w.str("deep")
			used["deep"] = true
			w.structural(':')
			w.deep(rapid.IntRange(20, 300).Draw(t, "depth"))
		case "pad":
			w.str("pad")
			w.structural(':')
			w.b = append(w.b, '"')
			l.PadAt = len(w.b)
			w.b = append(w.b, '"')
		}
	}
	w.structural('}')
	w.b = append(w.b, trail...)
	for _, f := range []string{"timestamp", "time", "ts"} {
		if sp, ok := byField[f]; ok {
			l.Times = append(l.Times, sp)
		}
	}
	l.Text = string(w.b)
	if o.target > len(l.Text) {
		l.PadLen = o.target - len(l.Text)
		for i := range l.Times {
			if l.Times[i].Off >= l.PadAt {
				l.Times[i].Off += l.PadLen
			}
		}
	}
	for f := range w.flags {
		l.Flags = append(l.Flags, f)
	}
	sort.Strings(l.Flags)
	if o.forInval && os.Getenv("C10_INCLUDE_KNOWN") == "lenient-json" && rapid.Bool().Draw(t, "lenient") {
		// not valid JSON by RFC 8259 (encoding/json.Valid says no), of the kinds a lenient decoder lets through
		bad := rapid.SampledFrom([]string{`01`, `-`, `1.`, `.5`, `+1`, `1e`, `-01`, "\"a\tb\"", "\"a\x01b\"", `"\q"`, `"\u12"`, `"\x41"`}).Draw(t, "lenientform")
		l.Text = fmt.Sprintf(`{"n":%d,"a":%s}`, serial, bad)
		if json.Valid([]byte(l.Text)) {
			panic("harness: lenient form is valid JSON: " + l.Text)
		}
		l.Kind, l.Times, l.PadAt, l.PadLen, l.Lenient = "invalid", nil, 0, 0, true
		return l
	}
	if o.forInval {
		// derive a definitely-invalid text: a proper prefix, or one structural character replaced by
		// its counterpart ({<->[, }<->], :<->,).  None of these yields "valid object + trailing
		// garbage" (the lenient decoder's grey zone): the first top-level close stays at the end.
		tooLong := o.maxLen > 0 && len(l.Text) > o.maxLen
		if tooLong || rapid.IntRange(0, 2).Draw(t, "invkind") < 2 {
			hi := len(l.Text) - 1
			if o.maxLen > 0 {
				hi = min(hi, o.maxLen)
			}
			l.Text = l.Text[:rapid.IntRange(1, hi).Draw(t, "cut")]
		} else {
			pos := w.structs[rapid.IntRange(0, len(w.structs)-1).Draw(t, "spos")]
			b := []byte(l.Text)
			b[pos] = map[byte]byte{'{': '[', '[': '{', '}': ']', ']': '}', ':': ',', ',': ':'}[b[pos]]
			l.Text = string(b)
		}
		l.Kind, l.Times, l.PadAt, l.PadLen = "invalid", nil, 0, 0
	}
	return l
}

// lenientTag marks failures of requests whose invalid line is of a form recorded as known finding
func lenientTag(lines []Line) string {
	for _, l := range lines {
		if l.Lenient {
			return ":lenient-json"
		}
	}
	return ""
}

func genConfig(t *rapid.T, c *Case) {
	c.Mapping = rapid.IntRange(0, 1).Draw(t, "mapping")
	c.Partial = rapid.Bool().Draw(t, "partial")
	c.MaxTok = rapid.SampledFrom([]int{1024, 16, 64}).Draw(t, "maxtok")
}

func genHTTP(t *rapid.T) Case {
	c := Case{Entry: "http"}
	// Changing the limit inside a process costs two forced GC cycles (10-40 ms on this box, see
	// resetReaderPool), so the limit is a function of the shard (VERIF_SHARD is configuration,
	// not entropy; the case stays self-contained and replayable in any process).
	c.MaxDoc = shardMaxDocs[shardIndex%len(shardMaxDocs)]
	genConfig(t, &c)
	dc := driftConfigs[rapid.IntRange(0, 1).Draw(t, "driftcfg")]
	c.DriftMs, c.FutureMs = dc[0], dc[1]
	c.E2E = rapid.IntRange(0, 39).Draw(t, "e2e") == 39
	M := c.MaxDoc
	nreq := rapid.SampledFrom([]int{1, 1, 1, 2, 3}).Draw(t, "nreq")
	serial := 0
	for r := 0; r < nreq; r++ {
		var q Request
		q.ReqNano = 1_700_000_000_000_000_000 + rapid.Int64Range(0, 60_000_000).Draw(t, "reqsec")*1_000_000_000
		q.Gzip = rapid.SampledFrom([]int{0, 0, 1, 2, 3}).Draw(t, "gzip")
		q.Chunk = rapid.SampledFrom([]int{0, 0, 1, 7, M - 1, M, M + 1, 4096}).Draw(t, "chunk")
		crlfMode := rapid.IntRange(0, 3).Draw(t, "crlfmode") // 0,1 LF; 2 CRLF; 3 mixed
		nl := rapid.IntRange(1, 8).Draw(t, "nlines")
		invalidAt := -1
		if rapid.IntRange(0, 4).Draw(t, "hasinvalid") == 4 {
			invalidAt = rapid.IntRange(0, nl-1).Draw(t, "invalidat")
		}
		for i := 0; i < nl; i++ {
			serial++
			o := docOpts{http: true, drift: c.DriftMs * 1e6, future: c.FutureMs * 1e6, req: q.ReqNano}
			var l Line
			kind := rapid.IntRange(0, 9).Draw(t, "linekind")
			switch {
			case i == invalidAt:
				o.forInval = true
				o.minimal = M <= 64
				o.maxLen = M - 2 // must reach the decoder: keep it inside the size limit
				l = genDoc(t, serial, o)
			case kind == 0 || kind == 1:
				l = Line{Kind: "nonobj", Text: rapid.SampledFrom(nonObjects).Draw(t, "nonobj")}
				if rapid.IntRange(0, 5).Draw(t, "bignonobj") == 5 {
					l.Text = `"` + padFill(M+rapid.IntRange(-4, 4).Draw(t, "nonobjlen")) + `"`
				}
			case kind <= 5:
				// sizes around the limit / the reader buffer
				o.target = rapid.SampledFrom([]int{M - 3, M - 2, M - 1, M, M + 1, M + 2, 2*M - 1, 2 * M, 2*M + 1, 3 * M, M / 2, 3*M + 5}).Draw(t, "target")
				o.minimal = M <= 64 || rapid.Bool().Draw(t, "minimal")
				l = genDoc(t, serial, o)
			default:
				o.minimal = M <= 64
				l = genDoc(t, serial, o)
			}
			l.Blank = rapid.SampledFrom([]int{0, 0, 0, 0, 1, 2}).Draw(t, "blank")
			if M <= 64 {
				l.Action = rapid.SampledFrom(actionsShort).Draw(t, "action")
			} else {
				l.Action = rapid.SampledFrom(append(append([]string{}, actionsShort...), actionsLong...)).Draw(t, "action")
			}
			l.CRLF = crlfMode == 2 || (crlfMode == 3 && rapid.Bool().Draw(t, "crlf"))
			q.Lines = append(q.Lines, l)
		}
		q.NoFinalNL = rapid.IntRange(0, 3).Draw(t, "nofinalnl") == 3
		if !q.NoFinalNL {
			q.TrailBlank = rapid.SampledFrom([]int{0, 0, 1, 3}).Draw(t, "trailblank")
		}
		// Known finding (replays/C10/eof-multiple-of-max.json): a final over-size line of exactly
		// k*max bytes without a line terminator makes the reader return EOF as an error and the
		// whole request is answered 500.  Excluded by construction: one more pad byte.
		last := &q.Lines[len(q.Lines)-1]
		// (repaired in /repo by a fix: commit; the exclusion stays available for trees without it)
		if os.Getenv("C10_EXCLUDE_FIXED") != "" && q.NoFinalNL && last.length() >= M && last.length()%M == 0 {
			if last.Kind == "doc" && last.PadLen > 0 {
				last.PadLen++
				for i := range last.Times {
					if last.Times[i].Off >= last.PadAt {
						last.Times[i].Off++
					}
				}
			} else {
				q.NoFinalNL = false
			}
			c.Excluded++
		}
		c.Reqs = append(c.Reqs, q)
	}
	return c
}

func genDirect(t *rapid.T) Case {
	c := Case{Entry: "direct"}
	genConfig(t, &c)
	dc := driftConfigs[rapid.IntRange(0, len(driftConfigs)-1).Draw(t, "driftcfg")]
	c.DriftMs, c.FutureMs = dc[0], dc[1]
	c.E2E = rapid.IntRange(0, 39).Draw(t, "e2e") == 39
	nreq := rapid.SampledFrom([]int{1, 1, 1, 2, 3}).Draw(t, "nreq")
	serial := 0
	for r := 0; r < nreq; r++ {
		var q Request
		q.ReqNano = 1_700_000_000_000_000_000 + rapid.Int64Range(0, 60_000_000).Draw(t, "reqsec")*1_000_000_000
		switch rapid.IntRange(0, 2).Draw(t, "align") {
		case 1:
			q.ReqNano += rapid.Int64Range(0, 999).Draw(t, "reqms") * 1_000_000
		case 2:
			q.ReqNano += rapid.Int64Range(0, 999_999_999).Draw(t, "reqns")
		}
		impossible := ""
		if rapid.IntRange(0, 7).Draw(t, "impossible") == 7 {
			// the request arrives ten minutes after the start of a month that follows a shorter one
			m := rapid.SampledFrom([][3]int{{2025, 3, 29}, {2024, 3, 30}, {2025, 5, 31}, {2026, 3, 31}, {2025, 10, 31}, {2100, 3, 29}}).Draw(t, "monthstart")
			start := time.Date(m[0], time.Month(m[1]), 1, 0, 10, 0, 0, time.UTC)
			q.ReqNano = start.UnixNano() + rapid.Int64Range(0, 999_999_999).Draw(t, "reqns2")
			back := rapid.IntRange(1, 500).Draw(t, "secondsback")
			at := start.Add(-time.Duration(back) * time.Second) // still in the new month: 00:01:40 .. 00:09:59
			impossible = fmt.Sprintf("%04d-%02d-%02d %02d:%02d:%02d", m[0], m[1]-1, m[2], at.Hour(), at.Minute(), at.Second())
		}
		q.Reuse = rapid.Bool().Draw(t, "reuse")
		nl := rapid.IntRange(1, 8).Draw(t, "nlines")
		invalidAt := -1
		if rapid.IntRange(0, 4).Draw(t, "hasinvalid") == 4 {
			invalidAt = rapid.IntRange(0, nl-1).Draw(t, "invalidat")
		}
		for i := 0; i < nl; i++ {
			serial++
			o := docOpts{drift: c.DriftMs * 1e6, future: c.FutureMs * 1e6, req: q.ReqNano, impossible: impossible}
			var l Line
			kind := rapid.IntRange(0, 19).Draw(t, "linekind")
			switch {
			case i == invalidAt:
				o.forInval = true
				l = genDoc(t, serial, o)
			case kind <= 2:
				l = Line{Kind: "nonobj", Text: rapid.SampledFrom(nonObjects).Draw(t, "nonobj")}
			case kind == 3:
				o.target = rapid.SampledFrom([]int{4096, 65536, 65537, 200_000, 1_100_000}).Draw(t, "hugetarget")
				l = genDoc(t, serial, o)
			case kind <= 8:
				o.minimal = true
				l = genDoc(t, serial, o)
			default:
				l = genDoc(t, serial, o)
			}
			q.Lines = append(q.Lines, l)
		}
		c.Reqs = append(c.Reqs, q)
	}
	return c
}

// ---------------------------------------------------------------- harness

type stored struct {
	count int
	docs  []byte
	metas []byte
}

type capture struct {
	calls []stored
	st    *harness.Store
}

func (c *capture) StoreDocuments(ctx context.Context, count int, docs, metas []byte) error {
	// the blocks live in pooled buffers: copy
	d, m := append([]byte{}, docs...), append([]byte{}, metas...)
	c.calls = append(c.calls, stored{count, d, m})
	if c.st != nil {
		return c.st.FM.Append(ctx, append([]byte{}, d...), append([]byte{}, m...))
	}
	return nil
}

func testMapping() seq.Mapping {
	kw := seq.NewSingleType(seq.TokenizerTypeKeyword, "", 0)
	tx := seq.NewSingleType(seq.TokenizerTypeText, "", 0)
	return seq.Mapping{
		"n": kw, "level": kw, "service": kw, "k8s_pod": kw, "User": kw, "X-Id": kw, "timestamp": kw, "time": tx, "ts": kw,
		"msg": tx, "message": tx, "pad": tx, "ключ": tx, "a b": kw, "Ж": tx,
		"path": seq.NewSingleType(seq.TokenizerTypePath, "", 0),
	}
}

type mapProv struct{ m seq.Mapping }

func (p mapProv) GetMapping() seq.Mapping        { return p.m }
func (p mapProv) GetRawMapping() *seq.RawMapping { return nil }

func (c Case) ingestor(cl bulk.StorageClient) *bulk.Ingestor { return c.ingestorN(cl, 2) }

func (c Case) ingestorN(cl bulk.StorageClient, inflight int) *bulk.Ingestor {
	var m seq.Mapping
	if c.Mapping == 1 {
		m = testMapping()
	}
	return bulk.NewIngestor(bulk.IngestorConfig{
		MaxInflightBulks:       inflight,
		AllowedTimeDrift:       time.Duration(c.DriftMs) * time.Millisecond,
		FutureAllowedTimeDrift: time.Duration(c.FutureMs) * time.Millisecond,
		MappingProvider:        mapProv{m},
		MaxTokenSize:           c.MaxTok,
		PartialFieldIndexing:   c.Partial,
		DocsZSTDCompressLevel:  -1,
		MetasZSTDCompressLevel: -1,
		MaxDocumentSize:        c.MaxDoc,
	}, cl)
}

// The handler keeps its line readers in a process-wide sync.Pool and a pooled reader keeps
// the buffer size it was created with, so the size limit of a handler is really the limit of
// whichever handler created the pooled reader first.  A production process has one limit;
// to stay a pure function of the case, the harness empties the pool (two GC cycles drop a
// sync.Pool's content) whenever the limit changes, and verifies the effective limit with a
// counting processor.
var poolMaxDoc int

type countProc struct{ n int }

func (p *countProc) ProcessDocuments(_ context.Context, _ time.Time, next func() ([]byte, error)) (int, error) {
	for {
		d, err := next()
		if err != nil {
			return p.n, err
		}
		if d == nil {
			return p.n, nil
		}
		p.n++
	}
}

func resetReaderPool(maxDoc int) error {
	if poolMaxDoc == maxDoc {
		return nil
	}
	runtime.GC()
	runtime.GC()
	probe := func(n int) int {
		p := &countProc{}
		h := proxyapi.NewBulkHandler(p, maxDoc)
		body := "{\"index\":{}}\n" + strings.Repeat("x", n) + "\n"
		h.ServeHTTP(httptest.NewRecorder(), httptest.NewRequest(http.MethodPost, "/_bulk", strings.NewReader(body)))
		return p.n
	}
	if a, b := probe(maxDoc-1), probe(maxDoc+1); a != 1 || b != 0 {
		// the pool is empty, so the reader was created with this handler's limit: the handler
		// itself does not honour it
		poolMaxDoc = 0
		return evid.Failf("size-limit-probe", "limit %d, fresh reader pool: a line of %d bytes was delivered %d times (want 1), a line of %d bytes %d times (want 0)", maxDoc, maxDoc-1, a, maxDoc+1, b)
	}
	poolMaxDoc = maxDoc
	return nil
}

type chunkReader struct {
	b []byte
	n int
}

func (r *chunkReader) Read(p []byte) (int, error) {
	if len(r.b) == 0 {
		return 0, io.EOF
	}
	k := min(len(p), r.n, len(r.b))
	copy(p, r.b[:k])
	r.b = r.b[k:]
	return k, nil
}

// expectation for one line of a request
type expLine struct {
	text  []byte
	must  bool // must be stored
	may   bool // at the size border: stored or skipped, never corrupted
	times []TSpec
	kind  string
}

type reqTimes struct{ lo, hi int64 } // observed request window (ns); lo == hi for the direct entry

func decodeBlock(raw []byte) ([][]byte, error) {
	if len(raw) == 0 {
		return nil, nil
	}
	bin, err := disk.DocBlock(raw).DecompressTo(nil)
	if err != nil {
		return nil, err
	}
	var out [][]byte
	for len(bin) > 0 {
		if len(bin) < 4 {
			return nil, fmt.Errorf("dangling %d bytes", len(bin))
		}
		n := int(binary.LittleEndian.Uint32(bin))
		bin = bin[4:]
		if n > len(bin) {
			return nil, fmt.Errorf("length prefix %d exceeds the remaining %d bytes", n, len(bin))
		}
		out = append(out, bin[:n:n])
		bin = bin[n:]
	}
	return out, nil
}

func abbrev(b []byte) string {
	if len(b) <= 160 {
		return fmt.Sprintf("%q", b)
	}
	return fmt.Sprintf("%q…%q (%d bytes)", b[:80], b[len(b)-60:], len(b))
}

// verifyStored compares what the storage client was handed with the expectation.
// accepted = number the entry point reported (response items / returned total).
func verifyStored(c Case, ri int, exp []expLine, calls []stored, accepted int, win reqTimes, res *evid.Result, labels map[string]bool) ([][]byte, []frac.MetaData, error) {
	if len(calls) > 1 {
		return nil, nil, evid.Failf("store-calls", "req %d: %d StoreDocuments calls for one request", ri, len(calls))
	}
	var docs [][]byte
	var metas []frac.MetaData
	if len(calls) == 1 {
		var err error
		if docs, err = decodeBlock(calls[0].docs); err != nil {
			return nil, nil, evid.Failf("docs-block", "req %d: docs block: %v", ri, err)
		}
		rawMetas, err := decodeBlock(calls[0].metas)
		if err != nil {
			return nil, nil, evid.Failf("metas-block", "req %d: metas block: %v", ri, err)
		}
		for _, rm := range rawMetas {
			var m frac.MetaData
			if !frac.IsItBinaryEncodedMetaData(rm) {
				return nil, nil, evid.Failf("metas-block", "req %d: meta without magic", ri)
			}
			if err := m.UnmarshalBinary(rm); err != nil {
				return nil, nil, evid.Failf("metas-block", "req %d: %v", ri, err)
			}
			metas = append(metas, m)
		}
		if calls[0].count != len(docs) {
			return nil, nil, evid.Failf("store-count", "req %d: StoreDocuments count=%d but the docs block holds %d documents", ri, calls[0].count, len(docs))
		}
	}
	// order-preserving match; every document line carries a unique serial
	isLine := func(d []byte) int {
		for i, e := range exp {
			if bytes.Equal(e.text, d) {
				return i
			}
		}
		return -1
	}
	j := 0
	which := make([]int, 0, len(docs))
	for i, e := range exp {
		if j < len(docs) && bytes.Equal(docs[j], e.text) {
			if !e.must && !e.may {
				return nil, nil, evid.Failf("skip-stored", "req %d line %d (%s, %d bytes) must be skipped but was stored", ri, i, e.kind, len(e.text))
			}
			which = append(which, i)
			j++
			if e.may {
				labels["border-doc:kept"] = true
			}
			continue
		}
		if e.may {
			labels["border-doc:skipped"] = true
		}
		if e.must {
			got := "nothing"
			sig := "doc-missing"
			if j < len(docs) {
				got = abbrev(docs[j])
				if isLine(docs[j]) < 0 {
					sig = "doc-corrupted"
				}
			}
			return nil, nil, evid.Failf(sig, "req %d line %d: expected stored document #%d = %s, got %s (%d stored in all)", ri, i, j, abbrev(e.text), got, len(docs))
		}
	}
	if j < len(docs) {
		sig := "doc-extra"
		if isLine(docs[j]) < 0 {
			sig = "doc-corrupted"
		}
		return nil, nil, evid.Failf(sig, "req %d: stored document #%d = %s is not the next accepted line", ri, j, abbrev(docs[j]))
	}
	if accepted != len(docs) {
		return nil, nil, evid.Failf("resp-count", "req %d: %d documents stored but %d reported as created", ri, len(docs), accepted)
	}
	if len(metas) != len(docs) {
		return nil, nil, evid.Failf("metas-count", "req %d: %d metas for %d documents (mapping has no nested fields)", ri, len(metas), len(docs))
	}
	D, F := c.DriftMs*1e6, c.FutureMs*1e6
	inDrift := func(req, dt int64) bool { d := req - dt; return d <= D && -d <= F }
	for k, m := range metas {
		e := exp[which[k]]
		if int(m.Size) != len(docs[k]) {
			return nil, nil, evid.Failf("meta-size", "req %d doc %d: meta size %d, document has %d bytes", ri, k, m.Size, len(docs[k]))
		}
		mid := int64(m.ID.MID)
		res.Evals++
		if len(e.times) == 0 {
			labels["time:receive(no parseable field)"] = true
			if mid < win.lo/1e6 || mid > win.hi/1e6 {
				return nil, nil, evid.Failf("mid-receive", "req %d doc %d %s: no parseable time field, MID %d outside the request time [%d,%d]", ri, k, abbrev(docs[k]), mid, win.lo/1e6, win.hi/1e6)
			}
			continue
		}
		sp := e.times[0]
		if sp.AbsYear != 0 {
			// centuries away from the request: outside every drift, so the receive time it is
			cls := "time-centuries-ahead"
			if sp.AbsYear < 2000 {
				cls = "time-centuries-back"
			}
			labels[cls] = true
			labels[fmt.Sprintf("%s:fmt%d", cls, sp.Fmt)] = true
			labels[fmt.Sprintf("%s:%s", cls, sp.Field)] = true
			if sp.AbsYear >= 2319 || sp.AbsYear <= 1700 {
				labels["time-distance-beyond-int64-duration"] = true
			}
			res.NonTrivial = true
			if mid < win.lo/1e6 || mid > win.hi/1e6 {
				return nil, nil, evid.Failf("mid-centuries-away", "req %d doc %d %s: time field %s is in year %d, outside every drift, but MID=%d (%s), want the request time [%d,%d]",
					ri, k, abbrev(docs[k]), sp.Field, sp.AbsYear, uint64(m.ID.MID), time.UnixMilli(mid).UTC().Format(time.RFC3339), win.lo/1e6, win.hi/1e6)
			}
			continue
		}
		dt := sp.docTime(win.lo)
		a, b := inDrift(win.lo, dt), inDrift(win.hi, dt)
		labels[fmt.Sprintf("timefield:%s", sp.Field)] = true
		labels[fmt.Sprintf("timefmt:%d/frac%d", sp.Fmt, sp.Frac)] = true
		if len(e.times) > 1 {
			labels["several-parseable-time-fields"] = true
		}
		if win.lo == win.hi {
			d := win.lo - dt
			for _, bd := range []struct {
				v    int64
				name string
			}{{D, "delay=drift"}, {D + 1, "delay=drift+1ns"}, {D - 1, "delay=drift-1ns"}, {D + 1e6, "delay=drift+1ms"}, {D - 1e6, "delay=drift-1ms"},
				{-F, "delay=-future"}, {-F - 1, "delay=-future-1ns"}, {-F + 1, "delay=-future+1ns"}, {-F - 1e6, "delay=-future-1ms"}, {-F + 1e6, "delay=-future+1ms"}} {
				if d == bd.v {
					labels[bd.name] = true
					res.NonTrivial = true
				}
			}
		}
		switch {
		case a && b:
			labels["time:own"] = true
			if mid != dt/1e6 {
				return nil, nil, evid.Failf("mid-own-time", "req %d doc %d %s: time field %s=%s is within drift (delay %dns, drift %dns, future %dns) but MID=%d, want %d (request time %d)",
					ri, k, abbrev(docs[k]), sp.Field, sp.render(dt), win.lo-dt, D, F, mid, dt/1e6, win.lo/1e6)
			}
		case !a && !b:
			labels["time:receive(out of drift)"] = true
			if mid < win.lo/1e6 || mid > win.hi/1e6 {
				return nil, nil, evid.Failf("mid-drifted", "req %d doc %d %s: time field %s=%s is outside drift (delay %dns, drift %dns, future %dns) but MID=%d, want request time [%d,%d]",
					ri, k, abbrev(docs[k]), sp.Field, sp.render(dt), win.lo-dt, D, F, mid, win.lo/1e6, win.hi/1e6)
			}
		default: // the wall clock crossed a border during the request: either is right
			if mid != dt/1e6 && (mid < win.lo/1e6 || mid > win.hi/1e6) {
				return nil, nil, evid.Failf("mid-neither", "req %d doc %d: MID=%d is neither the document time nor the request time", ri, k, mid)
			}
		}
	}
	return docs, metas, nil
}

// scanLabels derives content classes of a document line from its text.
func scanLabels(text []byte, labels map[string]bool) {
	if bytes.Contains(text, []byte(`\u`)) {
		labels["doc:u-escape"] = true
	}
	if bytes.Contains(text, []byte(`\ud8`)) {
		labels["doc:surrogate-pair"] = true
	}
	if bytes.IndexByte(text, '\r') >= 0 {
		labels["doc:inner-CR-blank"] = true
	}
	if bytes.Contains(text, []byte(`[{"k":[{"k":[`)) || bytes.Contains(text, []byte("[\r{ \"k\"")) || bytes.Contains(text, []byte(`"deep"`)) {
		labels["doc:deep-nesting"] = true
	}
	if len(text) > 0 && text[0] != '{' {
		labels["doc:outer-blanks"] = true
	}
	for _, b := range text {
		if b >= 0x80 {
			labels["doc:raw-utf8"] = true
			break
		}
	}
	for _, b := range text {
		if b >= 'A' && b <= 'Z' {
			labels["doc:upper-case"] = true
			break
		}
	}
}

// classify the expectation list for NonTrivial / labels
func classify(exp []expLine, reject bool, res *evid.Result, labels map[string]bool) {
	if reject {
		return
	}
	for i, e := range exp {
		if !e.must {
			continue
		}
		for _, k := range []int{i - 1, i + 1} {
			if k >= 0 && k < len(exp) && !exp[k].must {
				res.NonTrivial = true
				labels["stored-next-to-skipped"] = true
			}
		}
	}
}

func e2eFetch(api *harness.API, docs [][]byte, metas []frac.MetaData, ri int) error {
	if len(docs) == 0 {
		return nil
	}
	api.WaitIdle()
	ids := make([]model.ID, len(metas))
	for i, m := range metas {
		ids[i] = model.ID{MID: uint64(m.ID.MID), RID: uint64(m.ID.RID)}
	}
	out, err := api.FetchGRPC(ids, nil, nil)
	if err != nil {
		return evid.Failf("e2e-fetch", "req %d: fetch: %v", ri, err)
	}
	if len(out) != len(ids) {
		return evid.Failf("e2e-fetch", "req %d: %d entries for %d ids", ri, len(out), len(ids))
	}
	for i := range out {
		if !bytes.Equal(out[i].Body, docs[i]) {
			return evid.Failf("e2e-bytes", "req %d doc %d: fetched %s, ingested %s", ri, i, abbrev(out[i].Body), abbrev(docs[i]))
		}
	}
	return nil
}

func runCase(c Case) (res evid.Result, _ error) {
	res = evid.Result{Excluded: c.Excluded}
	labels := map[string]bool{"entry:" + c.Entry: true}
	defer func() {
		for l := range labels {
			res.Labels = append(res.Labels, l)
		}
		sort.Strings(res.Labels)
	}()
	for _, q := range c.Reqs {
		for _, l := range q.Lines {
			if l.Kind == "doc" {
				for _, f := range l.Flags {
					labels["line:"+f] = true
				}
			}
		}
	}
	if c.Entry == "http" {
		if c.MaxDoc < 32 {
			return res, fmt.Errorf("harness: max_doc %d too small for action lines", c.MaxDoc)
		}
		if err := resetReaderPool(c.MaxDoc); err != nil {
			return res, err
		}
		labels[fmt.Sprintf("maxdoc=%d", c.MaxDoc)] = true
	}
	cl := &capture{}
	var api *harness.API
	if c.E2E {
		dir := evid.ScratchDir("c10")
		defer os.RemoveAll(dir)
		st, err := harness.OpenStore(dir, harness.StoreOpts{})
		if err != nil {
			return res, err
		}
		defer st.Close()
		cl.st = st
		api = harness.NewAPI(st, "", nil)
		labels["e2e"] = true
	}
	ing := c.ingestor(cl)
	defer ing.Stop()
	var handler *proxyapi.BulkHandler
	if c.Entry == "http" {
		handler = proxyapi.NewBulkHandler(ing, c.MaxDoc)
	}
	if len(c.Reqs) > 1 {
		labels["several-requests"] = true
	}
	for ri, q := range c.Reqs {
		cl.calls = nil
		var exp []expLine
		reject := false
		var accepted int
		var win reqTimes
		M := c.MaxDoc
		if c.Entry == "http" {
			t0 := time.Now()
			var body []byte
			for li, l := range q.Lines {
				nl := "\n"
				if l.CRLF {
					nl = "\r\n"
					labels["crlf"] = true
				}
				for b := 0; b < l.Blank; b++ {
					body = append(body, nl...)
					labels["blank-lines"] = true
				}
				body = append(body, l.Action...)
				body = append(body, nl...)
				text := l.expand()
				for _, sp := range l.Times {
					if sp.AbsYear != 0 {
						continue // absolute calendar time: independent of the wall clock
					}
					s := sp.render(sp.docTime(t0.UnixNano()))
					if len(s) != sp.Len || sp.Off+sp.Len > len(text) {
						return res, fmt.Errorf("harness: time field re-rendered with another length (%q vs %d)", s, sp.Len)
					}
					copy(text[sp.Off:], s)
				}
				e := expLine{text: text, times: l.Times, kind: l.Kind}
				L := len(text)
				switch l.Kind {
				case "doc":
					scanLabels(text, labels)
					switch {
					case L <= M: // "documents larger than this will be skipped": a document of exactly the limit is not larger
						e.must = true
					}
					for _, d := range []int{-3, -2, -1, 0, 1, 2} {
						if L == M+d {
							labels[fmt.Sprintf("doclen=max%+d", d)] = true
						}
					}
					if L > M && L%M <= 1 || L%M == M-1 {
						labels["doclen~k*max"] = true
					}
					if L > M {
						labels["oversize-doc"] = true
					}
				case "nonobj":
					labels["nonobj-line"] = true
				case "invalid":
					if L > M-2 || L == 0 {
						return res, fmt.Errorf("harness: invalid line of %d bytes would not reach the decoder (max %d)", L, M)
					}
					reject = true
					labels["invalid-line"] = true
					labels[fmt.Sprintf("invalid-at:%s", map[bool]string{true: "last", false: "inner"}[li == len(q.Lines)-1])] = true
				}
				exp = append(exp, e)
				body = append(body, text...)
				if li < len(q.Lines)-1 || !q.NoFinalNL {
					body = append(body, nl...)
				} else {
					labels["no-final-newline"] = true
				}
			}
			for b := 0; b < q.TrailBlank; b++ {
				body = append(body, '\n')
			}
			wire := body
			hdr := http.Header{}
			if q.Gzip > 0 {
				var zb bytes.Buffer
				zw, _ := gzip.NewWriterLevel(&zb, []int{gzip.BestSpeed, gzip.DefaultCompression, gzip.NoCompression}[q.Gzip-1])
				_, _ = zw.Write(body)
				_ = zw.Close()
				wire = zb.Bytes()
				hdr.Set("Content-Encoding", "gzip")
				labels["gzip"] = true
			}
			var rd io.Reader = bytes.NewReader(wire)
			if q.Chunk > 0 {
				rd = &chunkReader{b: wire, n: q.Chunk}
				labels["chunked-body"] = true
			}
			req := httptest.NewRequest(http.MethodPost, "/_bulk", rd)
			req.Header = hdr
			w := httptest.NewRecorder()
			handler.ServeHTTP(w, req)
			t1 := time.Now()
			// the handler reads the clock between t0 and t1
			win = reqTimes{t0.UnixNano(), t1.UnixNano()}
			ok2xx := w.Code >= 200 && w.Code < 300
			if reject {
				if ok2xx {
					return res, evid.Failf("invalid-accepted"+lenientTag(q.Lines), "req %d: body with an invalid JSON document line answered %d %s", ri, w.Code, abbrev(w.Body.Bytes()))
				}
				if len(cl.calls) != 0 {
					return res, evid.Failf("invalid-stored", "req %d: rejected request (%d) still made %d StoreDocuments calls", ri, w.Code, len(cl.calls))
				}
				labels["outcome:rejected"] = true
				res.Evals++
				continue
			}
			if w.Code != http.StatusOK {
				return res, evid.Failf("valid-rejected", "req %d: valid body answered %d %s; body=%s", ri, w.Code, abbrev(w.Body.Bytes()), abbrev(body))
			}
			var resp struct {
				Took   *int64 `json:"took"`
				Errors *bool  `json:"errors"`
				Items  []struct {
					Create *struct {
						Status int `json:"status"`
					} `json:"create"`
				} `json:"items"`
			}
			if err := json.Unmarshal(w.Body.Bytes(), &resp); err != nil || resp.Errors == nil || *resp.Errors {
				return res, evid.Failf("resp-format", "req %d: response %s (%v)", ri, abbrev(w.Body.Bytes()), err)
			}
			for _, it := range resp.Items {
				if it.Create == nil || it.Create.Status != 201 {
					return res, evid.Failf("resp-format", "req %d: response item is not a created item: %s", ri, abbrev(w.Body.Bytes()))
				}
			}
			accepted = len(resp.Items)
		} else {
			win = reqTimes{q.ReqNano, q.ReqNano}
			var srcs [][]byte
			for _, l := range q.Lines {
				text := l.expand()
				e := expLine{text: text, times: l.Times, kind: l.Kind}
				switch l.Kind {
				case "doc":
					e.must = true
					scanLabels(text, labels)
					if len(text) > 65536 {
						labels["huge-doc"] = true
					}
				case "nonobj":
					labels["nonobj-line"] = true
				case "invalid":
					reject = true
					labels["invalid-line"] = true
				}
				exp = append(exp, e)
				srcs = append(srcs, append([]byte{}, text...))
			}
			var buf []byte
			i := 0
			next := func() ([]byte, error) {
				if i >= len(srcs) {
					return nil, nil
				}
				d := srcs[i]
				i++
				if q.Reuse {
					buf = append(buf[:0], d...)
					return buf[:len(d):len(d)], nil
				}
				return d, nil
			}
			if q.Reuse {
				labels["reused-read-buffer"] = true
			}
			total, err := ing.ProcessDocuments(context.Background(), time.Unix(0, q.ReqNano).UTC(), next)
			if reject {
				if err == nil {
					return res, evid.Failf("invalid-accepted"+lenientTag(q.Lines), "req %d: an invalid JSON document was accepted (total=%d)", ri, total)
				}
				if len(cl.calls) != 0 {
					return res, evid.Failf("invalid-stored", "req %d: rejected request (%v) still made %d StoreDocuments calls", ri, err, len(cl.calls))
				}
				labels["outcome:rejected"] = true
				res.Evals++
				continue
			}
			if err != nil {
				return res, evid.Failf("valid-rejected", "req %d: valid documents rejected: %v", ri, err)
			}
			for k, l := range q.Lines {
				if !bytes.Equal(srcs[k], l.expand()) {
					return res, fmt.Errorf("harness: caller's document %d was modified in place", k)
				}
			}
			accepted = total
		}
		classify(exp, reject, &res, labels)
		docs, metas, err := verifyStored(c, ri, exp, cl.calls, accepted, win, &res, labels)
		if err != nil {
			return res, err
		}
		switch {
		case len(docs) == 0:
			labels["outcome:nothing-stored"] = true
		case len(docs) == len(exp):
			labels["outcome:all-stored"] = true
		default:
			labels["outcome:some-skipped"] = true
		}
		if api != nil {
			if err := e2eFetch(api, docs, metas, ri); err != nil {
				return res, err
			}
		}
	}
	return res, nil
}

// ---------------------------------------------------------------- native fuzzing (thorough tier)

const fuzzMaxDoc = 64

// fuzzOne sends arbitrary bytes as a /_bulk body.  The oracle makes no assumption about what
// the lenient decoder accepts: whatever was stored must be a verbatim line of the body, in
// body order, not longer than the limit, counted exactly by the response and by the metas, timed
// inside [request-drift, request+future]; a non-200 answer must have stored nothing.
func fuzzOne(sel byte, body []byte) error {
	if err := resetReaderPool(fuzzMaxDoc); err != nil {
		return err
	}
	c := Case{Entry: "http", MaxDoc: fuzzMaxDoc, Mapping: int(sel>>3) & 1, Partial: sel&16 != 0, MaxTok: 16, DriftMs: 86_400_000, FutureMs: 300_000}
	cl := &capture{}
	ing := c.ingestor(cl)
	defer ing.Stop()
	h := proxyapi.NewBulkHandler(ing, fuzzMaxDoc)
	wire, hdr := body, http.Header{}
	if sel&1 != 0 {
		var zb bytes.Buffer
		zw := gzip.NewWriter(&zb)
		_, _ = zw.Write(body)
		_ = zw.Close()
		wire = zb.Bytes()
		hdr.Set("Content-Encoding", "gzip")
	}
	var rd io.Reader = bytes.NewReader(wire)
	if k := []int{0, 1, 7, fuzzMaxDoc - 1}[int(sel>>1)&3]; k > 0 {
		rd = &chunkReader{b: wire, n: k}
	}
	req := httptest.NewRequest(http.MethodPost, "/_bulk", rd)
	req.Header = hdr
	w := httptest.NewRecorder()
	t0 := time.Now()
	h.ServeHTTP(w, req)
	t1 := time.Now()
	if w.Code != http.StatusOK {
		if len(cl.calls) != 0 {
			return evid.Failf("fuzz-rejected-stored", "status %d but %d StoreDocuments calls", w.Code, len(cl.calls))
		}
		return nil
	}
	var resp struct {
		Errors *bool             `json:"errors"`
		Items  []json.RawMessage `json:"items"`
	}
	if err := json.Unmarshal(w.Body.Bytes(), &resp); err != nil || resp.Errors == nil || *resp.Errors {
		return evid.Failf("fuzz-resp-format", "response %s (%v)", abbrev(w.Body.Bytes()), err)
	}
	if len(cl.calls) > 1 {
		return evid.Failf("fuzz-store-calls", "%d StoreDocuments calls", len(cl.calls))
	}
	var docs, metas [][]byte
	if len(cl.calls) == 1 {
		var err error
		if docs, err = decodeBlock(cl.calls[0].docs); err != nil {
			return evid.Failf("fuzz-docs-block", "%v", err)
		}
		if metas, err = decodeBlock(cl.calls[0].metas); err != nil {
			return evid.Failf("fuzz-metas-block", "%v", err)
		}
		if cl.calls[0].count != len(docs) {
			return evid.Failf("fuzz-store-count", "count=%d, %d documents in the block", cl.calls[0].count, len(docs))
		}
	}
	if len(resp.Items) != len(docs) {
		return evid.Failf("fuzz-resp-count", "%d items in the response, %d documents stored", len(resp.Items), len(docs))
	}
	if len(metas) != len(docs) {
		return evid.Failf("fuzz-metas-count", "%d metas, %d documents", len(metas), len(docs))
	}
	// lines as bufio.ReadLine delimits them: split at LF, one CR before the LF dropped
	lines := bytes.Split(body, []byte{'\n'})
	for i := range lines[:len(lines)-1] {
		lines[i] = bytes.TrimSuffix(lines[i], []byte{'\r'})
	}
	li := 0
	for k, d := range docs {
		// a final unterminated line of exactly the limit is kept when the body reader reports
		// EOF together with the last bytes (border: kept or skipped, see the main check)
		if len(d) == 0 || len(d) > fuzzMaxDoc {
			return evid.Failf("fuzz-doc-size", "stored document %d has %d bytes (limit %d)", k, len(d), fuzzMaxDoc)
		}
		for li < len(lines) && !bytes.Equal(lines[li], d) {
			li++
		}
		if li == len(lines) {
			return evid.Failf("fuzz-doc-not-a-line", "stored document %d = %s is not a (later) line of the body %s", k, abbrev(d), abbrev(body))
		}
		li++
		var m frac.MetaData
		if !frac.IsItBinaryEncodedMetaData(metas[k]) || m.UnmarshalBinary(metas[k]) != nil {
			return evid.Failf("fuzz-metas-block", "meta %d does not decode", k)
		}
		if int(m.Size) != len(d) {
			return evid.Failf("fuzz-meta-size", "meta %d size %d, document %d bytes", k, m.Size, len(d))
		}
		lo, hi := t0.UnixMilli()-c.DriftMs-1, t1.UnixMilli()+c.FutureMs+1
		if mid := int64(m.ID.MID); mid < lo || mid > hi {
			return evid.Failf("fuzz-mid-range", "document %d %s: MID %d outside [request-drift, request+future] = [%d,%d]", k, abbrev(d), mid, lo, hi)
		}
	}
	return nil
}

func FuzzBulkBody(f *testing.F) {
	now := time.Now().UTC()
	seeds := []string{
		"{\"create\":{}}\n{\"level\": \"info\"}",
		"{\"create\":{}}\n{\"level\": \"info\"}\n{\"create\":{}}\n{\"level\": \"info\"}\n",
		"\n\n{\"create\":{}}\n\n{\"level\": \"info\"}\n\n",
		`{"invalid action"}`,
		"{\"create\":{}}\n" + strings.Repeat("a", fuzzMaxDoc+1),
		"{\"index\":{}}\r\n{\"a\":\"B\"}\r\n{\"index\":{}}\r\n123\r\n{\"index\":{}}\r\n{\"a\":\r\n",
		"{\"index\":{}}\n{\"a\":1}\n{\"index\":{}}\n{\"pad\":\"" + strings.Repeat("X", fuzzMaxDoc-10) + "\"}",
		"{\"index\":{}}\n{\"a\":1}\n{\"index\":{}}\n{\"pad\":\"" + strings.Repeat("X", fuzzMaxDoc-11) + "\"}\r\n{\"index\":{}}\n{\"b\":2}\n",
		"{\"index\":{}}\n{\"timestamp\":\"" + now.Format(time.RFC3339Nano) + "\",\"M\":\"Ünï Ж\"}\n",
		"{\"index\":{}}\n{\"ts\":\"" + now.Add(-48*time.Hour).Format("2006-01-02 15:04:05.000") + "\"}\n{\"index\":{}}\n{\"time\":\"" + now.Add(time.Hour).Format(time.RFC3339) + "\"}\n",
		"{\"index\":{}}\n{\"a\":\"\\ud83d\\ude00 \\u0130 \\\" \\\\\"}\n{\"index\":{}}\n[1,2]\n{\"index\":{}}\nnull\n",
		"{\"index\":{}}\n{\"a\":1}}\n", "{\"index\":{}}\n{\"a\":1} x\n", "{\"index\":{}}\n{\"a\":01,\"a\":.5}\n", "{\"index\":{}}\n{\"a\":\"\xff\xfe\"}\n",
		"{\"index\":{}}\n", "{\"index\":{}}", "", "\r\n\r\n", "{\"index\":{}}\n\n{\"a\":1}\n",
	}
	for i, s := range seeds {
		f.Add(byte(i), []byte(s))
		f.Add(byte(i*7+1), []byte(s))
	}
	f.Fuzz(func(t *testing.T, sel byte, body []byte) {
		if len(body) > 4096 {
			return
		}
		if err := fuzzOne(sel, body); err != nil {
			t.Fatalf("%v", err)
		}
	})
}

func TestPropHTTP(t *testing.T)     { evid.Check(t, genHTTP, runCase) }
func TestReplayHTTP(t *testing.T)   { evid.Replay(t, runCase) }
func TestPropDirect(t *testing.T)   { evid.Check(t, genDirect, runCase) }
func TestReplayDirect(t *testing.T) { evid.Replay(t, runCase) }
