package c09

// The same rule - a bulk is acknowledged only when a full replica set of the hot tier (and of the
// long-term tier, if there is one) holds it - through the real executable started in proxy mode
// with the topology given as command-line flags (--hot-stores, --hot-replicas, --write-stores,
// --read-stores, --replicas), as deployments give it.  The stores are gRPC servers inside the test
// that record what they are handed or refuse it.  What a shard is follows from the documented
// meaning of the flags: the host lists are cut into consecutive groups of --hot-replicas
// (--replicas when that is not set) resp. --replicas hosts.

import (
	"fmt"
	"strings"
	"testing"

	"pgregory.net/rapid"

	"verif/internal/evid"
	"verif/internal/harness"
)

type WiringCase struct {
	HotShards   int `json:"hot_shards"`
	HotReplicas int `json:"hot_replicas"` // 0: the flag is not given, --replicas applies
	Replicas    int `json:"replicas"`
	ColdShards  int `json:"cold_shards"` // 0: no long-term tier
	// Down: bit i = the i-th host (hot hosts first, then long-term hosts) refuses every bulk
	Down uint32 `json:"down,omitempty"`
}

func (c WiringCase) hotReps() int {
	if c.HotReplicas > 0 {
		return c.HotReplicas
	}
	return c.Replicas
}

func genWiring(t *rapid.T) WiringCase {
	c := WiringCase{
		HotShards:  rapid.IntRange(1, 3).Draw(t, "hot_shards"),
		Replicas:   rapid.IntRange(1, 3).Draw(t, "replicas"),
		ColdShards: rapid.SampledFrom([]int{0, 1, 2, 1}).Draw(t, "cold_shards"),
	}
	if rapid.Bool().Draw(t, "hot_replicas_given") {
		c.HotReplicas = rapid.IntRange(1, 3).Draw(t, "hot_replicas")
	}
	n := c.HotShards*c.hotReps() + c.ColdShards*c.Replicas
	switch rapid.IntRange(0, 3).Draw(t, "downkind") {
	case 0: // everything up
	case 1: // one host down
		c.Down = 1 << rapid.IntRange(0, n-1).Draw(t, "downhost")
	case 2: // one host of every second position: hits every shard when the groups are cut wrongly
		for i := rapid.IntRange(0, 1).Draw(t, "phase"); i < n; i += 2 {
			c.Down |= 1 << i
		}
	default:
		c.Down = rapid.Uint32Range(0, 1<<n-1).Draw(t, "down")
	}
	return c
}

func runWiring(c WiringCase) (evid.Result, error) {
	res := evid.Result{}
	if c.HotShards < 1 || c.HotShards > 4 || c.Replicas < 1 || c.Replicas > 4 || c.HotReplicas < 0 || c.HotReplicas > 4 || c.ColdShards < 0 || c.ColdShards > 4 {
		return res, fmt.Errorf("case outside the domain")
	}
	nHot, nCold := c.HotShards*c.hotReps(), c.ColdShards*c.Replicas
	var fakes []*harness.FakeStore
	defer func() {
		for _, f := range fakes {
			f.Stop()
		}
	}()
	var addrs []string
	for i := 0; i < nHot+nCold; i++ {
		f, err := harness.StartFakeStore(c.Down&(1<<i) != 0)
		if err != nil {
			return res, err
		}
		fakes = append(fakes, f)
		addrs = append(addrs, f.Addr)
	}
	flags := []string{"--mode=proxy", "--mapping=auto", fmt.Sprintf("--replicas=%d", c.Replicas),
		"--hot-stores=" + strings.Join(addrs[:nHot], ","), "--bulk-shard-timeout=60s"}
	if c.HotReplicas > 0 {
		flags = append(flags, fmt.Sprintf("--hot-replicas=%d", c.HotReplicas))
	}
	if nCold > 0 {
		cold := strings.Join(addrs[nHot:], ",")
		flags = append(flags, "--write-stores="+cold, "--read-stores="+cold)
	}
	b, err := harness.StartBinary(flags...)
	if err != nil {
		return res, evid.Failf("no-start", "%v", err)
	}
	defer b.Kill()
	code, body, err := b.PostBulk([]byte("{\"index\":{}}\n{\"message\":\"wiring\",\"n\":1}\n"))
	if err != nil {
		if !b.Alive() {
			return res, evid.Failf("proxy-died", "the proxy process died while handling a bulk: %s", b.Tail())
		}
		return res, fmt.Errorf("harness: POST /_bulk: %v", err)
	}
	ack := code >= 200 && code < 300
	// shards by the documented meaning of the flags
	fullShard := func(from, shards, reps int) (bool, string) {
		var desc []string
		full := false
		for s := 0; s < shards; s++ {
			held := 0
			for r := 0; r < reps; r++ {
				if fakes[from+s*reps+r].Held() > 0 {
					held++
				}
			}
			desc = append(desc, fmt.Sprintf("shard %d: %d/%d", s, held, reps))
			if held == reps {
				full = true
			}
		}
		return full, strings.Join(desc, ", ")
	}
	hotFull, hotDesc := fullShard(0, c.HotShards, c.hotReps())
	coldFull, coldDesc := true, ""
	if nCold > 0 {
		coldFull, coldDesc = fullShard(nHot, c.ColdShards, c.Replicas)
	}
	topo := fmt.Sprintf("--replicas=%d --hot-replicas=%d, %d hot hosts, %d long-term hosts, down mask %b", c.Replicas, c.HotReplicas, nHot, nCold, c.Down)
	if ack && !hotFull {
		return res, evid.Failf("ack_without_full_hot_shard", "[%s] the bulk was acknowledged (%d), but no hot shard holds it on all its replicas (%s)", topo, code, hotDesc)
	}
	if ack && !coldFull {
		return res, evid.Failf("ack_without_full_cold_shard", "[%s] the bulk was acknowledged (%d), but no long-term shard holds it on all its replicas (%s)", topo, code, coldDesc)
	}
	// the other direction, where it is unambiguous: nothing is down, so the bulk must be accepted
	if !ack && c.Down == 0 {
		return res, evid.Failf("refused_with_all_stores_up", "[%s] answered %d %s", topo, code, abbrevBody(body))
	}
	res.Evals = 1
	res.Labels = append(res.Labels, map[bool]string{true: "acknowledged", false: "refused"}[ack])
	if c.HotReplicas > 0 && c.HotReplicas != c.Replicas {
		res.Labels = append(res.Labels, "hot-replicas-differs-from-replicas")
	}
	if nCold > 0 {
		res.Labels = append(res.Labels, "long-term-tier")
	}
	res.NonTrivial = c.Down != 0 || (c.HotReplicas > 0 && c.HotReplicas != c.Replicas)
	return res, nil
}

func abbrevBody(b []byte) string {
	if len(b) > 300 {
		return string(b[:300]) + "…"
	}
	return string(b)
}

func TestPropWiring(t *testing.T)   { evid.Check(t, genWiring, runWiring) }
func TestReplayWiring(t *testing.T) { evid.Replay(t, runWiring) }
