// C09: a bulk is acknowledged only when a full replica set holds it in every tier.
//
// The real bulk.SeqDBClient (retry loop, shard shuffling, per-replica written-status table,
// real circuit breakers) runs against scripted fake StoreApiClients.  Every fake logs each
// Bulk call it receives (payload bytes, result).  The oracle reads nothing but that log and
// the value StoreDocuments returned.
//
// math/rand: util.IdxShuffle uses the global source.  With go >= 1.24 in go.mod rand.Seed
// is a no-op unless randseednop=0, hence the directive below; the oracle itself does not
// depend on the shard order, the seed only makes replays take the same path.
//
//go:debug randseednop=0
package c09

import (
	"bytes"
	"context"
	"fmt"
	"math/rand"
	"sort"
	"strings"
	"sync"
	"testing"
	"time"

	dto "github.com/prometheus/client_model/go"
	"google.golang.org/grpc"
	"google.golang.org/grpc/codes"
	"google.golang.org/grpc/status"
	"google.golang.org/protobuf/types/known/emptypb"
	"pgregory.net/rapid"

	"github.com/ozontech/seq-db/consts"
	"github.com/ozontech/seq-db/metric"
	"github.com/ozontech/seq-db/network/circuitbreaker"
	"github.com/ozontech/seq-db/pkg/storeapi"
	"github.com/ozontech/seq-db/proxy/bulk"
	"github.com/ozontech/seq-db/proxy/stores"

	"verif/internal/evid"
)

// scripted outcomes of one Bulk call on one replica
const (
	oOK      = 0 // accept: return success
	oErr     = 1 // return Unavailable at once
	oTimeout = 2 // block until the call context is done (the breaker's timeout), return its error
	oCancel  = 3 // the caller goes away: cancel the request context, then as oTimeout
	nOutcome = 4
)

// logged results
const (
	rOK = iota
	rErr
	rTimeout
	rCancel
	rCtxDone // context was already done when the call arrived: refused like a gRPC client does
)

const breakerTimeout = 20 * time.Millisecond

type Replica struct {
	Script []int `json:"script"` // outcome of the k-th Bulk call on this replica
	Rest   int   `json:"rest"`   // outcome of every call beyond the script
}

type Bulk struct {
	Count int    `json:"count"`
	Docs  []byte `json:"docs"`
	Metas []byte `json:"metas"`
}

type Case struct {
	Hot       [][]Replica `json:"hot"`  // shards x replicas
	Cold      [][]Replica `json:"cold"` // empty: no long-term tier
	Bulks     []Bulk      `json:"bulks"`
	Threshold int64       `json:"threshold"` // breaker RequestVolumeThreshold: 1 = opens on the first failure, 2, 101 = never opens
	SleepMs   int         `json:"sleep_ms"`  // breaker SleepWindow (half-open probe after that long)
	Seed      int64       `json:"seed"`      // math/rand seed (shard order)
}

// ---------------------------------------------------------------- generator

func genOutcome(t *rapid.T, okPct int, allowCancel bool) int {
	u := rapid.IntRange(0, 99).Draw(t, "u")
	if u < okPct {
		return oOK
	}
	// the failing remainder: 65 % error, 30 % timeout, 5 % caller cancels
	f := (u - okPct) * 100 / (100 - okPct)
	switch {
	case f < 65:
		return oErr
	case f < 95 || !allowCancel:
		return oTimeout
	default:
		return oCancel
	}
}

func genTier(t *rapid.T, shards, reps, maxCalls, okPct int) [][]Replica {
	tier := make([][]Replica, shards)
	for s := range tier {
		tier[s] = make([]Replica, reps)
		for r := range tier[s] {
			n := rapid.IntRange(0, maxCalls).Draw(t, "scriptlen")
			sc := make([]int, n)
			for k := range sc {
				sc[k] = genOutcome(t, okPct, true)
			}
			tier[s][r] = Replica{Script: sc, Rest: genOutcome(t, okPct, false)}
		}
	}
	return tier
}

func genCase(t *rapid.T) Case {
	var c Case
	hs := rapid.IntRange(1, 3).Draw(t, "hot_shards")
	hr := rapid.IntRange(1, 3).Draw(t, "hot_replicas")
	cs := rapid.IntRange(0, 3).Draw(t, "cold_shards")
	cr := 1
	if cs > 0 {
		cr = rapid.IntRange(1, 3).Draw(t, "cold_replicas")
	}
	nb := []int{1, 1, 1, 2, 2, 3}[rapid.IntRange(0, 5).Draw(t, "nbulks")]
	okPct := []int{85, 65, 45, 25}[rapid.IntRange(0, 3).Draw(t, "failrate")]
	c.Threshold = []int64{101, 1, 1, 2}[rapid.IntRange(0, 3).Draw(t, "threshold")]
	c.SleepMs = []int{3_600_000, 40, 5}[rapid.IntRange(0, 2).Draw(t, "sleep")]
	c.Seed = int64(rapid.IntRange(0, 9999).Draw(t, "seed"))
	maxCalls := consts.BulkMaxTries * nb
	c.Hot = genTier(t, hs, hr, maxCalls, okPct)
	if cs > 0 {
		c.Cold = genTier(t, cs, cr, maxCalls, okPct)
	}
	for b := 0; b < nb; b++ {
		docs := rapid.SliceOfN(rapid.ByteRange('a', 'c'), 0, 12).Draw(t, "docs")
		metas := rapid.SliceOfN(rapid.ByteRange('a', 'c'), 0, 6).Draw(t, "metas")
		// payloads of one case are pairwise distinct (they may share docs or be prefixes)
		metas = append(metas, byte('0'+b))
		c.Bulks = append(c.Bulks, Bulk{Count: rapid.IntRange(1, 3).Draw(t, "count"), Docs: docs, Metas: metas})
	}
	return c
}

// ---------------------------------------------------------------- fakes and call log

type entry struct {
	seq     int // order of arrival
	tier    int // 0 hot, 1 cold
	shard   int
	rep     int
	k       int // ordinal of this call on this replica
	group   int // identity of the call context: one breaker execution of one shard
	derived bool
	window  int // bulk that was being stored when the call arrived
	pay     int // bulk whose payload this call carries byte for byte, -1: none
	reqDone bool
	res     int
	done    bool
}

type callLog struct {
	mu      sync.Mutex
	c       *Case
	entries []*entry
	groups  map[context.Context]int
	window  int
	reqCtx  context.Context
	cancel  context.CancelFunc
	stuck   bool
}

func (l *callLog) begin(b int, ctx context.Context, cancel context.CancelFunc) {
	l.mu.Lock()
	defer l.mu.Unlock()
	l.window, l.reqCtx, l.cancel = b, ctx, cancel
}

type fake struct {
	storeapi.StoreApiClient // nil: any other method panics, the bulk client must not call them
	log                     *callLog
	tier, shard, rep        int
	sc                      Replica
	n                       int
}

func (f *fake) Bulk(ctx context.Context, in *storeapi.BulkRequest, _ ...grpc.CallOption) (*emptypb.Empty, error) {
	l := f.log
	l.mu.Lock()
	e := &entry{seq: len(l.entries), tier: f.tier, shard: f.shard, rep: f.rep, k: f.n, window: l.window, pay: -1}
	f.n++
	g, ok := l.groups[ctx]
	if !ok {
		g = len(l.groups)
		l.groups[ctx] = g
	}
	e.group = g
	e.derived = ctx != l.reqCtx
	for b, bl := range l.c.Bulks {
		if in != nil && in.Count == int64(bl.Count) && bytes.Equal(in.Docs, bl.Docs) && bytes.Equal(in.Metas, bl.Metas) {
			e.pay = b
		}
	}
	e.reqDone = l.reqCtx.Err() != nil
	out := f.sc.Rest
	if e.k < len(f.sc.Script) {
		out = f.sc.Script[e.k]
	}
	cancel := l.cancel
	l.entries = append(l.entries, e)
	l.mu.Unlock()

	finish := func(res int) {
		l.mu.Lock()
		e.res, e.done = res, true
		l.mu.Unlock()
	}
	wait := func() error {
		select {
		case <-ctx.Done():
		case <-time.After(10 * time.Second):
			l.mu.Lock()
			l.stuck = true
			l.mu.Unlock()
			return status.Error(codes.DeadlineExceeded, "scripted: call context never ended")
		}
		return status.FromContextError(ctx.Err()).Err()
	}
	if ctx.Err() != nil {
		finish(rCtxDone)
		return nil, status.FromContextError(ctx.Err()).Err()
	}
	switch out {
	case oOK:
		finish(rOK)
		return &emptypb.Empty{}, nil
	case oTimeout:
		err := wait()
		finish(rTimeout)
		return nil, err
	case oCancel:
		cancel()
		err := wait()
		finish(rCancel)
		return nil, err
	default:
		finish(rErr)
		return nil, status.Error(codes.Unavailable, "scripted failure")
	}
}

// ---------------------------------------------------------------- run + oracle

var tierName = [2]string{"hot", "cold"}

func hostName(tier, s, r int) string { return fmt.Sprintf("%s-s%d-r%d:9002", tierName[tier], s, r) }

func checkTier(name string, t [][]Replica, minShards int) error {
	if len(t) < minShards || len(t) > 3 {
		return fmt.Errorf("%s: %d shards", name, len(t))
	}
	for _, sh := range t {
		if len(sh) < 1 || len(sh) > 3 || len(sh) != len(t[0]) {
			return fmt.Errorf("%s: replica counts must be uniform and 1..3", name)
		}
		for _, r := range sh {
			for _, o := range append(append([]int{}, r.Script...), r.Rest) {
				if o < 0 || o >= nOutcome {
					return fmt.Errorf("%s: outcome %d", name, o)
				}
			}
			if r.Rest == oCancel {
				return fmt.Errorf("%s: rest must not be cancel", name)
			}
		}
	}
	return nil
}

func counterValue(name, kind string) float64 {
	var m dto.Metric
	if err := metric.CircuitBreakerErr.WithLabelValues(name, kind).Write(&m); err != nil {
		return 0
	}
	return m.GetCounter().GetValue()
}

func runCase(c Case) (evid.Result, error) {
	var res evid.Result
	if err := checkTier("hot", c.Hot, 1); err != nil {
		return res, evid.Failf("bad_case", "%v", err)
	}
	if err := checkTier("cold", c.Cold, 0); err != nil {
		return res, evid.Failf("bad_case", "%v", err)
	}
	if len(c.Bulks) < 1 || len(c.Bulks) > 4 || c.Threshold < 1 || c.SleepMs < 1 {
		return res, evid.Failf("bad_case", "bulks/threshold/sleep out of range")
	}
	for i, a := range c.Bulks {
		for _, b := range c.Bulks[:i] {
			if a.Count == b.Count && bytes.Equal(a.Docs, b.Docs) && bytes.Equal(a.Metas, b.Metas) {
				return res, evid.Failf("bad_case", "payloads must be pairwise distinct")
			}
		}
	}

	circuitbreaker.VerifResetManager() // breakers are process-global by name
	rand.Seed(c.Seed)                  //nolint:staticcheck // pins util.IdxShuffle (global source)

	lg := &callLog{c: &c, groups: map[context.Context]int{}}
	clients := map[string]storeapi.StoreApiClient{}
	tiers := [2][][]Replica{c.Hot, c.Cold}
	var hostList [2][]string
	var breakerNames []string
	for ti, t := range tiers {
		for s, sh := range t {
			breakerNames = append(breakerNames, fmt.Sprintf("bulk_%s-shard-%d", [2]string{"hot", "write"}[ti], s))
			for r, rp := range sh {
				h := hostName(ti, s, r)
				hostList[ti] = append(hostList[ti], h)
				clients[h] = &fake{log: lg, tier: ti, shard: s, rep: r, sc: rp}
			}
		}
	}
	hot := stores.NewStoresFromString(strings.Join(hostList[0], ","), len(c.Hot[0]))
	coldReps := 1
	if len(c.Cold) > 0 {
		coldReps = len(c.Cold[0])
	}
	cold := stores.NewStoresFromString(strings.Join(hostList[1], ","), coldReps)

	pct := int64(1)
	if c.Threshold > 100 {
		pct = 50
	}
	cfg := circuitbreaker.Config{
		Timeout:                  breakerTimeout,
		MaxConcurrent:            int64(consts.IngestorMaxInflightBulks),
		NumBuckets:               10,
		BucketWidth:              time.Second,
		RequestVolumeThreshold:   c.Threshold,
		ErrorThresholdPercentage: pct,
		SleepWindow:              time.Duration(c.SleepMs) * time.Millisecond,
	}
	short0 := 0.0
	for _, n := range breakerNames {
		short0 += counterValue(n, "short_circuit")
	}

	client := bulk.NewSeqDBClient(hot, cold, cfg, clients)

	rets := make([]error, len(c.Bulks))
	for b, bl := range c.Bulks {
		ctx, cancel := context.WithCancel(context.Background())
		lg.begin(b, ctx, cancel)
		rets[b] = client.StoreDocuments(ctx, bl.Count, bytes.Clone(bl.Docs), bytes.Clone(bl.Metas))
		cancel()
	}

	short1 := 0.0
	for _, n := range breakerNames {
		short1 += counterValue(n, "short_circuit")
	}

	// ------------------------------------------------------------ oracle: the call log only
	lg.mu.Lock()
	defer lg.mu.Unlock()
	if lg.stuck {
		return res, evid.Failf("harness_ctx_never_done", "a blocking fake was never released: call context without deadline")
	}
	labels := map[string]bool{}
	for _, e := range lg.entries {
		if !e.done {
			return res, evid.Failf("call_in_flight_after_return", "Bulk call #%d on %s still running after StoreDocuments returned", e.k, hostName(e.tier, e.shard, e.rep))
		}
	}

	type key struct{ tier, shard, rep int }
	groupsReliable := true
	{
		type gs struct{ tier, shard, pay int }
		seen := map[int]gs{}
		for _, e := range lg.entries {
			if !e.derived {
				groupsReliable = false
			}
			cur := gs{e.tier, e.shard, e.pay}
			if prev, ok := seen[e.group]; ok && prev != cur {
				groupsReliable = false
			}
			seen[e.group] = cur
		}
	}
	if !groupsReliable {
		labels["groups_unreliable"] = true
	}

	nontrivial := false
	maxAttempts := 0
	for b := range c.Bulks {
		// accepted[tier,shard,rep] = seq of the first successful call carrying exactly payload b
		accepted := map[key]int{}
		calls := map[key]int{}
		for _, e := range lg.entries {
			if e.pay != b {
				continue
			}
			k := key{e.tier, e.shard, e.rep}
			calls[k]++
			if e.res == rOK {
				if _, ok := accepted[k]; !ok {
					accepted[k] = e.seq
				}
			}
		}
		full := func(ti int) (bool, string) {
			var parts []string
			ok := false
			for s, sh := range tiers[ti] {
				n := 0
				for r := range sh {
					if _, a := accepted[key{ti, s, r}]; a {
						n++
					}
				}
				parts = append(parts, fmt.Sprintf("shard %d: %d/%d", s, n, len(sh)))
				if n == len(sh) {
					ok = true
				}
			}
			return ok, strings.Join(parts, ", ")
		}
		res.Evals++
		hotFull, hotDesc := full(0)
		coldFull, coldDesc := true, ""
		if len(c.Cold) > 0 {
			coldFull, coldDesc = full(1)
		}
		if rets[b] == nil {
			if !hotFull {
				return res, evid.Failf("ack_without_full_hot_shard", "bulk %d acknowledged, but no hot shard has the payload on all replicas (accepted: %s)", b, hotDesc)
			}
			if !coldFull {
				return res, evid.Failf("ack_without_full_cold_shard", "bulk %d acknowledged, but no long-term shard has the payload on all replicas (accepted: %s)", b, coldDesc)
			}
			labels["ret=ack"] = true
		} else {
			labels["ret=error"] = true
			if hotFull && coldFull {
				labels["error_although_full_sets_exist"] = true // not forbidden by the property
			}
			if !hotFull && len(c.Cold) > 0 && coldFull {
				labels["error_cold_written_hot_not"] = true
			}
		}
		keys := make([]key, 0, len(calls))
		for k := range calls {
			keys = append(keys, k)
		}
		sort.Slice(keys, func(i, j int) bool {
			a, b := keys[i], keys[j]
			if a.tier != b.tier {
				return a.tier < b.tier
			}
			if a.shard != b.shard {
				return a.shard < b.shard
			}
			return a.rep < b.rep
		})
		for _, k := range keys {
			if calls[k] > consts.BulkMaxTries {
				return res, evid.Failf("too_many_attempts", "bulk %d: %d Bulk calls on %s, BulkMaxTries=%d", b, calls[k], hostName(k.tier, k.shard, k.rep), consts.BulkMaxTries)
			}
			if calls[k] > maxAttempts {
				maxAttempts = calls[k]
			}
		}

		// Per breaker execution of a shard (= one call context): a replica that is not called
		// must already hold the payload, otherwise it was counted as written without a
		// successful call.
		if groupsReliable {
			type grp struct {
				tier, shard, first int
				called             map[int]int // rep -> result
			}
			var order []int
			gm := map[int]*grp{}
			for _, e := range lg.entries {
				if e.pay != b {
					continue
				}
				g := gm[e.group]
				if g == nil {
					g = &grp{tier: e.tier, shard: e.shard, first: e.seq, called: map[int]int{}}
					gm[e.group] = g
					order = append(order, e.group)
				}
				if _, dup := g.called[e.rep]; dup {
					return res, evid.Failf("replica_called_twice_in_one_execution", "bulk %d: %s called twice in one shard execution", b, hostName(e.tier, e.shard, e.rep))
				}
				g.called[e.rep] = e.res
			}
			partialSeen := map[[2]int]bool{}
			for _, gi := range order {
				g := gm[gi]
				res.Evals++
				nOK, nBad := 0, 0
				for r := range tiers[g.tier][g.shard] {
					if rr, ok := g.called[r]; ok {
						if rr == rOK {
							nOK++
						} else {
							nBad++
						}
						continue
					}
					if at, ok := accepted[key{g.tier, g.shard, r}]; !ok || at >= g.first {
						return res, evid.Failf("unwritten_replica_skipped", "bulk %d: %s shard %d was sent the bulk, replica %d was left out although it has no earlier successful call", b, tierName[g.tier], g.shard, r)
					}
				}
				sk := [2]int{g.tier, g.shard}
				if partialSeen[sk] {
					nontrivial = true // a retry on a shard whose written-status bits are mixed
					labels["retry_after_partial_"+tierName[g.tier]] = true
				}
				if nOK > 0 && nBad > 0 {
					partialSeen[sk] = true
				}
			}
		}
	}

	// ------------------------------------------------------------ shape classes
	for _, e := range lg.entries {
		labels["result="+[...]string{"ok", "error", "timeout", "cancel", "ctx_already_done"}[e.res]] = true
		if e.reqDone {
			labels["call_started_after_request_ctx_done"] = true // refused by the fake like gRPC does; see plan.json
		}
		if e.pay != e.window {
			labels["payload_of_other_bulk"] = true
		}
	}
	if short1 > short0 {
		labels["result=circuit_open"] = true
	}
	for _, n := range breakerNames {
		if circuitbreaker.New(n, cfg).IsOpen() {
			labels["breaker_open_at_end"] = true
		}
	}
	labels[fmt.Sprintf("hot=%dx%d", len(c.Hot), len(c.Hot[0]))] = true
	if len(c.Cold) > 0 {
		labels[fmt.Sprintf("cold=%dx%d", len(c.Cold), len(c.Cold[0]))] = true
	} else {
		labels["cold=none"] = true
	}
	labels[fmt.Sprintf("threshold=%d", c.Threshold)] = true
	labels[fmt.Sprintf("bulks=%d", len(c.Bulks))] = true
	labels[fmt.Sprintf("max_calls_per_replica=%d", maxAttempts)] = true
	if nontrivial {
		labels["nontrivial"] = true
	}
	for l := range labels {
		res.Labels = append(res.Labels, l)
	}
	sort.Strings(res.Labels)
	res.NonTrivial = nontrivial
	return res, nil
}

func TestProp(t *testing.T)   { evid.Check(t, genCase, runCase) }
func TestReplay(t *testing.T) { evid.Replay(t, runCase) }
