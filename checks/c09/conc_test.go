package c09

// Family 2: bulks that overlap in time.  The ingestor runs up to IngestorMaxInflightBulks
// StoreDocuments calls at once over the same SeqDBClient, so everything the client keeps
// per shard is shared between requests.  Here 2..6 bulks with pairwise distinct payloads
// are started a generated number of microseconds apart; the fakes are scripted per
// (payload, attempt) - the arrival order of calls of different bulks on one replica is the
// scheduler's - and may answer after a delay, so that one bulk's failed replica and another
// bulk's call on the same shard are in flight together.  The oracle is the same as in the
// sequential family and reads only the call log: an acknowledged bulk has, in every tier, a
// shard whose replicas all returned success to a call carrying exactly its payload.

import (
	"bytes"
	"context"
	"fmt"
	"math/rand"
	"sort"
	"strings"
	"sync"
	"testing"
	"time"

	"google.golang.org/grpc"
	"google.golang.org/grpc/codes"
	"google.golang.org/grpc/status"
	"google.golang.org/protobuf/types/known/emptypb"
	"pgregory.net/rapid"

	"github.com/ozontech/seq-db/consts"
	"github.com/ozontech/seq-db/network/circuitbreaker"
	"github.com/ozontech/seq-db/pkg/storeapi"
	"github.com/ozontech/seq-db/proxy/bulk"
	"github.com/ozontech/seq-db/proxy/stores"

	"verif/internal/evid"
)

const (
	cOK = iota
	cErr
	cSlowOK
	cSlowErr
	cHang // until the call context ends (breaker timeout)
	ncOutcome
)

type CRep struct {
	// Out[b][k]: outcome of the k-th call carrying bulk b's payload; beyond the script the
	// last entry repeats
	Out     [][]int `json:"out"`
	DelayUs int     `json:"delay_us"`
}

type ConcCase struct {
	Hot       [][]CRep `json:"hot"`
	Cold      [][]CRep `json:"cold"`
	Bulks     []Bulk   `json:"bulks"`
	StartUs   []int    `json:"start_us"`
	Threshold int64    `json:"threshold"`
	Seed      int64    `json:"seed"`
}

func genCTier(t *rapid.T, shards, reps, nb, okPct int) [][]CRep {
	tier := make([][]CRep, shards)
	for s := range tier {
		tier[s] = make([]CRep, reps)
		for r := range tier[s] {
			cr := CRep{DelayUs: rapid.SampledFrom([]int{2000, 300, 5000, 1000}).Draw(t, "delay")}
			for b := 0; b < nb; b++ {
				n := rapid.IntRange(1, consts.BulkMaxTries).Draw(t, "scriptlen")
				sc := make([]int, n)
				for k := range sc {
					u := rapid.IntRange(0, 99).Draw(t, "u")
					switch {
					case u < okPct/2:
						sc[k] = cOK
					case u < okPct:
						sc[k] = cSlowOK
					case u < okPct+(100-okPct)*6/10:
						sc[k] = cErr
					case u < okPct+(100-okPct)*9/10:
						sc[k] = cSlowErr
					default:
						sc[k] = cHang
					}
				}
				cr.Out = append(cr.Out, sc)
			}
			tier[s][r] = cr
		}
	}
	return tier
}

func genConc(t *rapid.T) ConcCase {
	var c ConcCase
	hs := rapid.IntRange(1, 2).Draw(t, "hot_shards")
	hr := rapid.IntRange(2, 3).Draw(t, "hot_replicas")
	cs := []int{0, 0, 1, 2}[rapid.IntRange(0, 3).Draw(t, "cold_shards")]
	nb := rapid.IntRange(2, 6).Draw(t, "nbulks")
	okPct := []int{70, 50, 85}[rapid.IntRange(0, 2).Draw(t, "failrate")]
	c.Threshold = []int64{101, 101, 2, 1}[rapid.IntRange(0, 3).Draw(t, "threshold")]
	c.Seed = int64(rapid.IntRange(0, 9999).Draw(t, "seed"))
	c.Hot = genCTier(t, hs, hr, nb, okPct)
	if cs > 0 {
		c.Cold = genCTier(t, cs, rapid.IntRange(1, 3).Draw(t, "cold_replicas"), nb, okPct)
	}
	for b := 0; b < nb; b++ {
		docs := rapid.SliceOfN(rapid.ByteRange('a', 'c'), 0, 12).Draw(t, "docs")
		metas := append(rapid.SliceOfN(rapid.ByteRange('a', 'c'), 0, 6).Draw(t, "metas"), byte('0'+b))
		c.Bulks = append(c.Bulks, Bulk{Count: rapid.IntRange(1, 3).Draw(t, "count"), Docs: docs, Metas: metas})
		c.StartUs = append(c.StartUs, rapid.SampledFrom([]int{0, 500, 1000, 2500, 200, 4000}).Draw(t, "start"))
	}
	return c
}

type centry struct {
	tier, shard, rep, pay, k int
	begin, end               int // logical clock
	ok                       bool
}

type clog struct {
	mu      sync.Mutex
	c       *ConcCase
	clock   int
	entries []*centry
	stuck   bool
}

type cfake struct {
	storeapi.StoreApiClient
	log              *clog
	tier, shard, rep int
	sc               CRep
	n                map[int]int
}

func (f *cfake) Bulk(ctx context.Context, in *storeapi.BulkRequest, _ ...grpc.CallOption) (*emptypb.Empty, error) {
	l := f.log
	l.mu.Lock()
	e := &centry{tier: f.tier, shard: f.shard, rep: f.rep, pay: -1}
	for b, bl := range l.c.Bulks {
		if in != nil && in.Count == int64(bl.Count) && bytes.Equal(in.Docs, bl.Docs) && bytes.Equal(in.Metas, bl.Metas) {
			e.pay = b
		}
	}
	e.k = f.n[e.pay]
	f.n[e.pay]++
	l.clock++
	e.begin = l.clock
	l.entries = append(l.entries, e)
	out := cErr
	if e.pay >= 0 {
		sc := f.sc.Out[e.pay]
		out = sc[min(e.k, len(sc)-1)]
	}
	l.mu.Unlock()
	finish := func(ok bool) {
		l.mu.Lock()
		l.clock++
		e.end, e.ok = l.clock, ok
		l.mu.Unlock()
	}
	if ctx.Err() != nil {
		finish(false)
		return nil, status.FromContextError(ctx.Err()).Err()
	}
	if out == cSlowOK || out == cSlowErr {
		select {
		case <-time.After(time.Duration(f.sc.DelayUs) * time.Microsecond):
		case <-ctx.Done():
			finish(false)
			return nil, status.FromContextError(ctx.Err()).Err()
		}
	}
	switch out {
	case cOK, cSlowOK:
		finish(true)
		return &emptypb.Empty{}, nil
	case cHang:
		select {
		case <-ctx.Done():
		case <-time.After(10 * time.Second):
			l.mu.Lock()
			l.stuck = true
			l.mu.Unlock()
		}
		finish(false)
		return nil, status.Error(codes.DeadlineExceeded, "scripted: hung replica")
	default:
		finish(false)
		return nil, status.Error(codes.Unavailable, "scripted failure")
	}
}

func runConc(c ConcCase) (evid.Result, error) {
	var res evid.Result
	if len(c.Hot) < 1 || len(c.Bulks) < 1 || len(c.StartUs) != len(c.Bulks) {
		return res, evid.Failf("bad_case", "shape")
	}
	circuitbreaker.VerifResetManager()
	rand.Seed(c.Seed) //nolint:staticcheck

	lg := &clog{c: &c}
	clients := map[string]storeapi.StoreApiClient{}
	tiers := [2][][]CRep{c.Hot, c.Cold}
	var hostList [2][]string
	for ti, t := range tiers {
		for s, sh := range t {
			for r, rp := range sh {
				if len(rp.Out) != len(c.Bulks) {
					return res, evid.Failf("bad_case", "script per bulk")
				}
				h := hostName(ti, s, r)
				hostList[ti] = append(hostList[ti], h)
				clients[h] = &cfake{log: lg, tier: ti, shard: s, rep: r, sc: rp, n: map[int]int{}}
			}
		}
	}
	hot := stores.NewStoresFromString(strings.Join(hostList[0], ","), len(c.Hot[0]))
	coldReps := 1
	if len(c.Cold) > 0 {
		coldReps = len(c.Cold[0])
	}
	cold := stores.NewStoresFromString(strings.Join(hostList[1], ","), coldReps)
	pct := int64(1)
	if c.Threshold > 100 {
		pct = 50
	}
	cfg := circuitbreaker.Config{
		Timeout: breakerTimeout, MaxConcurrent: int64(consts.IngestorMaxInflightBulks), NumBuckets: 10, BucketWidth: time.Second,
		RequestVolumeThreshold: c.Threshold, ErrorThresholdPercentage: pct, SleepWindow: 5 * time.Millisecond,
	}
	client := bulk.NewSeqDBClient(hot, cold, cfg, clients)

	rets := make([]error, len(c.Bulks))
	var wg sync.WaitGroup
	for b := range c.Bulks {
		wg.Add(1)
		go func() {
			defer wg.Done()
			time.Sleep(time.Duration(c.StartUs[b]) * time.Microsecond)
			bl := c.Bulks[b]
			rets[b] = client.StoreDocuments(context.Background(), bl.Count, bytes.Clone(bl.Docs), bytes.Clone(bl.Metas))
		}()
	}
	wg.Wait()

	lg.mu.Lock()
	defer lg.mu.Unlock()
	if lg.stuck {
		return res, evid.Failf("harness_ctx_never_done", "a hung fake was never released")
	}
	type key struct{ tier, shard, rep int }
	labels := map[string]bool{}
	overlapFail := false
	for _, e := range lg.entries {
		if e.end == 0 {
			return res, evid.Failf("call_in_flight_after_return", "Bulk call on %s still running after every StoreDocuments returned", hostName(e.tier, e.shard, e.rep))
		}
		if e.pay < 0 {
			labels["foreign_payload"] = true
		}
		if !e.ok {
			// a failed call of one bulk while a call of another bulk is in flight on the same shard
			for _, o := range lg.entries {
				if o.tier == e.tier && o.shard == e.shard && o.pay != e.pay && o.begin < e.end && e.begin < o.end {
					overlapFail = true
				}
			}
		}
	}
	for b := range c.Bulks {
		accepted := map[key]bool{}
		calls := map[key]int{}
		for _, e := range lg.entries {
			if e.pay != b {
				continue
			}
			k := key{e.tier, e.shard, e.rep}
			calls[k]++
			if e.ok {
				accepted[k] = true
			}
		}
		full := func(ti int) (bool, string) {
			var parts []string
			ok := false
			for s, sh := range tiers[ti] {
				n := 0
				for r := range sh {
					if accepted[key{ti, s, r}] {
						n++
					}
				}
				parts = append(parts, fmt.Sprintf("shard %d: %d/%d", s, n, len(sh)))
				if n == len(sh) {
					ok = true
				}
			}
			return ok, strings.Join(parts, ", ")
		}
		res.Evals++
		if rets[b] == nil {
			if ok, d := full(0); !ok {
				return res, evid.Failf("ack_without_full_hot_shard", "bulk %d of %d concurrent ones acknowledged, but no hot shard has the payload on all replicas (accepted: %s)", b, len(c.Bulks), d)
			}
			if len(c.Cold) > 0 {
				if ok, d := full(1); !ok {
					return res, evid.Failf("ack_without_full_cold_shard", "bulk %d of %d concurrent ones acknowledged, but no long-term shard has the payload on all replicas (accepted: %s)", b, len(c.Bulks), d)
				}
			}
			labels["ret=ack"] = true
		} else {
			labels["ret=error"] = true
		}
		for k, n := range calls {
			if n > consts.BulkMaxTries {
				return res, evid.Failf("too_many_attempts", "bulk %d: %d Bulk calls on %s, BulkMaxTries=%d", b, n, hostName(k.tier, k.shard, k.rep), consts.BulkMaxTries)
			}
		}
	}
	if overlapFail {
		labels["failed_call_overlaps_other_bulk_on_shard"] = true
	}
	labels[fmt.Sprintf("bulks=%d", len(c.Bulks))] = true
	labels[fmt.Sprintf("hot=%dx%d", len(c.Hot), len(c.Hot[0]))] = true
	for l := range labels {
		res.Labels = append(res.Labels, l)
	}
	sort.Strings(res.Labels)
	res.NonTrivial = overlapFail
	return res, nil
}

func TestPropConc(t *testing.T)   { evid.Check(t, genConc, runConc) }
func TestReplayConc(t *testing.T) { evid.Replay(t, runConc) }
