// C11: whatever the indexer tokenizes, the query language can find.
//
// Differential check of the two independently written tokenizations: the byte-level one on
// the index side (tokenizer/*, proxy/bulk/indexer.go, driven through the real bulk.Ingestor)
// and the rune-level one on the query side (parser.ParseSeqQL).
//
// A case is (mapping tree, settings, one JSON document, quoting styles).  runCase
//
//  1. renders the mapping as YAML and loads it with the real seq.ReadMapping,
//  2. feeds the rendered document to a real bulk.Ingestor whose storage client captures the
//     (docs, metas) blocks, and decodes the metas into the token lists actually emitted
//     (one list per index entry: the document itself plus one per element of a nested array),
//  3. flattens the document with its OWN reading of the mapping (object -> dotted names,
//     tags -> name.key, nested -> separate entries, multi-type -> one title per type) into
//     the list of indexed occurrences (title, type, size limit, value bytes),
//  4. builds SeqQL texts FROM THE VALUE BYTES in the drawn quoting style (and, when the
//     configuration is case-insensitive, in a drawn letter case) - whole value
//     (keyword), each word and the whole phrase (text), each leading path cut at a separator
//     and the whole value (path), `_exists_:<title>` (every indexed type) - parses them with
//     the real parser under the same mapping and evaluates the returned AST against the
//     emitted tokens with a small evaluator (And/Or/Not/NAnd; literals via model.Glob):
//     some index entry of the document must match,
//  5. beyond the size limits: partial indexing off => no value token under that title;
//     on => `<rune-aligned prefix>*` matches (and the token is the byte prefix when case
//     sensitive),
//  6. round-trips every emitted value token through quote -> parse -> match, so that no token
//     exists that no query text can produce, and rejects tokens under unexpected keys and
//     `_exists_` tokens that differ from the expected titles,
//  7. for a sample of cases appends the captured blocks to a real store and runs the same
//     ASTs through the real search (active and sealed fraction).
//
// Findings saved under replays/C11 (their failure signatures start with "D-<class>/") are
// kept out of the campaign by construction; see excludeKnown / tolerateKnown.
package c11

import (
	"bytes"
	"context"
	"encoding/binary"
	"fmt"
	"github.com/ozontech/seq-db/pkg/seqproxyapi/v1"
	"google.golang.org/grpc"
	"google.golang.org/grpc/credentials/insecure"
	"google.golang.org/protobuf/types/known/timestamppb"
	"os"
	"path/filepath"
	"sort"
	"strconv"
	"strings"
	"sync"
	"testing"
	"time"
	"unicode"
	"unicode/utf8"

	"gopkg.in/yaml.v2"

	"github.com/ozontech/seq-db/conf"
	"github.com/ozontech/seq-db/consts"
	"github.com/ozontech/seq-db/disk"
	"github.com/ozontech/seq-db/frac"
	"github.com/ozontech/seq-db/frac/processor"
	"github.com/ozontech/seq-db/parser"
	"github.com/ozontech/seq-db/proxy/bulk"
	"github.com/ozontech/seq-db/seq"

	"verif/internal/evid"
	"verif/internal/harness"
	"verif/internal/model"
)

// ---------------------------------------------------------------- case

type TypeIn struct {
	Title string `json:"title,omitempty" yaml:"title,omitempty"`
	Type  string `json:"type" yaml:"type"`
	Size  int    `json:"size,omitempty" yaml:"size,omitempty"`
}

// MField is one item of a mapping-list: either old style (Type, no size) or new style
// (Types: exactly one entry without title = the main type, the others titled).
type MField struct {
	Name  string   `json:"name" yaml:"name"`
	Type  string   `json:"type,omitempty" yaml:"type,omitempty"`
	Types []TypeIn `json:"types,omitempty" yaml:"types,omitempty"`
	Kids  []MField `json:"kids,omitempty" yaml:"mapping-list,omitempty"`
}

// DVal is one field of a JSON object of the document.  Kind: "s" string (S holds the value
// bytes in Go-quoted form, so that invalid UTF-8 survives the case file), "r" raw literal
// (number/true/false/null, spelled as in S), "o" object, "a" array of objects.
type DVal struct {
	Key  string   `json:"k"`
	Kind string   `json:"kind"`
	S    string   `json:"s,omitempty"`
	Obj  []DVal   `json:"obj,omitempty"`
	Arr  [][]DVal `json:"arr,omitempty"`
}

type Case struct {
	Mapping []MField `json:"mapping"`
	Doc     []DVal   `json:"doc"`
	CS      bool     `json:"case_sensitive,omitempty"`
	Partial bool     `json:"partial,omitempty"`
	MaxTok  int      `json:"max_token_size"`
	Styles  []int    `json:"styles"`
	JSONEsc int      `json:"json_esc,omitempty"` // 0 raw UTF-8, 1 \uXXXX for non-ASCII, 2 spaced
	E2E     bool     `json:"e2e,omitempty"`
	// Reload: the ingestor has already processed a bulk under an earlier mapping (one other
	// keyword field) when the mapping provider switches to the case's mapping - a hot reload
	// of the mapping file - and the document arrives
	Reload bool `json:"reload,omitempty"`
	// Bin: after the in-process run the same mapping file, flags and document go through the real
	// executable in single mode (--mapping, --case-sensitive, --partial-indexing, --max-token-size);
	// every query that has to find the document by the reference must find it there too
	Bin bool `json:"bin,omitempty"`
	// Excluded counts generator draws replaced because of a known finding.
	Excluded int `json:"excluded,omitempty"`
}

func (d *DVal) bytes() []byte {
	if d.Kind == "r" {
		return []byte(d.S)
	}
	s, err := strconv.Unquote(d.S)
	if err != nil {
		panic(fmt.Sprintf("case value %q is not a Go-quoted string: %v", d.S, err))
	}
	return []byte(s)
}

// ---------------------------------------------------------------- reference reading of the mapping

type refType struct {
	Title string
	Type  string
	Size  int
}

type refField struct {
	Kind  string // leaf | object | tags | nested
	Types []refType
}

func flatten(fields []MField, prefix string, out map[string]refField) {
	for _, f := range fields {
		name := f.Name
		if prefix != "" {
			name = prefix + "." + name
		}
		switch {
		case len(f.Types) > 0:
			rf := refField{Kind: "leaf"}
			for _, ty := range f.Types {
				title := name
				if ty.Title != "" {
					title = name + "." + ty.Title
				}
				rf.Types = append(rf.Types, refType{Title: title, Type: ty.Type, Size: ty.Size})
			}
			out[name] = rf
		case f.Type == "object" || f.Type == "tags" || f.Type == "nested":
			out[name] = refField{Kind: f.Type}
			flatten(f.Kids, name, out)
		default:
			out[name] = refField{Kind: "leaf", Types: []refType{{Title: name, Type: f.Type}}}
		}
	}
}

// occ is one indexed occurrence: the value of one present field under one of its types.
type occ struct {
	Title string
	Type  string
	Size  int
	Val   []byte
	NoVal bool // tags element without "value": only the existence token is expected
	Meta  int  // index entry (0 = the document, >0 = nested elements in order)
}

type flattener struct {
	ref   map[string]refField
	occs  []occ
	metas int
}

func (fl *flattener) leaf(rf refField, val []byte, noval bool, meta int) {
	for _, ty := range rf.Types {
		fl.occs = append(fl.occs, occ{Title: ty.Title, Type: ty.Type, Size: ty.Size, Val: val, NoVal: noval, Meta: meta})
	}
}

func (fl *flattener) walk(fields []DVal, prefix string, meta int) {
	for i := range fields {
		d := &fields[i]
		name := d.Key
		if prefix != "" {
			name = prefix + "." + name
		}
		rf, ok := fl.ref[name]
		if !ok {
			continue // not in the mapping: not indexed
		}
		switch {
		case rf.Kind == "object" && d.Kind == "o":
			fl.walk(d.Obj, name, meta)
		case rf.Kind == "tags" && d.Kind == "a":
			for _, el := range d.Arr {
				var key string
				var val []byte
				noval := true
				for j := range el {
					switch el[j].Key {
					case "key":
						key = string(el[j].bytes())
					case "value":
						val, noval = el[j].bytes(), false
					}
				}
				crf, ok := fl.ref[name+"."+key]
				if !ok || crf.Kind != "leaf" {
					continue
				}
				fl.leaf(crf, val, noval, meta)
			}
		case rf.Kind == "nested" && d.Kind == "a":
			for _, el := range d.Arr {
				fl.metas++
				fl.walk(el, name, fl.metas)
			}
		case rf.Kind == "leaf" && (d.Kind == "s" || d.Kind == "r"):
			fl.leaf(rf, d.bytes(), false, meta)
		default:
			panic("generator produced a value kind the check does not model: " + name)
		}
	}
}

// ---------------------------------------------------------------- rendering: mapping, document, SeqQL

type yamlMapping struct {
	Mapping []MField `yaml:"mapping-list"`
}

const hexd = "0123456789abcdef"

// jsonString is the harness's own RFC 8259 serialiser: '"', '\\' and control characters are
// escaped, everything else is written as is (style 1: every valid non-ASCII rune as \uXXXX,
// astral ones as a surrogate pair).  Invalid bytes are passed through raw.
func jsonString(b *bytes.Buffer, s []byte, style int) {
	b.WriteByte('"')
	for i := 0; i < len(s); {
		c := s[i]
		switch {
		case c == '"' || c == '\\':
			b.WriteByte('\\')
			b.WriteByte(c)
			i++
		case c == '\n' && style != 1:
			b.WriteString(`\n`)
			i++
		case c == '\t' && style != 1:
			b.WriteString(`\t`)
			i++
		case c < 0x20:
			b.WriteString(`\u00`)
			b.WriteByte(hexd[c>>4])
			b.WriteByte(hexd[c&15])
			i++
		case c < utf8.RuneSelf:
			b.WriteByte(c)
			i++
		default:
			r, n := utf8.DecodeRune(s[i:])
			if style == 1 && !(r == utf8.RuneError && n == 1) {
				if r >= 0x10000 {
					r -= 0x10000
					fmt.Fprintf(b, `\u%04x\u%04x`, 0xd800+(r>>10), 0xdc00+(r&0x3ff))
				} else {
					fmt.Fprintf(b, `\u%04X`, r)
				}
			} else {
				b.Write(s[i : i+n])
			}
			i += n
		}
	}
	b.WriteByte('"')
}

func jsonObject(b *bytes.Buffer, fields []DVal, style int) {
	sp := ""
	if style == 2 {
		sp = " "
	}
	b.WriteString("{" + sp)
	for i := range fields {
		d := &fields[i]
		if i > 0 {
			b.WriteString(sp + "," + sp)
		}
		jsonString(b, []byte(d.Key), style)
		b.WriteString(sp + ":" + sp)
		switch d.Kind {
		case "s":
			jsonString(b, d.bytes(), style)
		case "r":
			b.WriteString(d.S)
		case "o":
			jsonObject(b, d.Obj, style)
		case "a":
			b.WriteString("[" + sp)
			for j, el := range d.Arr {
				if j > 0 {
					b.WriteString(sp + "," + sp)
				}
				jsonObject(b, el, style)
			}
			b.WriteString(sp + "]")
		default:
			panic("unknown value kind " + d.Kind)
		}
	}
	b.WriteString(sp + "}")
}

// style bits of one query text
const (
	stQuoteMask = 3  // 0 "…", 1 '…', 2 `…` where possible, 3 bare where the grammar allows
	stEsc       = 4  // write control characters / non-ASCII runes as documented escapes (\n \r \xNN \uXXXX \UXXXXXXXX)
	stSpace     = 8  // "field: value" instead of "field:value"
	stStarOut   = 16 // trailing wildcard outside the quotes ("abc"*) instead of inside ("abc*")
	stFieldQ    = 32 // quote the field name even if it could be bare
	stCaseShift = 6  // bits 6-7: spell the value in another letter case (case-insensitive configurations only): 1 upper, 2 lower, 3 swapped
	stMax       = 255
	// spellings the documentation promises but the lexer does not honour (known findings,
	// generated only with C11_INCLUDE_KNOWN=1):
	stEscOtherQuote = 256 // also escape the quote character that does not delimit the literal ('say \"hi\"')
	stHexBytes      = 512 // non-ASCII bytes as \xNN byte escapes
)

// caseVariant spells s in another letter case.  A rune is only replaced by a form that has
// the same lower-case form, which is what "case-insensitive" means here (ı, ſ, ς and the
// like keep their spelling: their upper-case forms fold elsewhere).
func caseVariant(s string, mode int) string {
	if mode == 0 {
		return s
	}
	var b strings.Builder
	for i := 0; i < len(s); {
		r, n := utf8.DecodeRuneInString(s[i:])
		if r == utf8.RuneError && n == 1 {
			b.WriteByte(s[i])
			i++
			continue
		}
		x := r
		switch mode {
		case 1:
			x = unicode.ToUpper(r)
		case 2:
			x = unicode.ToLower(r)
		case 3:
			if unicode.ToUpper(r) != r {
				x = unicode.ToUpper(r)
			} else {
				x = unicode.ToLower(r)
			}
		}
		if unicode.ToLower(x) != unicode.ToLower(r) || x == 0xE000 {
			x = r
		}
		b.WriteRune(x)
		i += n
	}
	return b.String()
}

func isBareRune(r rune) bool {
	return unicode.IsLetter(r) || unicode.IsDigit(r) || r == '_' || r == '.' || r == '-'
}

// bareOK: the documented "single word without spaces or special characters", restricted to
// what the lexer's unquoted token really is (letters, decimal digits, '_', '.', '-').
func bareOK(s string) bool {
	if s == "" || !utf8.ValidString(s) {
		return false
	}
	for _, r := range s {
		if !isBareRune(r) {
			return false
		}
	}
	if s[0] == '-' {
		return false
	}
	switch strings.ToLower(s) {
	case "and", "or", "not", "in", "to":
		return false
	}
	return true
}

// quote renders literal bytes (no wildcard meaning anywhere) as a SeqQL string literal.
// It returns the text and the quote kind really used.
func quote(s string, st int) (string, int) {
	q := st & stQuoteMask
	switch q {
	case 3:
		if bareOK(s) {
			return s, 3
		}
		q = 0
	case 2:
		// raw string: no escapes, '*' is literal; cannot contain a backtick
		if !strings.ContainsRune(s, '`') {
			return "`" + s + "`", 2
		}
		q = 0
	}
	qc := byte('"')
	if q == 1 {
		qc = '\''
	}
	esc := st&stEsc != 0
	var b strings.Builder
	b.WriteByte(qc)
	for i := 0; i < len(s); {
		c := s[i]
		switch {
		case c == qc || c == '\\' || c == '*' || (st&stEscOtherQuote != 0 && (c == '"' || c == '\'')):
			b.WriteByte('\\')
			b.WriteByte(c)
			i++
		case st&stHexBytes != 0 && c >= utf8.RuneSelf:
			fmt.Fprintf(&b, `\x%02x`, c)
			i++
		case !esc:
			b.WriteByte(c)
			i++
		case c == '\n':
			b.WriteString(`\n`)
			i++
		case c == '\r':
			b.WriteString(`\r`)
			i++
		case c < 0x20 || c == 0x7f:
			fmt.Fprintf(&b, `\x%02x`, c)
			i++
		case c < utf8.RuneSelf:
			b.WriteByte(c)
			i++
		default:
			r, n := utf8.DecodeRuneInString(s[i:])
			switch {
			case r == utf8.RuneError && n == 1:
				b.WriteByte(c) // invalid byte: no escape denotes it, pass through
			case r < 0x10000:
				fmt.Fprintf(&b, `\u%04x`, r)
			default:
				fmt.Fprintf(&b, `\U%08x`, r)
			}
			i += n
		}
	}
	b.WriteByte(qc)
	return b.String(), q
}

func renderField(f string, st int) string {
	if st&stFieldQ == 0 && bareOK(f) && !strings.Contains(f, "-") {
		return f
	}
	if st&stQuoteMask == 3 {
		st &^= stQuoteMask
	}
	s, _ := quote(f, st)
	return s
}

func sep(st int) string {
	if st&stSpace != 0 {
		return ": "
	}
	return ":"
}

// exactQuery: field:<literal s>
func exactQuery(field, s string, st int) (string, int) {
	v, q := quote(s, st)
	return renderField(field, st) + sep(st) + v, q
}

// prefixQuery: field:<literal s>*  (the star is a wildcard)
func prefixQuery(field, s string, st int) (string, int) {
	v, q := quote(s, st)
	if (q == 0 || q == 1) && st&stStarOut == 0 {
		v = v[:len(v)-1] + "*" + v[len(v)-1:]
	} else {
		v += "*"
	}
	return renderField(field, st) + sep(st) + v, q
}

// ---------------------------------------------------------------- emitted tokens and the AST evaluator

type tok struct{ K, V string }

type capture struct {
	n           int
	docs, metas []byte
}

func (c *capture) StoreDocuments(_ context.Context, n int, docs, metas []byte) error {
	c.n += n
	c.docs = append([]byte{}, docs...)
	c.metas = append([]byte{}, metas...)
	return nil
}

// colonTag marks failures of cases whose mapping has a field name containing ':' - the class of
// the recorded finding "token-identity" (known_findings.json): the store identifies a token by
// the bytes field + ":" + value, so (a, "b:c") and (a:b, "c") are one token.
func colonTag(c *Case) string {
	for _, f := range c.Mapping {
		if strings.Contains(f.Name, ":") {
			return ":field-name-with-colon"
		}
	}
	return ""
}

// reloadable: a mapping provider whose mapping can be replaced, as mappingprovider does when
// the mapping file changes
type reloadable struct {
	mu sync.Mutex
	m  seq.Mapping
}

func (p *reloadable) GetMapping() seq.Mapping {
	p.mu.Lock()
	defer p.mu.Unlock()
	return p.m
}
func (p *reloadable) GetRawMapping() *seq.RawMapping { return nil }
func (p *reloadable) set(m seq.Mapping) {
	p.mu.Lock()
	p.m = m
	p.mu.Unlock()
}

type provider struct{ m seq.Mapping }

func (p provider) GetMapping() seq.Mapping        { return p.m }
func (p provider) GetRawMapping() *seq.RawMapping { return nil }

func decodeMetas(block []byte) ([][]tok, []seq.ID, []uint32, error) {
	b, err := disk.DocBlock(block).DecompressTo(nil)
	if err != nil {
		return nil, nil, nil, err
	}
	var out [][]tok
	var ids []seq.ID
	var sizes []uint32
	for len(b) > 0 {
		if len(b) < 4 {
			return nil, nil, nil, fmt.Errorf("truncated metas block")
		}
		n := binary.LittleEndian.Uint32(b)
		b = b[4:]
		if int(n) > len(b) {
			return nil, nil, nil, fmt.Errorf("truncated meta")
		}
		var md frac.MetaData
		if err := md.UnmarshalBinary(b[:n]); err != nil {
			return nil, nil, nil, err
		}
		b = b[n:]
		var ts []tok
		for _, t := range md.Tokens {
			ts = append(ts, tok{string(t.Key), string(t.Value)})
		}
		out = append(out, ts)
		ids = append(ids, md.ID)
		sizes = append(sizes, md.Size)
	}
	return out, ids, sizes, nil
}

func literalPattern(l *parser.Literal) model.Pattern {
	var p model.Pattern
	for _, t := range l.Terms {
		if t.Kind == parser.TermSymbol {
			p = append(p, model.Frag{Wild: true})
		} else {
			p = append(p, model.Frag{Text: t.Data})
		}
	}
	return p
}

func evalAST(n *parser.ASTNode, toks []tok) (bool, error) {
	switch v := n.Value.(type) {
	case *parser.Literal:
		if len(v.Terms) == 0 {
			return false, fmt.Errorf("literal without terms")
		}
		p := literalPattern(v)
		for _, t := range toks {
			if t.K == v.Field && model.Glob(p, t.V) {
				return true, nil
			}
		}
		return false, nil
	case *parser.Logical:
		var c [2]bool
		want := 2
		if v.Operator == parser.LogicalNot {
			want = 1
		}
		if len(n.Children) != want {
			return false, fmt.Errorf("logical node with %d children", len(n.Children))
		}
		for i, ch := range n.Children {
			r, err := evalAST(ch, toks)
			if err != nil {
				return false, err
			}
			c[i] = r
		}
		switch v.Operator {
		case parser.LogicalAnd:
			return c[0] && c[1], nil
		case parser.LogicalOr:
			return c[0] || c[1], nil
		case parser.LogicalNot:
			return !c[0], nil
		case parser.LogicalNAnd:
			return !c[0] && c[1], nil
		}
		return false, fmt.Errorf("unknown operator %v", v.Operator)
	default:
		return false, fmt.Errorf("unexpected AST token %T", n.Value)
	}
}

// ---------------------------------------------------------------- reference notions of "word", "leading path", "prefix"

// isWordRune: the tokenizer's documented rule - a token of a text field "is a string that
// contains only letters, numbers, '*' or '_'".  Letters = Unicode L*, numbers = Unicode N*.
// (Were "numbers" read as decimal digits only, a maximal run under this reading would simply
// be a phrase of several words - the query built from it is a conjunction then and must match
// as well - so the oracle does not take sides; it only requires both sides to take the same.)
func isWordRune(r rune) bool {
	return unicode.IsLetter(r) || unicode.IsNumber(r) || r == '_' || r == '*'
}

type span struct{ s, e int }

func words(v []byte) []span {
	var out []span
	start := -1
	for i := 0; i < len(v); {
		r, n := utf8.DecodeRune(v[i:])
		if !(r == utf8.RuneError && n == 1) && isWordRune(r) {
			if start < 0 {
				start = i
			}
		} else if start >= 0 {
			out = append(out, span{start, i})
			start = -1
		}
		i += n
	}
	if start >= 0 {
		out = append(out, span{start, len(v)})
	}
	return out
}

// alignDown: the largest rune boundary of v that is <= n (an invalid byte is a rune of its own).
func alignDown(v []byte, n int) int {
	if n >= len(v) {
		return len(v)
	}
	b := 0
	for i := 0; i < len(v); {
		_, w := utf8.DecodeRune(v[i:])
		if i+w > n {
			break
		}
		i += w
		b = i
	}
	return b
}

// ---------------------------------------------------------------- labels

var lenChanging = []rune{0x130, 0x1e9e, 0x23a, 0x23e, 0x212a, 0x212b, 0x2126, 0x2c65, 0x2c66} // İ ẞ Ⱥ Ⱦ Kelvin Angstrom Ohm ⱥ ⱦ

func classify(v []byte, lab map[string]bool) (nt bool) {
	if !utf8.Valid(v) {
		lab["v:invalid-bytes"] = true
		nt = true
	}
	for _, r := range string(v) {
		switch {
		case r == '*':
			lab["v:star"] = true
			nt = true
		case r == '_':
			lab["v:underscore"] = true
		case r == '\\':
			lab["v:backslash"] = true
			nt = true
		case r == '\'' || r == '"' || r == '`':
			lab["v:quote"] = true
			nt = true
		case r == '/':
			lab["v:slash"] = true
		case r < 0x20 || r == 0x7f:
			lab["v:control"] = true
		case r < utf8.RuneSelf:
			if !isWordRune(r) {
				lab["v:ascii-separator"] = true
			} else if unicode.IsUpper(r) {
				lab["v:ascii-upper"] = true
			}
		default:
			nt = true
			lab["v:non-ascii"] = true
			for _, x := range lenChanging {
				if r == x {
					lab["v:case-pair-length-changes"] = true
				}
			}
			switch {
			case unicode.IsDigit(r):
				lab["v:non-ascii-digit"] = true
			case unicode.IsNumber(r):
				lab["v:number-not-digit"] = true
			case unicode.IsLetter(r):
				if unicode.ToLower(r) != r {
					lab["v:non-ascii-upper"] = true
				} else {
					lab["v:non-ascii-letter"] = true
				}
			case r == utf8.RuneError:
			default:
				lab["v:non-ascii-separator"] = true
			}
		}
	}
	return nt
}

func near(n, limit int) bool { return n >= limit-2 && n <= limit+2 }

// ---------------------------------------------------------------- runCase

// tolerateKnown (C11_TOLERATE_KNOWN=1, together with C11_INCLUDE_KNOWN=1): misses that fall
// into the input class of a reported finding are counted as excluded instead of failing, to
// see what else the wider domain holds.
var tolerateKnown = os.Getenv("C11_TOLERATE_KNOWN") != ""

var requestTime = time.UnixMilli(1_700_000_000_000).UTC()

type built struct {
	what string
	text string
	ast  *parser.ASTNode
}

type runner struct {
	c       *Case
	mapping seq.Mapping
	metas   [][]tok
	res     evid.Result
	lab     map[string]bool
	nq      int
	queries []built
}

func (r *runner) style() int {
	st := r.c.Styles[r.nq%len(r.c.Styles)]
	r.nq++
	return st
}

var quoteNames = [4]string{"q:double", "q:single", "q:backtick", "q:bare"}

func short(s string) string {
	if len(s) > 160 {
		return strconv.Quote(s[:70]) + fmt.Sprintf("…(%d bytes)…", len(s)) + strconv.Quote(s[len(s)-70:])
	}
	return strconv.Quote(s)
}

func (r *runner) tokensUnder(title string, meta int) []string {
	var out []string
	for _, t := range r.metas[meta] {
		if t.K == title {
			out = append(out, t.V)
		}
	}
	return out
}

func fmtToks(ts []string) string {
	var b strings.Builder
	b.WriteByte('[')
	for i, t := range ts {
		if i > 0 {
			b.WriteByte(' ')
		}
		if i == 6 {
			fmt.Fprintf(&b, "… %d more", len(ts)-i)
			break
		}
		b.WriteString(short(t))
	}
	b.WriteByte(']')
	return b.String()
}

// must: the query text, parsed under the mapping, matches some index entry of the document.
func (r *runner) must(what string, o *occ, text string, qkind, st int) error {
	r.lab[quoteNames[qkind]] = true
	known := r.knownClass(o, text, st)
	what = known + what
	q, err := parser.ParseSeqQL(text, r.mapping)
	if err != nil && known != "" && tolerateKnown {
		r.res.Excluded++
		return nil
	}
	if err != nil {
		return evid.Failf(what+"-parse", "%s field %q (size %d), value %s: query %s does not parse: %v",
			o.Type, o.Title, o.Size, short(string(o.Val)), short(text), err)
	}
	r.res.Evals++
	found := false
	for _, m := range r.metas {
		ok, err := evalAST(q.Root, m)
		if err != nil {
			return evid.Failf("ast", "query %s: %v", short(text), err)
		}
		if ok {
			found = true
			break
		}
	}
	if !found && known != "" && tolerateKnown {
		r.res.Excluded++
		return nil
	}
	if !found {
		return evid.Failf(what+"-miss", "%s field %q (size %d, case_sensitive=%v, partial=%v, max_token_size=%d), value %s: query %s parsed as %s does not match; tokens emitted under %q: %s",
			o.Type, o.Title, o.Size, r.c.CS, r.c.Partial, r.c.MaxTok, short(string(o.Val)), short(text), short(q.Root.SeqQLString()),
			o.Title, fmtToks(r.tokensUnder(o.Title, o.Meta)))
	}
	if r.c.E2E || r.c.Bin {
		r.queries = append(r.queries, built{what, text, q.Root})
	}
	return nil
}

// spell: the value as the query will spell it - in another letter case when the
// configuration is case-insensitive (never for `_exists_`: field names are case-sensitive).
func (r *runner) spell(field, s string, st int) string {
	mode := (st >> stCaseShift) & 3
	if r.c.CS || field == "_exists_" || mode == 0 {
		return s
	}
	v := caseVariant(s, mode)
	if v != s {
		r.lab["q:other-letter-case"] = true
	}
	return v
}

// knownClass prefixes the signature of a failure with the input class of an already
// reported finding, so that listing it as known cannot hide failures of other inputs.
func (r *runner) knownClass(o *occ, text string, st int) string {
	switch {
	case r.c.CS && !utf8.Valid(o.Val):
		return "D-cs-invalid-bytes/"
	case st&stEscOtherQuote != 0 && (strings.Contains(text, `\"`) || strings.Contains(text, `\'`)):
		return "D-esc-other-quote/"
	case st&stHexBytes != 0 && strings.Contains(text, `\x`):
		return "D-hex-byte-escape/"
	}
	return ""
}

func (r *runner) exact(what string, o *occ, field, s string) error {
	st := r.style()
	text, q := exactQuery(field, r.spell(field, s, st), st)
	return r.must(what, o, text, q, st)
}

func (r *runner) prefix(what string, o *occ, field, s string) error {
	st := r.style()
	text, q := prefixQuery(field, r.spell(field, s, st), st)
	return r.must(what, o, text, q, st)
}

func (r *runner) checkOcc(o *occ) error {
	c := r.c
	toks := r.tokensUnder(o.Title, o.Meta)
	v := o.Val
	r.lab["type:"+o.Type] = true

	// existence, for every indexed type
	ex := occ{Title: "_exists_", Type: o.Type + "/exists", Val: []byte(o.Title), Meta: o.Meta}
	if err := r.exact("exists", &ex, "_exists_", o.Title); err != nil {
		return err
	}
	if o.NoVal || o.Type == "exists" {
		if len(toks) != 0 {
			return evid.Failf("unexpected-value-token", "%s field %q without a value to index has tokens %s", o.Type, o.Title, fmtToks(toks))
		}
		return nil
	}
	if classify(v, r.lab) {
		r.res.NonTrivial = true
	}

	switch o.Type {
	case "keyword", "path":
		limit := o.Size
		if limit == 0 {
			limit = c.MaxTok
		}
		if near(len(v), limit) {
			r.lab["limit:value-within-2"] = true
			r.res.NonTrivial = true
		}
		over := len(v) > limit
		if over && !c.Partial {
			r.lab["limit:value-over-skipped"] = true
			if len(toks) != 0 {
				return evid.Failf(o.Type+"-skip", "%s field %q: value of %d bytes exceeds the limit %d and partial indexing is off, yet tokens %s were emitted",
					o.Type, o.Title, len(v), limit, fmtToks(toks))
			}
			return nil
		}
		cut := v
		if over {
			cut = v[:limit]
			r.lab["limit:value-over-prefix"] = true
			if alignDown(v, limit) != limit {
				r.lab["limit:cut-inside-rune"] = true
			}
		}
		if o.Type == "keyword" {
			if len(toks) != 1 {
				return evid.Failf("keyword-count", "keyword field %q, value %s (limit %d): expected one token, got %s", o.Title, short(string(v)), limit, fmtToks(toks))
			}
		} else {
			// every leading path cut at a separator (an empty one is no path)
			n := 0
			for p := 1; p < len(v) && p <= len(cut); p++ {
				if v[p] != '/' {
					continue
				}
				n++
				if n > 24 && p+1 < len(cut) && n%7 != 0 {
					continue // long values: sample the cuts
				}
				if err := r.exact("path-lead", o, o.Title, string(v[:p])); err != nil {
					return err
				}
			}
			if n > 0 {
				r.lab["path:has-leading-paths"] = true
			}
			if len(v) > 0 && v[0] == '/' {
				r.lab["path:leading-separator"] = true
			}
		}
		if !over {
			if err := r.exact(o.Type+"-whole", o, o.Title, string(v)); err != nil {
				return err
			}
		} else {
			if c.CS && (len(toks) == 0 || toks[len(toks)-1] != string(cut)) {
				return evid.Failf(o.Type+"-prefix-token", "%s field %q, case sensitive, value %s, limit %d: last token should be the byte prefix, got %s", o.Type, o.Title, short(string(v)), limit, fmtToks(toks))
			}
			if err := r.prefix(o.Type+"-prefix", o, o.Title, string(v[:alignDown(v, limit)])); err != nil {
				return err
			}
		}

	case "text":
		limit := o.Size
		if limit == 0 {
			limit = consts.MaxTextFieldValueLength
		}
		if near(len(v), limit) {
			r.lab["limit:value-within-2"] = true
			if o.Size == 0 {
				r.lab["limit:value-within-2-of-32768"] = true
			}
			r.res.NonTrivial = true
		}
		over := len(v) > limit
		if over && !c.Partial {
			r.lab["limit:value-over-skipped"] = true
			if len(toks) != 0 {
				return evid.Failf("text-skip", "text field %q: value of %d bytes exceeds the limit %d and partial indexing is off, yet tokens %s were emitted", o.Title, len(v), limit, fmtToks(toks))
			}
			return nil
		}
		end := len(v)
		if over {
			end = limit
			r.lab["limit:value-over-prefix"] = true
			if alignDown(v, limit) != limit {
				r.lab["limit:cut-inside-rune"] = true
			}
		}
		ws := words(v)
		allFit := !over
		for i, w := range ws {
			if w.s >= end {
				break
			}
			if w.e > end {
				// the word straddles the cut: indexed by its (rune-aligned) prefix or skipped
				p := alignDown(v, end)
				if p > w.s && p-w.s <= c.MaxTok {
					r.lab["limit:word-cut-prefix"] = true
					if err := r.prefix("text-word-prefix", o, o.Title, string(v[w.s:p])); err != nil {
						return err
					}
				}
				break
			}
			n := w.e - w.s
			if near(n, c.MaxTok) {
				r.lab["limit:word-within-2"] = true
				r.res.NonTrivial = true
			}
			if n > c.MaxTok {
				r.lab["limit:word-over-skipped"] = true
				allFit = false
				continue
			}
			if len(ws) > 40 && i%13 != 0 && i+2 < len(ws) {
				continue // long values: sample the words
			}
			for _, x := range string(v[w.s:w.e]) {
				if unicode.IsNumber(x) && !unicode.IsDigit(x) {
					r.lab["text:number-not-digit-in-word"] = true
				}
			}
			if err := r.exact("text-word", o, o.Title, string(v[w.s:w.e])); err != nil {
				return err
			}
		}
		if len(v) == 0 {
			r.lab["text:empty"] = true
			if len(toks) != 1 || toks[0] != "" {
				return evid.Failf("text-empty", "text field %q with the empty value: expected the one empty token, got %s", o.Title, fmtToks(toks))
			}
		}
		if len(ws) == 0 {
			r.lab["text:no-words"] = true
		}
		if len(ws) > 1 {
			r.lab["text:several-words"] = true
		}
		if allFit && (len(ws) > 0 || len(v) == 0) && len(ws) <= 40 {
			// the whole value as a phrase: a conjunction of its words
			if err := r.exact("text-phrase", o, o.Title, string(v)); err != nil {
				return err
			}
		}
	default:
		panic("unknown type " + o.Type)
	}

	// never a value token that no query text can produce
	for i, t := range toks {
		if len(toks) > 40 && i%13 != 0 && i+2 < len(toks) {
			continue
		}
		ro := occ{Title: o.Title, Type: o.Type + "/token", Size: o.Size, Val: []byte(t), Meta: o.Meta}
		if utf8.ValidString(t) && !strings.ContainsRune(t, 0xE000) {
			if err := r.exact("roundtrip", &ro, o.Title, t); err != nil {
				return err
			}
			continue
		}
		// A token ending in the bytes of a cut rune (case sensitive + partial indexing) or
		// holding raw invalid bytes cannot be spelled exactly; its longest valid prefix
		// followed by a wildcard must find it.
		p := 0
		for p < len(t) {
			x, n := utf8.DecodeRuneInString(t[p:])
			if (x == utf8.RuneError && n == 1) || x == 0xE000 {
				break
			}
			p += n
		}
		r.lab["roundtrip:by-prefix"] = true
		if err := r.prefix("roundtrip-prefix", &ro, o.Title, t[:p]); err != nil {
			return err
		}
	}
	return nil
}

func runCase(c Case) (evid.Result, error) {
	r := &runner{c: &c, lab: map[string]bool{}}
	r.res.Excluded = c.Excluded
	finish := func() evid.Result {
		for l := range r.lab {
			r.res.Labels = append(r.res.Labels, l)
		}
		sort.Strings(r.res.Labels)
		return r.res
	}
	if len(c.Styles) == 0 {
		c.Styles = []int{0}
	}

	// 1. mapping through the real loader
	y, err := yaml.Marshal(yamlMapping{Mapping: c.Mapping})
	if err != nil {
		return r.res, fmt.Errorf("yaml: %w", err)
	}
	mapping, err := seq.ReadMapping(y)
	if err != nil {
		return r.res, fmt.Errorf("harness: generated mapping rejected: %v\n%s", err, y)
	}
	r.mapping = mapping

	// 2. the document through the real ingestor
	var doc bytes.Buffer
	jsonObject(&doc, c.Doc, c.JSONEsc)

	saved := conf.CaseSensitive
	conf.CaseSensitive = c.CS
	defer func() { conf.CaseSensitive = saved }()

	cp := &capture{}
	prov := &reloadable{m: mapping}
	if c.Reload {
		prov.m = seq.Mapping{"only_in_the_earlier_mapping": seq.NewSingleType(seq.TokenizerTypeKeyword, "", 0)}
	}
	ing := bulk.NewIngestor(bulk.IngestorConfig{
		MaxInflightBulks:       1,
		AllowedTimeDrift:       24 * time.Hour,
		FutureAllowedTimeDrift: 24 * time.Hour,
		MappingProvider:        prov,
		MaxTokenSize:           c.MaxTok,
		CaseSensitive:          c.CS,
		PartialFieldIndexing:   c.Partial,
		DocsZSTDCompressLevel:  -1,
		MetasZSTDCompressLevel: -1,
		MaxDocumentSize:        4 << 20,
	}, cp)
	if c.Reload {
		warm := false
		if _, err := ing.ProcessDocuments(context.Background(), requestTime, func() ([]byte, error) {
			if warm {
				return nil, nil
			}
			warm = true
			return []byte(`{"only_in_the_earlier_mapping":"x"}`), nil
		}); err != nil {
			return r.res, fmt.Errorf("harness: warm-up bulk: %v", err)
		}
		*cp = capture{}
		prov.set(mapping)
		r.lab["mapping-reloaded-before-the-document"] = true
	}
	sent := false
	n, err := ing.ProcessDocuments(context.Background(), requestTime, func() ([]byte, error) {
		if sent {
			return nil, nil
		}
		sent = true
		return append([]byte{}, doc.Bytes()...), nil
	})
	ing.Stop()
	if err != nil || n != 1 || cp.n != 1 {
		return r.res, evid.Failf("ingest", "document %s: ProcessDocuments = (%d, %v), stored %d", short(doc.String()), n, err, cp.n)
	}
	metas, ids, sizes, err := decodeMetas(cp.metas)
	if err != nil {
		return r.res, evid.Failf("metas-decode", "%v", err)
	}
	r.metas = metas

	// 3. expected occurrences
	fl := &flattener{ref: map[string]refField{}}
	flatten(c.Mapping, "", fl.ref)
	fl.walk(c.Doc, "", 0)
	if len(metas) != fl.metas+1 {
		return finish(), evid.Failf("entries", "expected %d index entries (document + nested elements), got %d", fl.metas+1, len(metas))
	}
	for i := range metas {
		if ids[i] != ids[0] || (i > 0 && sizes[i] != 0) || (i == 0 && int(sizes[0]) != doc.Len()) {
			return finish(), evid.Failf("entries", "entry %d: id %v size %d (document id %v, %d bytes)", i, ids[i], sizes[i], ids[0], doc.Len())
		}
	}
	if fl.metas > 0 {
		r.lab["doc:nested-entries"] = true
	}

	// expected keys and `_exists_` values per entry (the root's are copied into nested entries)
	for m := range metas {
		wantEx := map[string]int{}
		titles := map[string]bool{}
		for i := range fl.occs {
			o := &fl.occs[i]
			if o.Meta == m || (m > 0 && o.Meta == 0) {
				wantEx[o.Title]++
				titles[o.Title] = true
			}
		}
		all := 0
		for _, t := range metas[m] {
			switch {
			case t.K == "_all_":
				all++
				if t.V != "" {
					return finish(), evid.Failf("all-token", "entry %d: _all_ token with value %s", m, short(t.V))
				}
			case t.K == "_exists_":
				wantEx[t.V]--
			case !titles[t.K]:
				return finish(), evid.Failf("unexpected-key", "entry %d: token %s:%s under a title no present field has", m, short(t.K), short(t.V))
			}
		}
		if all != 1 {
			return finish(), evid.Failf("all-token", "entry %d has %d _all_ tokens", m, all)
		}
		var keys []string
		for k := range wantEx {
			keys = append(keys, k)
		}
		sort.Strings(keys)
		for _, k := range keys {
			if wantEx[k] != 0 {
				return finish(), evid.Failf("exists-set", "entry %d: `_exists_:%s` emitted %+d times relative to the present indexed fields", m, k, -wantEx[k])
			}
		}
	}

	// 4.-6. queries from the values
	dup := map[string]bool{}
	for i := range fl.occs {
		o := &fl.occs[i]
		k := fmt.Sprintf("%d\x00%s", o.Meta, o.Title)
		if dup[k] {
			panic("generator produced the same title twice in one entry: " + o.Title)
		}
		dup[k] = true
		if err := r.checkOcc(o); err != nil {
			return finish(), err
		}
	}
	if c.CS {
		r.lab["cfg:case-sensitive"] = true
	} else {
		r.lab["cfg:case-insensitive"] = true
	}
	if c.Partial {
		r.lab["cfg:partial-indexing"] = true
	} else {
		r.lab["cfg:no-partial-indexing"] = true
	}
	for _, st := range c.Styles {
		if st&stEsc != 0 {
			r.lab["q:escapes"] = true
		}
	}
	for name, rf := range fl.ref {
		_ = name
		if rf.Kind != "leaf" {
			r.lab["map:"+rf.Kind] = true
		} else if len(rf.Types) > 1 {
			r.lab["map:multi-type"] = true
		}
	}

	// 8. end to end through the real executable
	if c.Bin && len(r.queries) > 0 {
		r.lab["binary"] = true
		if err := r.throughBinary(y, doc.Bytes()); err != nil {
			return finish(), err
		}
	}
	// 7. end to end through a real store
	if c.E2E && len(r.queries) > 0 {
		r.lab["e2e"] = true
		if err := r.endToEnd(cp, ids[0]); err != nil {
			return finish(), err
		}
	}
	return finish(), nil
}

func (r *runner) endToEnd(cp *capture, id seq.ID) error {
	dir := evid.ScratchDir("c11")
	defer os.RemoveAll(dir)
	st, err := harness.OpenStore(dir, harness.StoreOpts{})
	if err != nil {
		return fmt.Errorf("open store: %w", err)
	}
	defer st.Close()
	if err := st.FM.Append(context.Background(), cp.docs, cp.metas); err != nil {
		return evid.Failf("e2e-append", "%v", err)
	}
	st.WaitIdle()
	search := func(phase string) error {
		for _, q := range r.queries {
			qpr, err := st.Searcher.SearchDocs(context.Background(), st.FM.GetAllFracs(), processor.SearchParams{
				AST: q.ast, From: 0, To: seq.MID(requestTime.UnixMilli() + 1_000_000), Limit: 10, Order: seq.DocsOrderDesc,
			})
			if err != nil {
				return evid.Failf("e2e-search-error", "%s fraction, query %s: %v", phase, short(q.text), err)
			}
			r.res.Evals++
			found := false
			for _, s := range qpr.IDs {
				if s.ID == id {
					found = true
				}
			}
			if !found {
				return evid.Failf("e2e-"+q.what+"-miss"+colonTag(r.c), "%s fraction: query %s matches the emitted tokens by the reference evaluator but the store did not return the document", phase, short(q.text))
			}
		}
		return nil
	}
	if err := search("active"); err != nil {
		return err
	}
	st.Seal()
	return search("sealed")
}

// throughBinary: the mapping file and the configuration reach the tokenizers and the parser through
// the wiring of package main; what the in-process ingestor was given as struct fields is given
// here as command-line flags.
func (r *runner) throughBinary(mappingYAML, doc []byte) error {
	dir := evid.ScratchDir("c11bin")
	defer os.RemoveAll(dir)
	data := filepath.Join(dir, "data")
	if err := os.MkdirAll(data, 0o755); err != nil {
		return err
	}
	mfile := filepath.Join(dir, "mapping.yaml")
	if err := os.WriteFile(mfile, mappingYAML, 0o644); err != nil {
		return err
	}
	flags := []string{"--mode=single", "--mapping=" + mfile, "--data-dir=" + data, "--query-rate-limit=100000", "--use-seq-ql-by-default",
		"--max-document-size=4MiB", fmt.Sprintf("--max-token-size=%d", r.c.MaxTok), "--allowed-time-drift=24h", "--future-allowed-time-drift=24h",
		"--frac-size=16MB", "--total-size=256MB", "--cache-size=64MB"}
	if r.c.CS {
		flags = append(flags, "--case-sensitive")
	}
	if r.c.Partial {
		flags = append(flags, "--partial-indexing")
	}
	b, err := harness.StartBinary(flags...)
	if err != nil {
		return evid.Failf("bin-no-start", "%v", err)
	}
	defer b.Kill()
	code, rb, err := b.PostBulk(append(append([]byte("{\"index\":{}}\n"), doc...), '\n'))
	if err != nil || code != 200 {
		if !b.Alive() {
			return evid.Failf("bin-died", "seq-db died while handling the bulk: %s", b.Tail())
		}
		return evid.Failf("bin-bulk", "bulk of the document answered %d %s (%v)", code, short(string(rb)), err)
	}
	conn, err := grpc.NewClient(b.GRPCAddr, grpc.WithTransportCredentials(insecure.NewCredentials()))
	if err != nil {
		return err
	}
	defer conn.Close()
	api := seqproxyapi.NewSeqProxyApiClient(conn)
	cfg := fmt.Sprintf("--case-sensitive=%v --partial-indexing=%v --max-token-size=%d", r.c.CS, r.c.Partial, r.c.MaxTok)
	first := true
	for _, q := range r.queries {
		if !utf8.ValidString(q.text) {
			r.lab["binary:query-not-utf8-skipped"] = true
			continue // a gRPC string field cannot carry it
		}
		deadline := time.Now().Add(30 * time.Second)
		for {
			ctx, cancel := context.WithTimeout(context.Background(), 30*time.Second)
			resp, err := api.Search(ctx, &seqproxyapi.SearchRequest{
				Query: &seqproxyapi.SearchQuery{Query: q.text, From: timestamppb.New(time.Unix(0, 0)), To: timestamppb.New(time.Now().Add(48 * time.Hour))}, Size: 10,
			})
			cancel()
			if err != nil {
				if !b.Alive() {
					return evid.Failf("bin-died", "[%s] seq-db died while searching %s: %s", cfg, short(q.text), b.Tail())
				}
				return evid.Failf("bin-search-error"+colonTag(r.c), "[%s] query %s: %v", cfg, short(q.text), err)
			}
			if len(resp.Docs) > 0 {
				break
			}
			// the first query may race the indexing of the bulk; later ones may not
			if !first || time.Now().After(deadline) {
				return evid.Failf("bin-"+q.what+"-miss"+colonTag(r.c), "[%s] the executable started with these flags does not find the document by %s, which matches the tokens the ingestor emits for this configuration", cfg, short(q.text))
			}
			time.Sleep(10 * time.Millisecond)
		}
		first = false
		r.res.Evals++
	}
	b.Stop()
	return nil
}

func TestProp(t *testing.T) {
	evid.For(t).Lazy()
	evid.Check(t, genCase, runCase)
}
func TestReplay(t *testing.T) { evid.Replay(t, runCase) }
