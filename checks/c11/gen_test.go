package c11

import (
	"os"
	"strconv"
	"strings"

	"pgregory.net/rapid"

	"github.com/ozontech/seq-db/consts"
)

// Generator.  Everything is built by construction from rapid draws; "simple / feature off"
// sits at draw value 0 so that shrinking moves towards plain ASCII keyword fields.

var (
	rootNames  = []string{"k", "msg", "URI", "lvl", "Имя", "a b", "x-y", "f*", "_u", "ß", "İd", "9", "Trace_ID", "e", "日本", "q'"}
	childNames = []string{"c", "Sub", "id", "тег", "n m", "v*", "Ⱥ"}
	titleNames = []string{"kw", "txt", "Path", "т", "a b", "x*", "K"}
	leafTypes  = []string{"keyword", "text", "path", "exists"}

	asciiAlnum = []string{"a", "b", "e", "x", "z", "A", "B", "Q", "Z", "0", "1", "7", "9"}
	wordSpec   = []string{"_", "*"}
	asciiSeps  = []string{" ", "/", "-", ".", ":", ",", ";", "!", "?", "@", "#", "$", "%", "&", "(", ")", "[", "]", "{", "}", "<", ">", "=", "+", "|", "~", "^"}
	quoteChars = []string{"'", "\"", "`", "\\"}
	pairs2     = []string{"ä", "Ä", "é", "É", "ß", "я", "Я", "ж", "Ж", "σ", "ς", "Σ", "ñ", "Ñ", "ǅ", "ǆ", "Ǆ"}
	// case pairs whose two forms differ in UTF-8 length: İ(2)->i(1), ẞ(3)->ß(2), Ⱥ(2)->ⱥ(3),
	// Ⱦ(2)->ⱦ(3), Kelvin K(3)->k(1), Angstrom Å(3)->å(2), Ohm Ω(3)->ω(2); plus ı, ſ (lower-case
	// letters whose upper-case form is ASCII)
	lenChange = []string{"\u0130", "\u1e9e", "\u023a", "\u023e", "\u212a", "\u212b", "\u2126", "\u2c65", "\u2c66", "\u0131", "\u017f"}
	// decimal digits (Nd) outside ASCII, then numbers that are not digits (No, Nl), two of
	// them with a case mapping (Ⅷ/ⅷ)
	uniDigits = []string{"٣", "५", "５", "\U0001d7d7", "²", "½", "Ⅷ", "ⅷ", "①", "〇", "൰"}
	otherUni  = []string{"中", "א", "ع", "ʰ", "ª", "\u0301", "😀", "€", "—", "Ⓐ", "ⓐ", "™", "\u00a0", "\u2028", "\u200b", "\ufeff", "\ufffd", "\ue001", "\uf8ff", "\U0010ffff"}
	controls  = []string{"\t", "\n", "\r", "\x00", "\x7f", "\x1f"}
	invalids  = []string{"\xff", "\xc3", "\x80", "\xc0\xaf", "\xed\xa0\x80", "\xf0\x9f\x98"}

	vocab    = []string{"error", "Error", "code", "GET", "user_id", "42", "timeout", "Ünïcode", "ПРИВЕТ", "x²", "\u0130stanbul", "straße", "STRASSE", "a*b", "*", "_", "\u212a9", "v1.2"}
	wordSeps = []string{" ", "/", "-", ": ", ", ", "\t", "."}
	units    = []string{"x", "aB", "Ab/", "w ", "\u023a", "\u0130", "яЖ", "\u1e9e/", "\u212a_", "٣²", "*", "É x"}
	straddle = []string{"Ä", "\u023a", "\u1e9e", "😀", "\u0130", "\u212a", "中"}
	rawLits  = []string{"0", "-1", "1.50", "1e3", "true", "false", "null", "12345678901234567890", "-0.0"}
)

// excludeKnown keeps triggers of findings already saved under replays/C11 out of the
// campaign (C11_INCLUDE_KNOWN=1 generates them again).
var excludeKnown = os.Getenv("C11_EXCLUDE_FIXED") != "" // the three findings are repaired: generate their classes again

type genCtx struct {
	cs       bool
	noInv    bool // current field: case sensitive and indexed as keyword or path (known finding)
	maxTok   int
	excluded int
}

func pickS(t *rapid.T, xs []string, label string) string {
	return xs[rapid.IntRange(0, len(xs)-1).Draw(t, label)]
}

func (g *genCtx) atom(t *rapid.T) string {
	switch rapid.IntRange(0, 15).Draw(t, "aclass") {
	case 5:
		return pickS(t, wordSpec, "a")
	case 6, 7:
		return pickS(t, asciiSeps, "a")
	case 8:
		return pickS(t, quoteChars, "a")
	case 9:
		return pickS(t, pairs2, "a")
	case 10:
		return pickS(t, lenChange, "a")
	case 11:
		return pickS(t, uniDigits, "a")
	case 12:
		return pickS(t, otherUni, "a")
	case 13:
		return pickS(t, controls, "a")
	case 14:
		a := pickS(t, invalids, "a")
		if g.noInv && excludeKnown {
			// known finding (sig keyword-whole-miss etc.): case sensitive + raw invalid bytes in a value
			g.excluded++
			return "\ufffd"
		}
		return a
	default:
		return pickS(t, asciiAlnum, "a")
	}
}

func fill(unit string, n int) string {
	if n <= 0 {
		return ""
	}
	var b []byte
	for len(b) < n {
		b = append(b, unit...)
	}
	b = b[:alignDown(b, n)]
	for len(b) < n {
		b = append(b, 'y')
	}
	return string(b)
}

func (g *genCtx) sized(t *rapid.T, limit int) string {
	if rapid.IntRange(0, 5).Draw(t, "straddle") == 5 {
		// a multi-byte rune lies across the limit
		r := pickS(t, straddle, "srune")
		k := rapid.IntRange(1, len(r)-1).Draw(t, "sbefore")
		pre := limit - k
		if pre < 0 {
			pre = 0
		}
		return fill(pickS(t, units, "unit"), pre) + r + pickS(t, []string{"", "z", "/q", "Z z"}, "stail")
	}
	d := rapid.IntRange(-2, 2).Draw(t, "delta")
	if rapid.IntRange(0, 5).Draw(t, "far") == 5 {
		d = rapid.IntRange(3, 40).Draw(t, "fardelta")
	}
	return fill(pickS(t, units, "unit"), limit+d)
}

// value draws the bytes of one string value.  hints are the size limits that apply to the
// field (per-type sizes, max token size, the text field length).
func (g *genCtx) value(t *rapid.T, hints []int, pathy bool) string {
	vk := rapid.IntRange(0, 11).Draw(t, "vkind")
	if pathy && (vk == 1 || vk == 2 || vk == 3) {
		vk = 6 // fields with a path type mostly get path-like values
	}
	switch vk {
	case 0, 1:
		n := rapid.IntRange(1, 4).Draw(t, "nwords")
		var b strings.Builder
		for i := 0; i < n; i++ {
			if i > 0 {
				b.WriteString(pickS(t, wordSeps, "wsep"))
			}
			b.WriteString(pickS(t, vocab, "word"))
		}
		return b.String()
	case 2, 3, 4, 5:
		n := rapid.IntRange(0, 10).Draw(t, "natoms")
		var b strings.Builder
		for i := 0; i < n; i++ {
			b.WriteString(g.atom(t))
		}
		return b.String()
	case 6:
		var b strings.Builder
		if rapid.Bool().Draw(t, "lead") {
			b.WriteByte('/')
		}
		n := rapid.IntRange(1, 4).Draw(t, "nseg")
		for i := 0; i < n; i++ {
			if i > 0 {
				b.WriteByte('/')
				if rapid.IntRange(0, 7).Draw(t, "dbl") == 7 {
					b.WriteByte('/')
				}
			}
			m := rapid.IntRange(0, 3).Draw(t, "seglen")
			for j := 0; j < m; j++ {
				b.WriteString(g.atom(t))
			}
		}
		if rapid.IntRange(0, 3).Draw(t, "trail") == 3 {
			b.WriteByte('/')
		}
		return b.String()
	case 7, 8, 9:
		h := hints[rapid.IntRange(0, len(hints)-1).Draw(t, "hint")]
		if h >= 4096 && rapid.IntRange(0, 2).Draw(t, "bigok") != 2 {
			h = g.maxTok
		}
		return g.sized(t, h)
	case 10:
		// a word around the max token size inside a text
		w := g.sized(t, g.maxTok)
		return pickS(t, []string{"", "pre ", "a/", "Ж-"}, "wpre") + w + pickS(t, []string{"", " post", "/", ".x"}, "wpost")
	default:
		return pickS(t, []string{"", " ", "*", "/", "//", "_", "\\", "\"", "''", "-", "#", "in", "AND", "not"}, "special")
	}
}

func genSize(t *rapid.T) int {
	if rapid.IntRange(0, 3).Draw(t, "sized") == 0 {
		return 0
	}
	return rapid.IntRange(1, 48).Draw(t, "size")
}

func distinct(t *rapid.T, pool []string, used map[string]bool, label string) string {
	i := rapid.IntRange(0, len(pool)-1).Draw(t, label)
	for used[pool[i]] {
		i = (i + 1) % len(pool)
	}
	used[pool[i]] = true
	return pool[i]
}

func genLeaf(t *rapid.T, name string) MField {
	f := MField{Name: name}
	k := rapid.IntRange(0, 7).Draw(t, "leafkind")
	if k <= 5 {
		ty := []string{"keyword", "keyword", "text", "text", "path", "exists"}[k]
		if rapid.IntRange(0, 2).Draw(t, "newstyle") == 2 {
			f.Types = []TypeIn{{Type: ty, Size: genSize(t)}}
		} else {
			f.Type = ty
		}
		return f
	}
	// several types: the main one without title, the others titled
	f.Types = []TypeIn{{Type: pickS(t, leafTypes, "maintype"), Size: genSize(t)}}
	used := map[string]bool{}
	n := rapid.IntRange(1, 2).Draw(t, "ntitled")
	for i := 0; i < n; i++ {
		f.Types = append(f.Types, TypeIn{Title: distinct(t, titleNames, used, "title"), Type: pickS(t, leafTypes, "ttype"), Size: genSize(t)})
	}
	if rapid.Bool().Draw(t, "mainlast") {
		// the main type need not come first
		f.Types[0], f.Types[len(f.Types)-1] = f.Types[len(f.Types)-1], f.Types[0]
	}
	return f
}

func genKids(t *rapid.T, allowObject bool) []MField {
	used := map[string]bool{}
	n := rapid.IntRange(1, 3).Draw(t, "nkids")
	var out []MField
	for i := 0; i < n; i++ {
		name := distinct(t, childNames, used, "kidname")
		if allowObject && rapid.IntRange(0, 9).Draw(t, "kidobj") == 9 {
			out = append(out, MField{Name: name, Type: "object", Kids: genKids(t, false)})
			continue
		}
		out = append(out, genLeaf(t, name))
	}
	return out
}

func genMapping(t *rapid.T) []MField {
	used := map[string]bool{}
	n := rapid.IntRange(1, 4).Draw(t, "nfields")
	var out []MField
	for i := 0; i < n; i++ {
		name := distinct(t, rootNames, used, "name")
		switch rapid.IntRange(0, 9).Draw(t, "fieldkind") {
		case 7:
			out = append(out, MField{Name: name, Type: "object", Kids: genKids(t, true)})
		case 8:
			out = append(out, MField{Name: name, Type: "tags", Kids: genKids(t, false)})
		case 9:
			out = append(out, MField{Name: name, Type: "nested", Kids: genKids(t, true)})
		default:
			out = append(out, genLeaf(t, name))
		}
	}
	return out
}

func hasType(f *MField, ty string) bool {
	if f.Type == ty {
		return true
	}
	for _, x := range f.Types {
		if x.Type == ty {
			return true
		}
	}
	return false
}

func (g *genCtx) hints(f *MField) []int {
	var h []int
	add := func(ty string, size int) {
		switch ty {
		case "keyword", "path":
			if size == 0 {
				size = g.maxTok
			}
			h = append(h, size)
		case "text":
			if size == 0 {
				size = consts.MaxTextFieldValueLength
			}
			h = append(h, size, g.maxTok)
		}
	}
	if len(f.Types) > 0 {
		for _, ty := range f.Types {
			add(ty.Type, ty.Size)
		}
	} else {
		add(f.Type, 0)
	}
	if len(h) == 0 {
		h = append(h, g.maxTok)
	}
	return h
}

func (g *genCtx) leafValue(t *rapid.T, f *MField, key string) DVal {
	if rapid.IntRange(0, 11).Draw(t, "rawlit") == 11 {
		return DVal{Key: key, Kind: "r", S: pickS(t, rawLits, "lit")}
	}
	g.noInv = g.cs && (hasType(f, "keyword") || hasType(f, "path"))
	return DVal{Key: key, Kind: "s", S: strconv.Quote(g.value(t, g.hints(f), hasType(f, "path")))}
}

func (g *genCtx) object(t *rapid.T, fields []MField) []DVal {
	out := []DVal{}
	for i := range fields {
		f := &fields[i]
		if rapid.IntRange(0, 7).Draw(t, "absent") == 7 {
			continue
		}
		switch {
		case len(f.Types) == 0 && f.Type == "object":
			out = append(out, DVal{Key: f.Name, Kind: "o", Obj: g.object(t, f.Kids)})
		case len(f.Types) == 0 && f.Type == "tags":
			d := DVal{Key: f.Name, Kind: "a", Arr: [][]DVal{}}
			for j := range f.Kids {
				if rapid.IntRange(0, 3).Draw(t, "notag") == 3 {
					continue
				}
				el := []DVal{{Key: "key", Kind: "s", S: strconv.Quote(f.Kids[j].Name)}}
				if rapid.IntRange(0, 11).Draw(t, "novalue") != 11 {
					el = append(el, g.leafValue(t, &f.Kids[j], "value"))
				}
				if len(el) == 2 && rapid.Bool().Draw(t, "valuefirst") {
					el[0], el[1] = el[1], el[0]
				}
				d.Arr = append(d.Arr, el)
			}
			if rapid.IntRange(0, 7).Draw(t, "unmappedtag") == 7 {
				d.Arr = append(d.Arr, []DVal{{Key: "key", Kind: "s", S: strconv.Quote("zz")}, {Key: "value", Kind: "s", S: strconv.Quote("ignored")}})
			}
			out = append(out, d)
		case len(f.Types) == 0 && f.Type == "nested":
			d := DVal{Key: f.Name, Kind: "a", Arr: [][]DVal{}}
			n := rapid.IntRange(1, 3).Draw(t, "nnested")
			for j := 0; j < n; j++ {
				d.Arr = append(d.Arr, g.object(t, f.Kids))
			}
			out = append(out, d)
		default:
			out = append(out, g.leafValue(t, f, f.Name))
		}
	}
	return out
}

func genCase(t *rapid.T) Case {
	var c Case
	c.Mapping = genMapping(t)
	c.CS = rapid.IntRange(0, 2).Draw(t, "cs") == 2
	c.Partial = rapid.Bool().Draw(t, "partial")
	switch k := rapid.IntRange(0, 9).Draw(t, "maxtokkind"); {
	case k <= 3:
		c.MaxTok = consts.DefaultMaxTokenSize
	case k <= 7:
		c.MaxTok = rapid.IntRange(1, 24).Draw(t, "maxtok")
	case k == 8:
		c.MaxTok = 1024
	default:
		c.MaxTok = rapid.IntRange(25, 200).Draw(t, "maxtok")
	}
	g := &genCtx{cs: c.CS, maxTok: c.MaxTok}
	c.Doc = g.object(t, c.Mapping)
	if rapid.IntRange(0, 7).Draw(t, "noise") == 7 {
		c.Doc = append(c.Doc, DVal{Key: "unmapped", Kind: "s", S: strconv.Quote("Not Indexed")})
	}
	c.Excluded = g.excluded
	for i := 0; i < 6; i++ {
		st := rapid.IntRange(0, stMax).Draw(t, "style")
		if !excludeKnown {
			st |= rapid.IntRange(0, 3).Draw(t, "knownstyle") << 8
		}
		c.Styles = append(c.Styles, st)
	}
	c.JSONEsc = []int{0, 0, 1, 2}[rapid.IntRange(0, 3).Draw(t, "jsonesc")]
	c.E2E = rapid.IntRange(0, 63).Draw(t, "e2e") == 63
	c.Bin = os.Getenv("C11_BIN") != "" // the campaign through the real executable
	c.Reload = rapid.IntRange(0, 7).Draw(t, "reload") == 7
	return c
}
