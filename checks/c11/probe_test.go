//go:build verif

package c11

import (
	"context"
	"encoding/binary"
	"fmt"
	"testing"
	"time"

	"github.com/ozontech/seq-db/disk"
	"github.com/ozontech/seq-db/frac"
	"github.com/ozontech/seq-db/parser"
	"github.com/ozontech/seq-db/proxy/bulk"
	"github.com/ozontech/seq-db/seq"
)

type pmp struct{ m seq.Mapping }

func (p pmp) GetMapping() seq.Mapping        { return p.m }
func (p pmp) GetRawMapping() *seq.RawMapping { return nil }

type pcap struct{ metas []byte }

func (c *pcap) StoreDocuments(_ context.Context, n int, d, m []byte) error {
	c.metas = append([]byte{}, m...)
	return nil
}

func TestProbe(t *testing.T) {
	m, err := seq.ReadMapping([]byte(`
mapping-list:
  - name: k
    type: keyword
  - name: "a b"
    type: keyword
  - name: t
    types:
      - type: text
      - title: kw
        type: keyword
        size: 5
  - name: p
    type: path
  - name: o
    type: object
    mapping-list:
      - name: c
        type: keyword
`))
	fmt.Println(m, err)
	for _, cs := range []bool{false, true} {
		c := &pcap{}
		ing := bulk.NewIngestor(bulk.IngestorConfig{MaxInflightBulks: 1, AllowedTimeDrift: time.Hour, FutureAllowedTimeDrift: time.Minute, MappingProvider: pmp{m}, MaxTokenSize: 72, CaseSensitive: cs, PartialFieldIndexing: true, DocsZSTDCompressLevel: -1, MetasZSTDCompressLevel: -1}, c)
		docs := []string{
			"{\"k\":\"A\xffB\",\"a b\":\"x\",\"t\":\"Hello wörld x²y\",\"p\":\"/A/b//c/\",\"o\":{\"c\":\"\\u0130\\ud83d\\ude00\\ud800\"}}",
			"{\"k\":1.50,\"a\\u0020b\":true,\"t\":null,\"p\":\"\",\"o\":{\"c\":\"\\q\\/\"}}",
		}
		for _, d := range docs {
			i := 0
			n, err := ing.ProcessDocuments(context.Background(), time.Now(), func() ([]byte, error) {
				i++
				if i > 1 {
					return nil, nil
				}
				return []byte(d), nil
			})
			fmt.Println(n, err)
			b, err := disk.DocBlock(c.metas).DecompressTo(nil)
			if err != nil {
				t.Fatal(err)
			}
			for len(b) > 0 {
				l := binary.LittleEndian.Uint32(b)
				var md frac.MetaData
				if err := md.UnmarshalBinary(b[4 : 4+l]); err != nil {
					t.Fatal(err)
				}
				b = b[4+l:]
				for _, tk := range md.Tokens {
					fmt.Printf("  %q:%q\n", tk.Key, tk.Value)
				}
			}
		}
		ing.Stop()
	}
	for _, q := range []string{"k:\"a\xffb\"", `k:'\xff'`, "k:`a*b\r`", `t:x²y`, `"a b":x`, `_exists_:"a b"`, `_exists_:t.kw`, `k:in`, "k:\"a\nb\"", `k:"a\nb"`, `k:"\q"`, `k:'a"b'`, `k:'a\"b'`, `k:"a'b"`, `k:"a\'b"`} {
		ast, err := parser.ParseSeqQL(q, m)
		if err != nil {
			fmt.Printf("%q -> err %v\n", q, err)
			continue
		}
		fmt.Printf("%q -> %q\n", q, ast.Root.String())
		if l, ok := ast.Root.Value.(*parser.Literal); ok {
			fmt.Printf("     terms %q\n", l.Terms)
		}
	}
}
