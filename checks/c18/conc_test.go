//go:build verif

// C18, part 2: the concurrent run (built with -race by the driver).
//
// K reader goroutines hammer a few keys of a few shared caches with slow loaders, loaders
// that return errors and loaders that panic, while ONE cleaner goroutine runs the operations
// of the real clean loop (Rotate, Cleanup, CleanEmptyGenerations, ReleaseBuckets) and "churn"
// goroutines create a private cache, use it and release it - what fractions coming and going
// do.  The scripts are generated (rapid); the interleaving is whatever the scheduler makes of
// it, so a failure of this part is evidence with a goroutine/race report, not a deterministic
// replay.  Checked: every returned value is a complete value produced by a SUCCESSFUL loader of
// that very (cache,key); a lookup that did not run its loader reports neither error nor
// panic; a failing loader's error/panic reaches exactly its caller; a loader runs at most
// once per lookup; nothing deadlocks; no data race; at quiescence the accounted size equals
// the live bytes, every non-released cache is still managed, a cleaning pass brings the size
// under the limit, and after releasing everything the cleaner is empty.
package c18

import (
	"errors"
	"fmt"
	"runtime"
	"sort"
	"strings"
	"sync"
	"sync/atomic"
	"testing"
	"time"

	"pgregory.net/rapid"

	"github.com/ozontech/seq-db/cache"

	"verif/internal/evid"
)

type WOp struct {
	Cache int    `json:"c,omitempty"`
	Key   uint32 `json:"key,omitempty"`
	Kind  string `json:"k"` // get, gete, err, panic, epanic
	Size  int    `json:"size,omitempty"`
	Slow  int    `json:"slow,omitempty"` // loader duration: scheduler yields; above 20 also (Slow-20)*20µs of sleep
}

type COp struct {
	Kind string `json:"k"`           // rotate, cleanup, pass, cleanempty, relbuckets, gc, yield
	N    int    `json:"n,omitempty"` // yield: number of scheduler yields
}

type Round struct {
	Gets    []WOp `json:"gets"`              // on the private cache of this round (Cache is ignored)
	Keep    bool  `json:"keep,omitempty"`    // the cache is not released by its goroutine: it lives until quiescence
	SlowRel int   `json:"slowrel,omitempty"` // > 0: registered through a slowBucket whose Released() takes that many scheduler yields
}

type ConcCase struct {
	Limit    uint64    `json:"limit"`
	Caches   int       `json:"caches"`  // shared caches
	Workers  [][]WOp   `json:"workers"` // one script per reader goroutine
	Cleaner  []COp     `json:"cleaner"`
	Churn    [][]Round `json:"churn,omitempty"` // one script per churn goroutine
	Excluded int       `json:"excluded,omitempty"`
}

var concKinds = []string{kGet, kGet, kGet, kGet, kGet, kGetE, kGetE, kErr, kErr, kPanic, kEPanic}
var cleanerKinds = []string{"yield", "yield", kPass, kPass, kPass, kCleanup, kCleanup, kRotate, kRotate, kCleanEmpty, kRelBuckets, kRelBuckets, kRelBuckets, kGC, kGC, kGC}

func genWOp(t *rapid.T, caches, keys int, limit uint64) WOp {
	op := WOp{Kind: rapid.SampledFrom(concKinds).Draw(t, "kind")}
	op.Cache = rapid.IntRange(0, caches-1).Draw(t, "cache")
	op.Key = uint32(rapid.IntRange(0, keys-1).Draw(t, "key"))
	if op.Kind == kGet || op.Kind == kGetE {
		if rapid.IntRange(0, 15).Draw(t, "big") == 15 {
			op.Size = int(limit) + rapid.IntRange(0, 100).Draw(t, "over")
		} else {
			op.Size = rapid.IntRange(0, 400).Draw(t, "size")
		}
	}
	op.Slow = rapid.IntRange(0, 24).Draw(t, "slow")
	return op
}

func genConc(t *rapid.T) ConcCase {
	var c ConcCase
	c.Limit = rapid.Uint64Range(150, 3000).Draw(t, "limit")
	c.Caches = rapid.IntRange(1, 3).Draw(t, "caches")
	keys := rapid.IntRange(1, 4).Draw(t, "keys")
	nw := rapid.IntRange(2, 6).Draw(t, "workers")
	minOps := rapid.IntRange(1, 25).Draw(t, "minops")
	for w := 0; w < nw; w++ {
		c.Workers = append(c.Workers, rapid.SliceOfN(rapid.Custom(func(t *rapid.T) WOp {
			return genWOp(t, c.Caches, keys, c.Limit)
		}), minOps, 50).Draw(t, "script"))
	}
	c.Cleaner = rapid.SliceOfN(rapid.Custom(func(t *rapid.T) COp {
		op := COp{Kind: rapid.SampledFrom(cleanerKinds).Draw(t, "ckind")}
		if op.Kind == "yield" {
			op.N = rapid.IntRange(1, 40).Draw(t, "n")
		}
		return op
	}), minOps, 80).Draw(t, "cleaner")
	nc := rapid.IntRange(0, 3).Draw(t, "churners")
	for i := 0; i < nc; i++ {
		c.Churn = append(c.Churn, rapid.SliceOfN(rapid.Custom(func(t *rapid.T) Round {
			r := Round{Gets: rapid.SliceOfN(rapid.Custom(func(t *rapid.T) WOp {
				return genWOp(t, 1, 3, c.Limit)
			}), 0, 4).Draw(t, "gets")}
			r.Keep = rapid.IntRange(0, 2).Draw(t, "keep") == 2
			if rapid.Bool().Draw(t, "slowbucket") {
				r.SlowRel = rapid.IntRange(1, 30).Draw(t, "slowrel")
			}
			return r
		}), 1, 12).Draw(t, "rounds"))
	}
	return c
}

// ---------------------------------------------------------------------------------------

const (
	outcomeNone int32 = iota
	outcomeOK
	outcomeErr
	outcomePanic
)

type conc struct {
	cl       *cache.Cleaner
	limit    uint64
	shared   []*cache.Cache[val]
	ver      atomic.Uint64
	outcomes []atomic.Int32 // by load number: how that loader call ended

	// recorded findings excluded by construction (see c18_test.go): with the exclusion on,
	// CleanEmptyGenerations does not overlap lookups, and Cleanup does not overlap lookups
	// whose loader fails; everything else overlaps freely
	gateGen, gateFail, gateReg sync.RWMutex

	servedByOthers atomic.Int64 // lookups answered without running their own loader
	waitedReloads  atomic.Int64
	loads          atomic.Int64
	failedLoads    atomic.Int64
	evictedBytes   atomic.Uint64
	cleanedPasses  atomic.Int64
}

func slowDown(n int) {
	for i := 0; i < n && i < 20; i++ {
		runtime.Gosched()
	}
	if n > 20 {
		time.Sleep(time.Duration(n-20) * 20 * time.Microsecond)
	}
}

// lookup runs one Get/GetWithError on c (index ci for value tagging) and judges it.
func (s *conc) lookup(c *cache.Cache[val], ci int, op WOp) error {
	failing := op.Kind == kErr || op.Kind == kPanic || op.Kind == kEPanic
	if excludeOrphanGeneration {
		s.gateGen.RLock()
		defer s.gateGen.RUnlock()
	}
	if failing && excludeForeignEntryDeleted {
		s.gateFail.RLock()
		defer s.gateFail.RUnlock()
	}
	calls := 0
	var mine val
	var myErr *loadErr
	var myPanic *loadPanic
	load := func(outcome int32) {
		calls++
		v := s.ver.Add(1)
		mine = mkVal(ci, op.Key, v)
		slowDown(op.Slow)
		if int(v) < len(s.outcomes) {
			s.outcomes[v].Store(outcome)
		}
	}
	var got val
	var gotErr error
	var gotPanic any
	func() {
		defer func() { gotPanic = recover() }()
		switch op.Kind {
		case kGet:
			got = c.Get(op.Key, func() (val, int) { load(outcomeOK); return mine, op.Size })
		case kGetE:
			got, gotErr = c.GetWithError(op.Key, func() (val, int, error) { load(outcomeOK); return mine, op.Size, nil })
		case kErr:
			got, gotErr = c.GetWithError(op.Key, func() (val, int, error) {
				load(outcomeErr)
				myErr = &loadErr{mine.Ver}
				return mine, 0, myErr
			})
		case kPanic:
			got = c.Get(op.Key, func() (val, int) { load(outcomePanic); myPanic = &loadPanic{mine.Ver}; panic(myPanic) })
		case kEPanic:
			got, gotErr = c.GetWithError(op.Key, func() (val, int, error) { load(outcomePanic); myPanic = &loadPanic{mine.Ver}; panic(myPanic) })
		}
	}()
	where := fmt.Sprintf("%s(cache %d, key %d)", op.Kind, ci, op.Key)
	switch {
	case calls > 1:
		return evid.Failf("loader-called-twice", "%s: the loader was called %d times by one lookup", where, calls)
	case calls == 0:
		if gotPanic != nil || gotErr != nil {
			return evid.Failf("failure-without-load", "%s: loader not called, yet the lookup reported err=%v panic=%v (somebody else's failure leaked)", where, gotErr, gotPanic)
		}
		if !got.wellFormed(ci, op.Key) {
			return evid.Failf("wrong-value", "%s: served %v, which is not a complete value of this key", where, got)
		}
		if int(got.Ver) >= len(s.outcomes) {
			return evid.Failf("wrong-value", "%s: served %v, no loader call has that number", where, got)
		}
		if o := s.outcomes[got.Ver].Load(); o != outcomeOK {
			return evid.Failf("value-of-unfinished-or-failed-load", "%s: served %v, but that loader call ended with outcome %d (1 = success, 0 = not finished, 2 = error, 3 = panic)", where, got, o)
		}
		s.servedByOthers.Add(1)
	default:
		s.loads.Add(1)
		switch op.Kind {
		case kGet, kGetE:
			if gotPanic != nil || gotErr != nil {
				return evid.Failf("spurious-failure", "%s: loader succeeded, lookup reported err=%v panic=%v", where, gotErr, gotPanic)
			}
			if got != mine {
				return evid.Failf("wrong-value", "%s: lookup returned %v, its own loader produced %v", where, got, mine)
			}
		case kErr:
			s.failedLoads.Add(1)
			if gotPanic != nil {
				return evid.Failf("spurious-failure", "%s: loader returned an error, lookup panicked: %v", where, gotPanic)
			}
			if !errors.Is(gotErr, error(myErr)) {
				return evid.Failf("error-lost", "%s: loader returned %v, lookup returned err=%v value=%v", where, myErr, gotErr, got)
			}
		case kPanic, kEPanic:
			s.failedLoads.Add(1)
			if p, ok := gotPanic.(*loadPanic); !ok || p != myPanic {
				return evid.Failf("panic-lost", "%s: loader panicked with %v, lookup returned value=%v err=%v panic=%v", where, myPanic, got, gotErr, gotPanic)
			}
		}
	}
	return nil
}

func (s *conc) cleanup() {
	if excludeForeignEntryDeleted {
		s.gateFail.Lock()
		defer s.gateFail.Unlock()
	}
	if excludeRegisterDuringCleanup {
		s.gateReg.Lock()
		defer s.gateReg.Unlock()
	}
	var st cache.CleanStat
	if s.cl.Cleanup(&st) {
		s.cleanedPasses.Add(1)
		s.evictedBytes.Add(st.BytesReleased)
	}
}

func (s *conc) cleanEmpty() {
	if excludeOrphanGeneration {
		s.gateGen.Lock()
		defer s.gateGen.Unlock()
	}
	s.cl.CleanEmptyGenerations()
}

func (s *conc) cleanerOp(op COp) {
	switch op.Kind {
	case "yield":
		for i := 0; i < op.N && i < 1000; i++ {
			runtime.Gosched()
		}
	case kRotate:
		s.cl.Rotate()
	case kCleanup:
		s.cleanup()
	case kPass:
		s.cl.Rotate()
		s.cleanup()
	case kCleanEmpty:
		s.cleanEmpty()
	case kRelBuckets:
		s.cl.ReleaseBuckets()
	case kGC:
		s.cleanEmpty()
		s.cl.ReleaseBuckets()
	}
}

// private is a cache created by a churn goroutine, with what the cleaner holds for it
type private struct {
	c        *cache.Cache[val]
	id       any
	released bool
}

// quiescent: nothing runs.  The cleaner manages every non-released cache exactly once (and,
// right after ReleaseBuckets, nothing else), released caches hold nothing, and the accounted
// size is the sum of the live entries of the non-released caches.
func (s *conc) quiescent(where string, privates []*private, sharedReleased, afterRelBuckets bool) error {
	held := map[any]int{}
	bs := s.cl.VerifBuckets()
	for _, b := range bs {
		held[b]++
	}
	sum := uint64(0)
	expected := 0
	var detail []string
	one := func(name string, id any, c *cache.Cache[val], released bool) error {
		n := held[id]
		live := c.VerifLiveSize()
		if !released && live > 0 {
			_, slow := id.(*slowBucket)
			detail = append(detail, fmt.Sprintf("%s slow=%v: %d", name, slow, live))
		}
		switch {
		case !released && n == 0:
			return evid.Failf("live-cache-dropped", "%s: %s is not released but the cleaner no longer manages it (%d buckets held)", where, name, len(bs))
		case n > 1:
			return evid.Failf("bucket-duplicated", "%s: the cleaner holds %s %d times", where, name, n)
		case released && afterRelBuckets && n > 0:
			return evid.Failf("released-bucket-retained", "%s: %s was released, yet ReleaseBuckets left it in the cleaner", where, name)
		case released && live != 0:
			return evid.Failf("released-cache-holds-entries", "%s: released %s still holds %d bytes", where, name, live)
		}
		expected += n
		if !released {
			sum += live
		}
		return nil
	}
	for i, c := range s.shared {
		if err := one(fmt.Sprintf("shared cache %d", i), c, c, sharedReleased); err != nil {
			return err
		}
	}
	for i, p := range privates {
		if err := one(fmt.Sprintf("private cache %d", i), p.id, p.c, p.released); err != nil {
			return err
		}
	}
	if expected != len(bs) {
		return evid.Failf("bucket-foreign", "%s: the cleaner holds %d buckets, only %d are caches created on it", where, len(bs), expected)
	}
	if acc := s.cl.VerifSize(); acc != sum {
		return evid.Failf("accounting", "%s: the cleaner accounts %d bytes, the live entries of its non-released caches sum to %d (%s)", where, acc, sum, strings.Join(detail, "; "))
	}
	return nil
}

// yieldingBucket: see slowBucket; here Released() simply takes a few scheduler yields.
func yieldingBucket(c *cache.Cache[val], n int) *slowBucket {
	return &slowBucket{c: c, onReleased: func() {
		for i := 0; i < n && i < 100; i++ {
			runtime.Gosched()
		}
	}}
}

func runConcBody(c ConcCase) (evid.Result, error) {
	res := evid.Result{}
	if c.Caches < 1 || c.Caches > 8 || len(c.Workers) > 32 || len(c.Churn) > 8 {
		return res, nil
	}
	s := &conc{cl: cache.NewCleaner(c.Limit, newCleanerMetrics()), limit: c.Limit}
	for i := 0; i < c.Caches; i++ {
		s.shared = append(s.shared, cache.NewCache[val](s.cl, newMetrics()))
	}
	total := 0
	keys := map[[2]uint32]bool{}
	for _, w := range c.Workers {
		total += len(w)
		for _, op := range w {
			if op.Cache < 0 || op.Cache >= c.Caches || op.Size < 0 {
				return res, nil // outside the domain (hand-written file)
			}
			keys[[2]uint32{uint32(op.Cache), op.Key}] = true
		}
	}
	for _, ch := range c.Churn {
		for _, r := range ch {
			total += len(r.Gets)
		}
	}
	s.outcomes = make([]atomic.Int32, total+len(keys)+len(c.Churn)*16+8)

	var wg sync.WaitGroup
	start := make(chan struct{})
	errs := make([]error, len(c.Workers)+len(c.Churn))
	for wi, script := range c.Workers {
		wg.Add(1)
		go func() {
			defer wg.Done()
			<-start
			for _, op := range script {
				if err := s.lookup(s.shared[op.Cache], op.Cache, op); err != nil {
					errs[wi] = err
					return
				}
			}
		}()
	}
	churned := make([][]*private, len(c.Churn))
	for ci, script := range c.Churn {
		wg.Add(1)
		go func() {
			defer wg.Done()
			<-start
			for ri, r := range script {
				mt := newMetrics()
				p := &private{}
				if excludeRegisterDuringCleanup {
					s.gateReg.RLock()
				}
				if r.SlowRel > 0 {
					p.c = cache.NewCache[val](nil, mt)
					b := yieldingBucket(p.c, r.SlowRel)
					p.id = b
					s.cl.AddBucket(b)
				} else {
					p.c = cache.NewCache[val](s.cl, mt)
					p.id = p.c
				}
				if excludeRegisterDuringCleanup {
					s.gateReg.RUnlock()
				}
				churned[ci] = append(churned[ci], p)
				tag := 100 + ci*100 + ri
				for _, op := range r.Gets {
					if op.Size < 0 {
						continue
					}
					if err := s.lookup(p.c, tag, op); err != nil {
						errs[len(c.Workers)+ci] = err
						return
					}
				}
				if !r.Keep {
					p.c.Release()
					p.released = true
				}
			}
		}()
	}
	wg.Add(1)
	go func() {
		defer wg.Done()
		<-start
		for _, op := range c.Cleaner {
			s.cleanerOp(op)
		}
	}()
	close(start)
	wg.Wait()

	for _, err := range errs {
		if err != nil {
			return res, err
		}
	}
	var privates []*private
	kept := 0
	for _, l := range churned {
		privates = append(privates, l...)
		for _, p := range l {
			if !p.released {
				kept++
			}
		}
	}
	evals := total
	// quiescence: accounting and management
	if err := s.quiescent("at quiescence", privates, false, false); err != nil {
		return res, err
	}
	// a cleaning pass without concurrent lookups brings the accounted size under the limit
	s.cl.Rotate()
	s.cleanup()
	if acc := s.cl.VerifSize(); s.limit > 0 && acc > s.limit {
		return res, evid.Failf("over-limit-after-cleanup", "after the quiescent cleaning pass the accounted size %d is still above the limit %d", acc, s.limit)
	}
	if err := s.quiescent("after the quiescent cleaning pass", privates, false, false); err != nil {
		return res, err
	}
	// no key is poisoned: every key can still be looked up and yields a complete value
	ks := make([][2]uint32, 0, len(keys))
	for k := range keys {
		ks = append(ks, k)
	}
	sort.Slice(ks, func(i, j int) bool { return ks[i][0] < ks[j][0] || (ks[i][0] == ks[j][0] && ks[i][1] < ks[j][1]) })
	for _, k := range ks {
		if err := s.lookup(s.shared[k[0]], int(k[0]), WOp{Kind: kGet, Cache: int(k[0]), Key: k[1], Size: 1}); err != nil {
			return res, err
		}
	}
	// the caches that outlived their goroutines are still usable and still cleaned
	for i, p := range privates {
		if !p.released {
			if err := s.lookup(p.c, 5000+i, WOp{Kind: kGet, Key: 9, Size: int(s.limit) + 1}); err != nil {
				return res, err
			}
		}
	}
	s.cl.Rotate()
	s.cleanup()
	if acc := s.cl.VerifSize(); s.limit > 0 && acc > s.limit {
		return res, evid.Failf("over-limit-after-cleanup", "after the final lookups and a cleaning pass the accounted size %d is still above the limit %d", acc, s.limit)
	}
	// ReleaseBuckets at quiescence: the cleaner manages exactly the non-released caches
	s.cl.ReleaseBuckets()
	if err := s.quiescent("after the final lookups and ReleaseBuckets", privates, false, true); err != nil {
		return res, err
	}
	// release everything: the cleaner ends up empty
	for _, sc := range s.shared {
		sc.Release()
	}
	for _, p := range privates {
		if !p.released {
			p.c.Release()
			p.released = true
		}
	}
	s.cl.ReleaseBuckets()
	if n := len(s.cl.VerifBuckets()); n != 0 {
		return res, evid.Failf("released-bucket-retained", "all caches released and ReleaseBuckets called, the cleaner still holds %d buckets", n)
	}
	if err := s.quiescent("after releasing everything", privates, true, true); err != nil {
		return res, err
	}
	evals += 10 + len(ks) + kept

	res.Evals = evals
	res.Labels = append(res.Labels, fmt.Sprintf("conc:workers:%d", len(c.Workers)), fmt.Sprintf("conc:churners:%d", len(c.Churn)))
	if s.servedByOthers.Load() > 0 {
		res.Labels = append(res.Labels, "conc:served-by-another-load")
	}
	if s.failedLoads.Load() > 0 {
		res.Labels = append(res.Labels, "conc:failed-loads")
	}
	if s.evictedBytes.Load() > 0 {
		res.Labels = append(res.Labels, "conc:evicted-during-run")
	}
	if len(privates) > kept {
		res.Labels = append(res.Labels, "conc:private-caches-released")
	}
	if kept > 0 {
		res.Labels = append(res.Labels, "conc:private-caches-kept")
	}
	res.Labels = append(res.Labels, exclusionLabels()...)
	if excludeRegisterDuringCleanup {
		res.Labels = append(res.Labels, "excluded-trigger:register-during-cleanup")
	}
	// NT: somebody was served a value loaded by another lookup, and the cleaner evicted during the run
	res.NonTrivial = s.servedByOthers.Load() > 0 && s.evictedBytes.Load() > 0
	return res, nil
}

var runConc = watchdog(runConcBody)

func TestPropConc(t *testing.T) { evid.Check(t, genConc, runConc) }

func TestReplayConc(t *testing.T) { evid.Replay(t, runConc) }
