package c18

// Family 4: the bound under the store's own clean loop.  "A cleaning pass that runs without
// concurrent lookups brings the accounted size back under the configured limit" - the pass in
// question is the one fracmanager.CacheMaintainer.RunCleanLoop makes at every tick (rotate the
// generations that are large enough, then retire old ones), not a direct call of the cleaner.
// A maintainer with a small cache size runs its real loop at a 1 ms tick; a generated schedule of
// loads (bursts of small and large entries, pauses in which ticks pass) goes into caches created
// by the maintainer; then the lookups stop and every cleaner has to be back under its limit.
// "Back under" is awaited for at most 20 s (thousands of ticks; a correct loop needs one or two).

import (
	"fmt"
	"testing"
	"time"

	"pgregory.net/rapid"

	"github.com/ozontech/seq-db/fracmanager"

	"verif/internal/evid"
)

type LoopStep struct {
	Cache   int `json:"cache"`    // 0 docs-block cache, 1 sorted-docs cache, 2 index MIDs, 3 index registry
	N       int `json:"n"`        // entries loaded in this step
	Size    int `json:"size"`     // bytes per entry
	PauseMs int `json:"pause_ms"` // pause after the step (ticks pass)
}

type LoopCase struct {
	CacheKB uint64     `json:"cache_kb"`
	SortPct int        `json:"sort_pct"` // sorted-docs cache as a share of the cache size
	Steps   []LoopStep `json:"steps"`
}

func genLoop(t *rapid.T) LoopCase {
	c := LoopCase{
		CacheKB: rapid.SampledFrom([]uint64{256, 1024, 4096, 64}).Draw(t, "cachekb"),
		SortPct: rapid.SampledFrom([]int{10, 0, 50, 95}).Draw(t, "sortpct"),
	}
	total := int(c.CacheKB) << 10
	for n := rapid.IntRange(2, 10).Draw(t, "nsteps"); n > 0; n-- {
		s := LoopStep{Cache: rapid.IntRange(0, 3).Draw(t, "cache")}
		switch rapid.IntRange(0, 3).Draw(t, "shape") {
		case 0: // a burst that fills a good part of the cache
			s.Size = rapid.SampledFrom([]int{1024, 4096, 16384}).Draw(t, "size")
			s.N = max(1, total/s.Size*rapid.IntRange(10, 150).Draw(t, "fillpct")/100)
		case 1: // a trickle: far less than the share of the limit that closes a generation
			s.Size = rapid.IntRange(1, 200).Draw(t, "tiny")
			s.N = rapid.IntRange(1, 40).Draw(t, "ntiny")
		case 2: // one entry as large as the whole cache
			s.Size = total
			s.N = 1
		default:
			s.Size = rapid.IntRange(1, 5000).Draw(t, "size2")
			s.N = rapid.IntRange(1, 300).Draw(t, "n2")
		}
		s.PauseMs = rapid.SampledFrom([]int{0, 0, 3, 15}).Draw(t, "pause")
		c.Steps = append(c.Steps, s)
	}
	return c
}

func runLoop(c LoopCase) (evid.Result, error) {
	res := evid.Result{}
	if c.CacheKB < 16 || c.CacheKB > 1<<16 || c.SortPct < 0 || c.SortPct > 100 || len(c.Steps) > 64 {
		return res, fmt.Errorf("case outside the domain")
	}
	total := c.CacheKB << 10
	cm := fracmanager.NewCacheMaintainer(total, total*uint64(c.SortPct)/100, nil)
	cleaners, labels := cm.VerifCleaners()
	done := make(chan struct{})
	wg := cm.RunCleanLoop(done, time.Millisecond, time.Hour)
	defer func() {
		close(done)
		wg.Wait()
	}()
	docs, sorted, idx := cm.CreateDocBlockCache(), cm.CreateSortDocsCache(), cm.CreateIndexCache()
	key := uint32(0)
	crossed := false
	for _, s := range c.Steps {
		if s.N < 0 || s.N > 1<<20 || s.Size < 0 || s.Size > 1<<28 {
			return res, fmt.Errorf("case outside the domain")
		}
		for i := 0; i < s.N; i++ {
			key++
			load := func() ([]byte, int) { return nil, s.Size } // the accounted size is what the loader reports
			switch s.Cache {
			case 0:
				docs.Get(key, load)
			case 1:
				sorted.Get(key, load)
			case 2:
				idx.MIDs.Get(key, load)
			default:
				idx.Registry.Get(key, load)
			}
		}
		for _, cl := range cleaners {
			if l := cl.SizeLimit(); l > 0 && cl.VerifSize() > l {
				crossed = true
			}
		}
		time.Sleep(time.Duration(s.PauseMs) * time.Millisecond)
	}
	// no lookups from here on: the loop's passes have to bring every cleaner under its limit
	deadline := time.Now().Add(20 * time.Second)
	for {
		over := -1
		for i, cl := range cleaners {
			if l := cl.SizeLimit(); l > 0 && cl.VerifSize() > l {
				over = i
			}
		}
		if over < 0 {
			break
		}
		if time.Now().After(deadline) {
			cl := cleaners[over]
			return res, evid.Failf("over-limit-after-idle-passes", "cache size %d KiB, sorted-docs share %d %%: 20 s (about 20000 ticks of the clean loop) after the last lookup the cleaner %q still accounts %d bytes, its limit is %d", c.CacheKB, c.SortPct, labels[over], cl.VerifSize(), cl.SizeLimit())
		}
		time.Sleep(time.Millisecond)
	}
	res.Evals = len(cleaners)
	res.NonTrivial = crossed
	if crossed {
		res.Labels = append(res.Labels, "limit-crossed-during-the-loads")
	}
	return res, nil
}

func TestPropLoop(t *testing.T)   { evid.Check(t, genLoop, runLoop) }
func TestReplayLoop(t *testing.T) { evid.Replay(t, runLoop) }
