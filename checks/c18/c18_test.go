//go:build verif

// C18: the block cache is coherent, accounted and bounded.
//
// Part 1 (this file): sequential stateful model-based check.  A generated list of operations
// over ONE cache.Cleaner and 1..6 cache.Cache instances is executed step by step against a
// policy-agnostic model; the invariants of the property are checked after every step.
// Concurrency is simulated deterministically where it matters: a loader may carry a list of
// nested operations ("during") that are executed while the load is in flight - exactly what
// other goroutines (readers of other keys, the clean loop, a fraction being released) may do
// between getOrCreate and save.
//
// Part 2 (conc_test.go): the same objects hammered by real goroutines under -race.
package c18

import (
	"errors"
	"fmt"
	"os"
	"runtime"
	"runtime/debug"
	"sort"
	"strings"
	"sync"
	"sync/atomic"
	"testing"
	"time"

	"github.com/prometheus/client_golang/prometheus"
	dto "github.com/prometheus/client_model/go"
	"pgregory.net/rapid"

	"github.com/ozontech/seq-db/cache"

	"verif/internal/evid"
)

// ---------------------------------------------------------------------------------------
// values: a multi-word value that names its cache, key and load number, with a checksum, so
// that a value of another key, a zero (half-built) value or a torn one cannot pass for valid.

type val struct {
	Tag uint64 // (cache+1)<<32 | key  – never 0
	Ver uint64 // number of the loader call that produced it (unique per case, >= 1)
	Chk uint64
	Dup [2]uint64 // copies of Tag and Ver at the far end of the value
}

func mkVal(ci int, key uint32, ver uint64) val {
	tag := uint64(ci+1)<<32 | uint64(key)
	return val{Tag: tag, Ver: ver, Chk: mix(tag, ver), Dup: [2]uint64{tag, ver}}
}

func mix(a, b uint64) uint64 {
	x := a*0x9E3779B97F4A7C15 ^ (b + 0xD1B54A32D192ED03)
	x ^= x >> 29
	x *= 0xBF58476D1CE4E5B9
	x ^= x >> 32
	return x | 1
}

// wellFormed: v is a complete value produced by some loader of (ci,key).
func (v val) wellFormed(ci int, key uint32) bool {
	tag := uint64(ci+1)<<32 | uint64(key)
	return v.Tag == tag && v.Ver != 0 && v.Chk == mix(tag, v.Ver) && v.Dup == [2]uint64{tag, v.Ver}
}

func (v val) String() string {
	return fmt.Sprintf("{cache %d key %d load #%d chk %x}", int(v.Tag>>32)-1, uint32(v.Tag), v.Ver, v.Chk)
}

// ---------------------------------------------------------------------------------------
// metrics: real callers always pass counters; they are exercised, not asserted (the property
// does not speak about them).

func newMetrics() *cache.Metrics {
	c := func() prometheus.Counter { return prometheus.NewCounter(prometheus.CounterOpts{Name: "c18"}) }
	return &cache.Metrics{HitsTotal: c(), MissTotal: c(), PanicsTotal: c(), LockWaitsTotal: c(), WaitsTotal: c(),
		ReattemptsTotal: c(), SizeRead: c(), SizeOccupied: c(), SizeReleased: c(), MapsRecreated: c(), MissLatency: c()}
}

func newCleanerMetrics() *cache.CleanerMetrics {
	c := func() prometheus.Counter { return prometheus.NewCounter(prometheus.CounterOpts{Name: "c18"}) }
	return &cache.CleanerMetrics{Oldest: prometheus.NewGauge(prometheus.GaugeOpts{Name: "c18"}), AddBuckets: c(), DelBuckets: c(),
		CleanGenerations: c(), ChangeGenerations: c()}
}

// entry overhead: an entry is accounted as a fixed overhead + the refMemSize its loader
// reported.  The overhead is private to the package, so it is measured once.
var (
	overheadOnce sync.Once
	overhead     uint64
	overheadErr  error
)

func entryOverhead() (uint64, error) {
	overheadOnce.Do(func() {
		cl := cache.NewCleaner(0, nil)
		c := cache.NewCache[val](cl, nil)
		c.Get(1, func() (val, int) { return mkVal(0, 1, 1), 0 })
		a := c.VerifLiveSize()
		c.Get(2, func() (val, int) { return mkVal(0, 2, 2), 1000 })
		b := c.VerifLiveSize()
		overhead = a
		if a == 0 || b != 2*a+1000 || cl.VerifSize() != b {
			overheadErr = fmt.Errorf("size of an entry is not overhead+refMemSize: one entry of ref 0 = %d, plus one of ref 1000 = %d, cleaner accounts %d", a, b, cl.VerifSize())
		}
	})
	return overhead, overheadErr
}

// ---------------------------------------------------------------------------------------
// case

const (
	kGet        = "get"        // Cache.Get, loader succeeds
	kGetE       = "gete"       // Cache.GetWithError, loader succeeds
	kErr        = "err"        // Cache.GetWithError, loader returns an error
	kPanic      = "panic"      // Cache.Get, loader panics
	kEPanic     = "epanic"     // Cache.GetWithError, loader panics
	kBulk       = "bulk"       // Size-many keys 1000.. loaded into one cache (payload map gets large enough to be recreated)
	kRotate     = "rotate"     // Cleaner.Rotate
	kCleanup    = "cleanup"    // Cleaner.Cleanup
	kPass       = "pass"       // one tick of the real clean loop: Rotate; Cleanup
	kCleanEmpty = "cleanempty" // Cleaner.CleanEmptyGenerations
	kRelBuckets = "relbuckets" // Cleaner.ReleaseBuckets
	kGC         = "gc"         // the real loop's garbageCollection: CleanEmptyGenerations; ReleaseBuckets
	kRelease    = "release"    // Cache.Release
	kNew        = "new"        // cache.NewCache on the shared cleaner (Slow: registered through a slowBucket)
	kRaceNew    = "racenew"    // ReleaseBuckets while another goroutine registers a new cache (see slowBucket)
)

type Op struct {
	Kind   string `json:"k"`
	Cache  int    `json:"c,omitempty"`
	Key    uint32 `json:"key,omitempty"`
	Size   int    `json:"size,omitempty"`   // refMemSize reported by the loader; for bulk: number of keys
	During []Op   `json:"during,omitempty"` // executed inside the loader, i.e. while the load is in flight
	Slow   bool   `json:"slow,omitempty"`   // new: the cache answers the cleaner's Released() slowly (slowBucket)
}

type Case struct {
	Limit    uint64 `json:"limit"`  // cleaner size limit in bytes, 0 = unlimited
	Caches   int    `json:"caches"` // caches created before the first operation
	Ops      []Op   `json:"ops"`
	Excluded int    `json:"excluded,omitempty"` // draws replaced because of a recorded finding (see exclude*)
}

// Findings recorded on the unchanged tree (minimal cases in replays/C18, which the replay tier
// runs unconditionally).  While such a defect is present its trigger is excluded by
// construction so that the campaigns keep looking for OTHER violations; whether it is present
// is probed once per process with the finding's own minimal sequence, so the exclusion
// disappears by itself when the defect is repaired (a finding without a deterministic probe
// stays excluded until it is named).  C18_INCLUDE_KNOWN=all forces every trigger in,
// C18_INCLUDE_KNOWN=none forces every trigger out, a comma list of names forces those in.
func excluded(name string, present func() bool) bool {
	switch v := os.Getenv("C18_INCLUDE_KNOWN"); {
	case v == "all" || v == "1":
		return false
	case v == "none":
		return true
	case v != "":
		for _, f := range strings.Split(v, ",") {
			if strings.TrimSpace(f) == name {
				return false
			}
		}
	}
	// the probe runs against the tree under test, which may be broken in some other way (a
	// mutation trial): a probe that panics or does not return excludes nothing
	ch := make(chan bool, 1)
	go func() {
		defer func() {
			if recover() != nil {
				ch <- false
			}
		}()
		ch <- present()
	}()
	select {
	case r := <-ch:
		return r
	case <-time.After(3 * time.Second):
		return false
	}
}

// excludeOrphanGeneration: CleanEmptyGenerations while a load is in flight can drop the
// (non-last, momentarily empty) generation the loading entry was created in; save() then
// accounts the entry to a generation the cleaner no longer sums or cleans.
var excludeOrphanGeneration = excluded("orphan-generation", func() bool {
	cl := cache.NewCleaner(300, nil)
	c := cache.NewCache[val](cl, nil)
	ok := func(k uint32) func() (val, int) { return func() (val, int) { return mkVal(0, k, 1), 0 } }
	c.Get(1, func() (val, int) {
		c.Get(0, ok(0))
		cl.Rotate()
		c.Get(0, ok(0))
		cl.CleanEmptyGenerations()
		return mkVal(0, 1, 1), 0
	})
	return cl.VerifSize() != c.VerifLiveSize()
})

// excludeForeignEntryDeleted: a load fails after a cleaning pass already removed its in-flight
// entry and another goroutine cached the same key anew; recover() deletes whatever entry is
// stored under the key - the other goroutine's valid one - without un-accounting it.
var excludeForeignEntryDeleted = excluded("foreign-entry-deleted", func() bool {
	cl := cache.NewCleaner(300, nil)
	c := cache.NewCache[val](cl, nil)
	c.Get(1, func() (val, int) { return mkVal(0, 1, 1), 700 })
	_, _ = c.GetWithError(0, func() (val, int, error) {
		cl.Cleanup(&cache.CleanStat{})
		c.Get(0, func() (val, int) { return mkVal(0, 0, 2), 0 })
		return val{}, 0, errors.New("load failed")
	})
	return cl.VerifSize() != c.VerifLiveSize()
})

// excludeRegisterDuringCleanup: Cleaner.Cleanup takes its snapshot of the buckets BEFORE
// markStale.  A cache registered between the snapshot and the moment markStale rotates and
// marks the last generation stale can load entries into that generation; the pass does not
// clean the new cache (not in the snapshot), the generation is dropped from the cleaner's list,
// and the entries stay live but unaccounted until the next pass that is over the limit.  Only
// a real schedule shows it (no step of the cleaner calls out inside that window), so there is
// no probe and no deterministic replay: it stays excluded until named in C18_INCLUDE_KNOWN.
// With the exclusion on, the concurrent run does not let a registration overlap Cleanup
// (it still overlaps Rotate, CleanEmptyGenerations and ReleaseBuckets freely).
var excludeRegisterDuringCleanup = excluded("register-during-cleanup", func() bool { return true })

func exclusionLabels() []string {
	var l []string
	if excludeOrphanGeneration {
		l = append(l, "excluded-trigger:orphan-generation")
	}
	if excludeForeignEntryDeleted {
		l = append(l, "excluded-trigger:foreign-entry-deleted")
	}
	return l
}

const (
	maxAlive   = 6
	maxCreated = 10
	bulkBase   = 1000
)

// generator-side shadow of which caches exist / are released, so that the sound input domain
// (no Get on a released cache, no second Release) holds by construction and survives shrinking
type genState struct {
	released []bool
	limit    uint64
	excluded int

	waiterUsed      bool // the load being generated already has a concurrent lookup of its key
	cleanedInFlight bool // ... and a cleaning pass among its nested operations
}

func (g *genState) aliveIdx() []int {
	var r []int
	for i, rel := range g.released {
		if !rel {
			r = append(r, i)
		}
	}
	return r
}

var topKinds = []string{
	kGet, kGet, kGet, kGet, kGet, kGet, kGet, kGet, kGet, kGet, kGet, kGet,
	kGetE, kGetE, kGetE, kGetE,
	kErr, kErr, kErr, kPanic, kPanic, kEPanic,
	kRotate, kRotate, kRotate, kCleanup, kCleanup, kCleanup, kPass, kPass, kPass, kPass,
	kCleanEmpty, kCleanEmpty, kGC, kGC,
	kRelease, kRelease, kRelease, kRelease, kRelease, kRelBuckets, kRelBuckets, kRelBuckets,
	kNew, kNew, kNew, kNew,
	kRaceNew, kRaceNew,
}

// few keys, skewed, so that lookups of one key repeat (hits, reloads after failures/cleaning)
var keyDist = []uint32{0, 0, 0, 0, 1, 1, 1, 2, 2, 3, 4, 5, 6, 7}

func isGetKind(k string) bool {
	return k == kGet || k == kGetE || k == kErr || k == kPanic || k == kEPanic
}

func genSize(t *rapid.T, limit uint64) int {
	switch rapid.IntRange(0, 24).Draw(t, "sizeclass") {
	case 24: // one entry larger than the whole limit
		return int(limit) + rapid.IntRange(0, 500).Draw(t, "over")
	case 22, 23:
		return rapid.IntRange(700, 3000).Draw(t, "large")
	default:
		return rapid.IntRange(0, 700).Draw(t, "size")
	}
}

// genOp draws one operation; outer is the in-flight (cache,key) when drawing a nested one.
func genOp(t *rapid.T, g *genState, outer *Op) (Op, bool) {
	kind := rapid.SampledFrom(topKinds).Draw(t, "kind")
	if outer == nil && rapid.IntRange(0, 499).Draw(t, "bulk") == 250 {
		kind = kBulk
	}
	if outer != nil && (kind == kCleanEmpty || kind == kGC) && excludeOrphanGeneration {
		g.excluded++
		if kind == kCleanEmpty {
			return Op{}, false
		}
		kind = kRelBuckets // the other half of gc
	}
	alive := g.aliveIdx()
	switch {
	case isGetKind(kind) || kind == kBulk:
		if len(alive) == 0 {
			return Op{}, false
		}
		op := Op{Kind: kind, Cache: alive[rapid.IntRange(0, len(alive)-1).Draw(t, "cache")]}
		if kind == kBulk {
			op.Size = rapid.IntRange(200, 320).Draw(t, "bulkn")
			return op, true
		}
		op.Key = rapid.SampledFrom(keyDist).Draw(t, "key")
		if outer != nil && rapid.IntRange(0, 4).Draw(t, "samekey") == 4 {
			op.Cache, op.Key = outer.Cache, outer.Key // a second goroutine asks for the key being loaded
		}
		if outer != nil && outer.Cache == op.Cache && outer.Key == op.Key {
			if g.waiterUsed {
				return Op{}, false
			}
			if excludeForeignEntryDeleted && g.cleanedInFlight && outer.Kind != kGet && outer.Kind != kGetE && (kind == kGet || kind == kGetE) {
				g.excluded++
				return Op{}, false
			}
			g.waiterUsed = true
		}
		if kind == kGet || kind == kGetE {
			op.Size = genSize(t, g.limit)
		}
		if outer == nil && rapid.IntRange(0, 5).Draw(t, "inflight") == 5 {
			// rapid.SliceOf (not a counted loop) so that shrinking can delete single operations
			cur := op
			g.waiterUsed, g.cleanedInFlight = false, false
			for _, in := range rapid.SliceOfN(rapid.Custom(func(t *rapid.T) Op {
				in, _ := genOp(t, g, &cur)
				return in
			}), 1, 5).Draw(t, "during") {
				if in.Kind != "" {
					op.During = append(op.During, in)
				}
			}
		}
		return op, true
	case kind == kRelease:
		if len(alive) == 0 {
			return Op{}, false
		}
		ci := alive[rapid.IntRange(0, len(alive)-1).Draw(t, "cache")]
		if outer != nil && outer.Cache == ci {
			return Op{}, false // a cache is not released while one of its loads is in flight
		}
		g.released[ci] = true
		return Op{Kind: kind, Cache: ci}, true
	case kind == kNew || kind == kRaceNew:
		if len(alive) >= maxAlive || len(g.released) >= maxCreated {
			return Op{}, false
		}
		g.released = append(g.released, false)
		if kind == kNew {
			return Op{Kind: kind, Slow: rapid.IntRange(0, 2).Draw(t, "slow") == 2}, true
		}
		return Op{Kind: kind}, true
	default:
		if outer != nil && (kind == kCleanup || kind == kPass) {
			g.cleanedInFlight = true
		}
		return Op{Kind: kind}, true
	}
}

func genCase(t *rapid.T) Case {
	var c Case
	if rapid.IntRange(0, 29).Draw(t, "unlimited") == 29 {
		c.Limit = 0
	} else {
		c.Limit = rapid.Uint64Range(300, 6000).Draw(t, "limit")
	}
	c.Caches = rapid.IntRange(1, maxAlive).Draw(t, "caches")
	g := &genState{released: make([]bool, c.Caches), limit: c.Limit}
	// rapid's slices are short on average; a drawn minimum length keeps histories long while
	// shrinking can still lower it and then delete single operations
	minOps := rapid.IntRange(1, 40).Draw(t, "minops")
	for _, op := range rapid.SliceOfN(rapid.Custom(func(t *rapid.T) Op {
		op, _ := genOp(t, g, nil)
		return op
	}), minOps, 60).Draw(t, "ops") {
		if op.Kind != "" {
			c.Ops = append(c.Ops, op)
		}
	}
	c.Excluded = g.excluded
	return c
}

// ---------------------------------------------------------------------------------------
// model

const (
	stAbsent  = iota // the key is certainly not cached
	stLive           // the key is certainly cached
	stUnknown        // a cleaning pass ran since; the cache may or may not have kept it
)

type kstate struct {
	st   int
	size uint64 // accounted size of the last successful load
	v    val    // value of the last successful load
}

type mcache struct {
	c        *cache.Cache[val]
	id       any // what the cleaner holds for this cache: the cache itself or its slowBucket
	metrics  *cache.Metrics
	released bool
	keys     map[uint32]*kstate
}

type sim struct {
	cl       *cache.Cleaner
	limit    uint64
	overhead uint64
	caches   []*mcache
	ver      uint64
	fl       *flight  // the top-level load in flight, if any
	arm      *raceNew // set while a racenew step is running
	labels   map[string]bool
	evals    int

	hits, misses, cleanups, skipped int
	evictedBytes                    uint64
	relNonAdjacent                  bool
}

func (s *sim) label(l string) { s.labels[l] = true }

func (s *sim) newCache(slow bool) {
	mt := newMetrics()
	if !slow {
		c := cache.NewCache[val](s.cl, mt)
		s.caches = append(s.caches, &mcache{c: c, id: c, metrics: mt, keys: map[uint32]*kstate{}})
		return
	}
	// exactly what NewCache does, with the slowBucket in the cleaner's list
	c := cache.NewCache[val](nil, mt)
	b := &slowBucket{c: c, onReleased: s.whileScanning}
	s.cl.AddBucket(b)
	s.caches = append(s.caches, &mcache{c: c, id: b, metrics: mt, keys: map[uint32]*kstate{}})
	s.label("new:slow-bucket")
}

// slowBucket is a real cache as the cleaner sees it (every method delegates), except that
// answering Released() may take a while - as it does when the cache's mutex is contended.
// The time is used to let ANOTHER goroutine do something, which makes "a cache is registered
// while ReleaseBuckets is scanning" a deterministic step instead of a lucky schedule.
type slowBucket struct {
	c          *cache.Cache[val]
	onReleased func()
}

func (b *slowBucket) SetGeneration(g *cache.Generation) { b.c.SetGeneration(g) }
func (b *slowBucket) Cleanup() uint64                   { return b.c.Cleanup() }
func (b *slowBucket) Reset(g *cache.Generation)         { b.c.Reset(g) }
func (b *slowBucket) Released() bool {
	r := b.c.Released()
	if b.onReleased != nil {
		b.onReleased()
	}
	return r
}

// registration that is armed to happen, in a second goroutine, while ReleaseBuckets scans
type raceNew struct {
	fired   bool
	done    chan struct{}
	c       *cache.Cache[val]
	metrics *cache.Metrics
}

// whileScanning runs inside the cleaner's call of Released() on a slowBucket (cleaner
// goroutine = the simulation's goroutine).  The first time after racenew armed it, a second
// goroutine registers a new cache; the scan waits for it for a bounded number of scheduler
// yields - bounded, because an implementation that scans under the cleaner's lock makes the
// registration wait for the scan, which is just as correct.
func (s *sim) whileScanning() {
	a := s.arm
	if a == nil || a.fired {
		return
	}
	a.fired = true
	go func() {
		defer close(a.done)
		a.c = cache.NewCache[val](s.cl, a.metrics)
	}()
	for i := 0; i < 500; i++ {
		select {
		case <-a.done:
			return
		default:
			runtime.Gosched()
		}
	}
}

type loadErr struct{ ver uint64 }

func (e *loadErr) Error() string { return fmt.Sprintf("load #%d failed", e.ver) }

type loadPanic struct{ ver uint64 }

func sortedKeys(m map[uint32]*kstate) []uint32 {
	ks := make([]uint32, 0, len(m))
	for k := range m {
		ks = append(ks, k)
	}
	sort.Slice(ks, func(i, j int) bool { return ks[i] < ks[j] })
	return ks
}

// lookupRes is everything observable about one lookup.
type lookupRes struct {
	calls   int // how often the lookup called its loader
	got     val
	err     error
	pan     any
	mine    val // what the loader produced (last call)
	myErr   *loadErr
	myPanic *loadPanic
}

// lookup performs one Get/GetWithError of op's kind; onLoad runs inside the loader.
func (s *sim) lookup(m *mcache, op Op, onLoad func(r *lookupRes)) (r *lookupRes) {
	r = &lookupRes{}
	load := func() {
		r.calls++
		s.ver++
		r.mine = mkVal(op.Cache, op.Key, s.ver)
		if onLoad != nil {
			onLoad(r)
		}
	}
	defer func() { r.pan = recover() }()
	switch op.Kind {
	case kGet:
		r.got = m.c.Get(op.Key, func() (val, int) { load(); return r.mine, op.Size })
	case kGetE:
		r.got, r.err = m.c.GetWithError(op.Key, func() (val, int, error) { load(); return r.mine, op.Size, nil })
	case kErr:
		r.got, r.err = m.c.GetWithError(op.Key, func() (val, int, error) {
			load()
			r.myErr = &loadErr{r.mine.Ver}
			return r.mine, 0, r.myErr
		})
	case kPanic:
		r.got = m.c.Get(op.Key, func() (val, int) { load(); r.myPanic = &loadPanic{r.mine.Ver}; panic(r.myPanic) })
	case kEPanic:
		r.got, r.err = m.c.GetWithError(op.Key, func() (val, int, error) { load(); r.myPanic = &loadPanic{r.mine.Ver}; panic(r.myPanic) })
	}
	return r
}

// flight is the top-level load that is currently in flight (nested operations run inside it).
type flight struct {
	id             [2]uint32
	cleanupsBefore int
	w              *waiter
	replaced       bool // the in-flight entry was cleaned away and a concurrent lookup cached the key anew
}

// waiter is a lookup of the in-flight key by another goroutine.
type waiter struct {
	op       Op
	r        *lookupRes
	finished atomic.Bool
	done     chan struct{}
	blocked  bool
}

func counterValue(c prometheus.Counter) float64 {
	var m dto.Metric
	if err := c.Write(&m); err != nil {
		panic(err)
	}
	return m.GetCounter().GetValue()
}

// judge compares one finished lookup with the model and updates the model.  before is what
// the model knew about the key when the lookup started; loadedDuringCleaning says that a
// cleaning pass ran while this lookup's own load was in flight; keep says that the model's
// record of the key must not be overwritten by this lookup's own load (see flight.replaced).
func (s *sim) judge(where string, op Op, r *lookupRes, ks *kstate, before int, loadedDuringCleaning, keep bool) error {
	s.evals++
	switch {
	case r.calls > 1:
		return evid.Failf("loader-called-twice", "%s: the loader was called %d times by one lookup", where, r.calls)
	case r.calls == 0:
		// served from the cache
		s.hits++
		if r.pan != nil || r.err != nil {
			return evid.Failf("failure-without-load", "%s: loader not called, yet the lookup reported err=%v panic=%v", where, r.err, r.pan)
		}
		if before == stAbsent {
			return evid.Failf("hit-on-absent-key", "%s: the loader was not called although the key cannot be cached (never loaded, last load failed, or cache content fully cleaned); returned %v", where, r.got)
		}
		if r.got != ks.v {
			return evid.Failf("wrong-value", "%s: hit returned %v, the last successful load of this key produced %v", where, r.got, ks.v)
		}
		ks.st = stLive
		s.label("get:hit")
		if op.Kind == kErr || op.Kind == kPanic || op.Kind == kEPanic {
			s.label("get:failing-loader-not-needed")
		}
		return nil
	}
	// loaded
	s.misses++
	if before == stLive {
		return evid.Failf("reload-of-cached-key", "%s: the loader was called although the key was loaded before and no cleaning pass or release happened since", where)
	}
	switch op.Kind {
	case kGet, kGetE:
		if r.pan != nil || r.err != nil {
			return evid.Failf("spurious-failure", "%s: loader succeeded, lookup reported err=%v panic=%v", where, r.err, r.pan)
		}
		if r.got != r.mine {
			return evid.Failf("wrong-value", "%s: lookup returned %v, its own loader produced %v", where, r.got, r.mine)
		}
		s.label("get:miss")
		if keep {
			return nil
		}
		ks.v, ks.size = r.mine, s.overhead+uint64(op.Size)
		if loadedDuringCleaning {
			ks.st = stUnknown // a cleaning pass ran while the load was in flight
			s.label("get:cleaned-while-loading")
		} else {
			ks.st = stLive
		}
	case kErr:
		if r.pan != nil {
			return evid.Failf("spurious-failure", "%s: loader returned an error, lookup panicked: %v", where, r.pan)
		}
		if !errors.Is(r.err, error(r.myErr)) {
			return evid.Failf("error-lost", "%s: loader returned %v, lookup returned err=%v value=%v", where, r.myErr, r.err, r.got)
		}
		s.label("get:error")
		if !keep {
			ks.st = stAbsent // and the next lookup must load again (checked there)
		}
	case kPanic, kEPanic:
		if p, ok := r.pan.(*loadPanic); !ok || p != r.myPanic {
			return evid.Failf("panic-lost", "%s: loader panicked with %v, lookup returned value=%v err=%v panic=%v", where, r.myPanic, r.got, r.err, r.pan)
		}
		s.label("get:panic")
		if !keep {
			ks.st = stAbsent
		}
	}
	return nil
}

// startWaiter: while the top-level load of (cache,key) is in flight, another goroutine looks
// the same key up.  Either it blocks on the in-flight entry (seen through the cache's
// WaitsTotal counter, which is incremented right before waiting) or - when a cleaning pass
// already removed the in-flight entry - it finishes on its own.  Both outcomes are decided by
// the cache, not by timing, so the case stays deterministic.
func (s *sim) startWaiter(op Op) error {
	fl := s.fl
	if fl.w != nil {
		s.skipped++ // one concurrent lookup per load keeps the outcome deterministic
		return nil
	}
	m := s.caches[op.Cache]
	ks := m.keys[op.Key]
	w := &waiter{op: op, done: make(chan struct{})}
	fl.w = w
	waits0 := counterValue(m.metrics.WaitsTotal)
	go func() {
		defer close(w.done)
		w.r = s.lookup(m, op, nil)
		w.finished.Store(true)
	}()
	for !w.finished.Load() && counterValue(m.metrics.WaitsTotal) == waits0 {
		runtime.Gosched()
	}
	if !w.finished.Load() {
		w.blocked = true
		s.label("waiter:blocked-on-inflight-entry")
		return nil
	}
	<-w.done
	where := fmt.Sprintf("%s(cache %d, key %d) by a second goroutine while that key is being loaded", op.Kind, op.Cache, op.Key)
	if s.cleanups == fl.cleanupsBefore && w.r.calls > 0 {
		return evid.Failf("duplicate-load-while-in-flight", "%s: it called its own loader instead of waiting for the load in flight (no cleaning pass ran meanwhile)", where)
	}
	if err := s.judge(where, op, w.r, ks, stAbsent, false, false); err != nil {
		return err
	}
	s.label("waiter:loaded-after-inflight-entry-was-cleaned")
	if ks.st == stLive {
		fl.replaced = true
	}
	return nil
}

// get executes one lookup and compares it with the model.
func (s *sim) get(op Op, depth int) (retErr error) {
	if op.Cache < 0 || op.Cache >= len(s.caches) || s.caches[op.Cache].released || op.Size < 0 {
		s.skipped++ // outside the sound domain (only reachable from hand-written replay files)
		return nil
	}
	id := [2]uint32{uint32(op.Cache), op.Key}
	if s.fl != nil && s.fl.id == id {
		if depth == 0 {
			s.skipped++
			return nil
		}
		return s.startWaiter(op)
	}
	m := s.caches[op.Cache]
	ks := m.keys[op.Key]
	if ks == nil {
		ks = &kstate{}
		m.keys[op.Key] = ks
	}
	before := ks.st
	where := fmt.Sprintf("%s(cache %d, key %d)", op.Kind, op.Cache, op.Key)

	var fl *flight
	var nestedErr error
	cleanupsBefore := s.cleanups
	r := s.lookup(m, op, func(r *lookupRes) {
		ks.st = stAbsent // the cache asked for a load, so it did not hold the key
		if depth == 0 && len(op.During) > 0 && r.calls == 1 {
			fl = &flight{id: id, cleanupsBefore: s.cleanups}
			s.fl = fl
			for _, in := range op.During {
				if nestedErr = s.exec(in, 1); nestedErr != nil {
					break
				}
			}
			s.fl = nil
		}
	})
	// a goroutine blocked on our entry is released by the end of our lookup; nothing of the
	// simulation is touched before it has finished
	if fl != nil && fl.w != nil && fl.w.blocked {
		<-fl.w.done
	}
	if nestedErr != nil {
		return nestedErr
	}
	if r.calls == 0 && depth == 0 {
		// no load, so nothing was in flight: the same operations simply follow the lookup
		// (keeps the generator's view of created/released caches in step with the run)
		defer func() {
			for _, in := range op.During {
				if retErr == nil {
					retErr = s.exec(in, 0)
				}
			}
		}()
	}
	keep := fl != nil && fl.replaced
	if err := s.judge(where, op, r, ks, before, s.cleanups != cleanupsBefore, keep); err != nil {
		return err
	}
	if r.calls > 0 && len(op.During) > 0 {
		s.label("get:with-nested-ops")
	}
	if fl == nil || fl.w == nil || !fl.w.blocked {
		return nil
	}
	// the second goroutine waited for our load
	w := fl.w
	wwhere := fmt.Sprintf("%s(cache %d, key %d) by a second goroutine that waited for the load of %s", w.op.Kind, w.op.Cache, w.op.Key, where)
	if op.Kind == kGet || op.Kind == kGetE {
		// our load succeeded: every concurrent caller gets that very value, without loading
		s.evals++
		if w.r.calls != 0 || w.r.err != nil || w.r.pan != nil || w.r.got != r.mine {
			return evid.Failf("waiter-not-served-the-loaded-value", "%s: loader calls=%d value=%v err=%v panic=%v; the load it waited for produced %v", wwhere, w.r.calls, w.r.got, w.r.err, w.r.pan, r.mine)
		}
		s.hits++
		s.label("waiter:served-the-loaded-value")
		return nil
	}
	// our load failed: the failure is ours alone; the waiter loads for itself
	if w.r.calls == 0 {
		return evid.Failf("waiter-poisoned-by-failed-load", "%s: the load failed, yet the waiter did not load for itself: value=%v err=%v panic=%v", wwhere, w.r.got, w.r.err, w.r.pan)
	}
	s.label("waiter:reloaded-after-failed-load")
	return s.judge(wwhere, w.op, w.r, ks, stAbsent, false, false)
}

func (s *sim) cleanup() {
	before := make([]uint64, len(s.caches))
	for i, m := range s.caches {
		if !m.released {
			before[i] = m.c.VerifLiveSize()
		}
	}
	var stat cache.CleanStat
	did := s.cl.Cleanup(&stat)
	s.cleanups++
	freed := uint64(0)
	for i, m := range s.caches {
		if m.released {
			continue
		}
		after := m.c.VerifLiveSize()
		if after == before[i] {
			continue // every entry has a positive size: nothing was evicted here
		}
		if after < before[i] {
			freed += before[i] - after
		}
		for _, k := range sortedKeys(m.keys) {
			if m.keys[k].st == stLive {
				m.keys[k].st = stUnknown
			}
		}
	}
	s.evictedBytes += freed
	switch {
	case freed > 0:
		s.label("cleanup:evicted")
	case did:
		s.label("cleanup:ran-nothing-evicted")
	default:
		s.label("cleanup:under-limit")
	}
}

// reconcile compares the bytes a cache really holds with the model and, where a cleaning
// pass left keys undecided, decides them when only one subset of them explains the bytes.
func (s *sim) reconcile(ci int, live uint64, where string) error {
	m := s.caches[ci]
	known := uint64(0)
	var unk []uint32
	unkSum := uint64(0)
	for _, k := range sortedKeys(m.keys) {
		switch ks := m.keys[k]; ks.st {
		case stLive:
			known += ks.size
		case stUnknown:
			unk = append(unk, k)
			unkSum += ks.size
		}
	}
	s.evals++
	if live < known || live > known+unkSum {
		return evid.Failf("live-size-vs-model", "after %s: cache %d holds %d bytes; the model says %d bytes certainly cached + at most %d bytes possibly kept by the last cleaning pass", where, ci, live, known, unkSum)
	}
	if len(unk) == 0 {
		return nil
	}
	rest := live - known
	set := func(st int) {
		for _, k := range unk {
			m.keys[k].st = st
		}
	}
	switch {
	case rest == 0:
		set(stAbsent)
		return nil
	case rest == unkSum:
		set(stLive)
		return nil
	case len(unk) > 14:
		return nil // too many to enumerate; single lookups will decide them
	}
	n := len(unk)
	sols, inAll, inAny := 0, uint32(1<<n-1), uint32(0)
	for sub := uint32(0); sub < 1<<n; sub++ {
		sum := uint64(0)
		for i := 0; i < n; i++ {
			if sub&(1<<i) != 0 {
				sum += m.keys[unk[i]].size
			}
		}
		if sum == rest {
			sols++
			inAll &= sub
			inAny |= sub
		}
	}
	if sols == 0 {
		return evid.Failf("live-size-vs-model", "after %s: cache %d holds %d bytes; %d are certainly cached and no subset of the %d possibly kept entries accounts for the remaining %d", where, ci, live, known, n, rest)
	}
	for i, k := range unk {
		if inAll&(1<<i) != 0 {
			m.keys[k].st = stLive
		} else if inAny&(1<<i) == 0 {
			m.keys[k].st = stAbsent
		}
	}
	if sols > 1 {
		s.label("model:ambiguous-survivors")
	}
	return nil
}

// check: the invariants of the property, after every step.
func (s *sim) check(where string, afterTopCleanup, afterRelBuckets bool) error {
	// every live cache stays under the cleaner's management until it is released
	held := map[any]int{}
	bs := s.cl.VerifBuckets()
	for _, b := range bs {
		held[b]++
	}
	s.evals++
	mine := 0
	for i, m := range s.caches {
		n := held[m.id]
		mine += n
		if !m.released && n == 0 {
			return evid.Failf("live-cache-dropped", "after %s: cache %d is not released but the cleaner no longer manages it (cleaner holds %s)", where, i, s.describeBuckets(bs))
		}
		if n > 1 {
			return evid.Failf("bucket-duplicated", "after %s: the cleaner holds cache %d %d times (%s)", where, i, n, s.describeBuckets(bs))
		}
	}
	if mine != len(bs) {
		return evid.Failf("bucket-foreign", "after %s: the cleaner holds %d buckets, only %d are caches created on it", where, len(bs), mine)
	}
	if afterRelBuckets {
		for i, m := range s.caches {
			if m.released && held[m.id] > 0 {
				return evid.Failf("released-bucket-retained", "after %s: cache %d was released, yet ReleaseBuckets left it in the cleaner (cleaner holds %s)", where, i, s.describeBuckets(bs))
			}
		}
	}
	// accounted size == sum of live entries, which in turn is what the model expects
	sum := uint64(0)
	for i, m := range s.caches {
		live := m.c.VerifLiveSize()
		if m.released {
			if live != 0 {
				return evid.Failf("released-cache-holds-entries", "after %s: released cache %d still holds %d bytes", where, i, live)
			}
			continue
		}
		if err := s.reconcile(i, live, where); err != nil {
			return err
		}
		sum += live
	}
	acc := s.cl.VerifSize()
	s.evals++
	if acc != sum {
		return evid.Failf("accounting", "after %s: the cleaner accounts %d bytes, the live entries of its non-released caches sum to %d", where, acc, sum)
	}
	// a cleaning pass without concurrent lookups brings the accounted size under the limit
	if afterTopCleanup && s.limit > 0 {
		s.evals++
		if acc > s.limit {
			return evid.Failf("over-limit-after-cleanup", "after %s: accounted size %d is still above the limit %d", where, acc, s.limit)
		}
	}
	return nil
}

func (s *sim) describeBuckets(bs []any) string {
	var parts []string
	for _, b := range bs {
		name := "?"
		for i, m := range s.caches {
			if m.id == b {
				name = fmt.Sprintf("%d", i)
				if m.released {
					name += "(released)"
				}
			}
		}
		parts = append(parts, name)
	}
	return "[" + strings.Join(parts, " ") + "]"
}

// releaseShape looks at the positions of released caches in the cleaner's list just before
// ReleaseBuckets: the quantifier asks for all subsets/orders of released caches.
func (s *sim) releaseShape() {
	bs := s.cl.VerifBuckets()
	var pos []int
	for p, b := range bs {
		for _, m := range s.caches {
			if m.id == b && m.released {
				pos = append(pos, p)
			}
		}
	}
	switch {
	case len(pos) == 0:
		s.label("relbuckets:none-released")
		return
	case len(pos) == 1:
		s.label("relbuckets:one")
	case len(pos) == len(bs):
		s.label("relbuckets:all")
	default:
		s.label("relbuckets:several")
	}
	nonAdj := false
	for i := 1; i < len(pos); i++ {
		if pos[i]-pos[i-1] > 1 {
			nonAdj = true
		}
	}
	if nonAdj {
		s.relNonAdjacent = true
		s.label("relbuckets:non-adjacent")
	}
	if len(pos) >= 2 && pos[len(pos)-1] == len(bs)-1 {
		s.label("relbuckets:last-and-earlier")
		if len(pos) < len(bs) {
			s.label("relbuckets:last-and-earlier-with-live")
		}
	}
}

func (s *sim) exec(op Op, depth int) error {
	where := op.Kind
	if depth > 0 {
		where += " (while a load is in flight)"
	}
	topCleanup, relBuckets := false, false
	switch op.Kind {
	case kGet, kGetE, kErr, kPanic, kEPanic:
		where = fmt.Sprintf("%s(cache %d, key %d)", op.Kind, op.Cache, op.Key)
		if err := s.get(op, depth); err != nil {
			return err
		}
	case kBulk:
		if depth > 0 || op.Size < 0 || op.Size > 2000 {
			s.skipped++
			return nil
		}
		s.label("bulk")
		for i := 0; i < op.Size; i++ {
			if err := s.get(Op{Kind: kGet, Cache: op.Cache, Key: uint32(bulkBase + i), Size: 3}, depth); err != nil {
				return err
			}
		}
	case kRotate:
		if ok, _ := s.cl.Rotate(); ok {
			s.label("rotate:new-generation")
		} else {
			s.label("rotate:kept")
		}
	case kCleanup:
		s.cleanup()
		topCleanup = depth == 0
	case kPass:
		s.cl.Rotate()
		s.cleanup()
		topCleanup = depth == 0
	case kCleanEmpty:
		if s.cl.CleanEmptyGenerations() > 0 {
			s.label("cleanempty:removed")
		}
	case kRelBuckets:
		s.releaseShape()
		s.cl.ReleaseBuckets()
		relBuckets = true
	case kGC:
		s.cl.CleanEmptyGenerations()
		s.releaseShape()
		s.cl.ReleaseBuckets()
		relBuckets = true
	case kRelease:
		if op.Cache < 0 || op.Cache >= len(s.caches) || s.caches[op.Cache].released {
			s.skipped++
			return nil
		}
		if s.fl != nil && int(s.fl.id[0]) == op.Cache {
			s.skipped++
			return nil
		}
		m := s.caches[op.Cache]
		m.c.Release()
		m.released = true
		m.keys = map[uint32]*kstate{}
		s.label("release")
	case kNew:
		if len(s.caches) >= 64 {
			s.skipped++
			return nil
		}
		s.newCache(op.Slow)
		s.label("new")
	case kRaceNew:
		if len(s.caches) >= 64 {
			s.skipped++
			return nil
		}
		// the clean loop's ReleaseBuckets and, concurrently, a fraction registering its cache
		a := &raceNew{done: make(chan struct{}), metrics: newMetrics()}
		s.arm = a
		s.releaseShape()
		s.cl.ReleaseBuckets()
		s.arm = nil
		relBuckets = true
		if a.fired {
			<-a.done
			s.label("racenew:registered-during-the-scan")
		} else {
			// no slow bucket in the list: the registration simply follows
			a.c = cache.NewCache[val](s.cl, a.metrics)
			relBuckets = false
			s.label("racenew:registered-after")
		}
		s.caches = append(s.caches, &mcache{c: a.c, id: a.c, metrics: a.metrics, keys: map[uint32]*kstate{}})
	default:
		s.skipped++
		return nil
	}
	if depth > 0 {
		s.label("nested:" + op.Kind)
	}
	return s.check(where, topCleanup, relBuckets)
}

func runCaseBody(c Case) (evid.Result, error) {
	res := evid.Result{}
	ov, err := entryOverhead()
	if err != nil {
		return res, evid.Failf("size-accounting", "%v", err)
	}
	s := &sim{cl: cache.NewCleaner(c.Limit, newCleanerMetrics()), limit: c.Limit, overhead: ov,
		labels: map[string]bool{}}
	n0 := c.Caches
	if n0 < 0 || n0 > 16 {
		n0 = 1
	}
	for i := 0; i < n0; i++ {
		s.newCache(false)
	}
	if err := s.check("creation", false, false); err != nil {
		return res, err
	}
	for _, op := range c.Ops {
		if err := s.exec(op, 0); err != nil {
			res.Evals = s.evals
			return res, err
		}
	}
	// closing pass, as the real loop would do on its next ticks
	for _, k := range []string{kPass, kGC} {
		if err := s.exec(Op{Kind: k}, 0); err != nil {
			return res, err
		}
	}
	if c.Limit == 0 {
		s.label("limit:unlimited")
	} else {
		s.label("limit:set")
	}
	s.label(fmt.Sprintf("caches:%d", len(s.caches)))
	switch n := len(c.Ops); {
	case n <= 5:
		s.label("ops:1-5")
	case n <= 20:
		s.label("ops:6-20")
	default:
		s.label("ops:21-60")
	}
	if s.skipped > 0 {
		s.label("skipped-out-of-domain-op")
	}
	if s.hits > 0 && s.misses > 0 {
		s.label("case:hits-and-misses")
	}
	for l := range s.labels {
		res.Labels = append(res.Labels, l)
	}
	res.Labels = append(res.Labels, exclusionLabels()...)
	sort.Strings(res.Labels)
	res.Evals = s.evals
	res.Excluded = c.Excluded
	// NT: >= 2 caches released at non-adjacent positions of the cleaner's list, or a cleaning pass that evicted
	res.NonTrivial = s.relNonAdjacent || s.evictedBytes > 0
	return res, nil
}

// watchdog: one case is microseconds of work.  A lookup that spins or waits forever (e.g. on
// an abandoned entry) is reported as a hang with a goroutine dump instead of eating the
// campaign's whole budget.  This is the only wall-clock decision of the check.
const hangAfter = 60 * time.Second

func watchdog[C any](run func(C) (evid.Result, error)) func(C) (evid.Result, error) {
	return func(c C) (evid.Result, error) {
		type out struct {
			res evid.Result
			err error
			pan any
		}
		ch := make(chan out, 1)
		go func() {
			var o out
			defer func() {
				if p := recover(); p != nil {
					o.pan = fmt.Sprintf("%v\n%s", p, debug.Stack())
				}
				ch <- o
			}()
			o.res, o.err = run(c)
		}()
		select {
		case o := <-ch:
			if o.pan != nil {
				panic(o.pan)
			}
			return o.res, o.err
		case <-time.After(hangAfter):
			buf := make([]byte, 1<<16)
			buf = buf[:runtime.Stack(buf, true)]
			return evid.Result{}, evid.Failf("hang", "case did not finish within %s; goroutines:\n%s", hangAfter, buf)
		}
	}
}

var runCase = watchdog(runCaseBody)

func TestPropSeq(t *testing.T) {
	evid.For(t).Lazy()
	evid.Check(t, genCase, runCase)
}

func TestReplaySeq(t *testing.T) { evid.Replay(t, runCase) }
