package c18

// Family 3: the bound itself.  The cleaners get their limits from the store's configuration
// (fracmanager.FillConfigWithDefault + NewCacheMaintainer: 90 % of --cache-size minus the
// sorted-docs cache, split by weights).  "Bounded" means that for every configuration the
// store accepts, the limits add up to no more than the configured cache size - whatever the
// ratio of cache size, fraction size and sorted-docs cache size.

import (
	"testing"

	"pgregory.net/rapid"

	"github.com/ozontech/seq-db/fracmanager"

	"verif/internal/evid"
)

type ConfCase struct {
	CacheMB  uint64 `json:"cache_mb"`
	FracMB   uint64 `json:"frac_mb"`
	SortPerm int    `json:"sort_permille"` // explicit sorted-docs cache size as a share of the cache size; 0: default rule
}

func genConf(t *rapid.T) ConfCase {
	c := ConfCase{
		CacheMB: rapid.Uint64Range(1, 65536).Draw(t, "cache"),
		FracMB:  rapid.SampledFrom([]uint64{128, 1, 16, 64, 256, 512, 1024, 4096}).Draw(t, "frac"),
	}
	if rapid.Bool().Draw(t, "explicit") {
		c.SortPerm = rapid.IntRange(1, 1000).Draw(t, "sort")
	}
	if rapid.IntRange(0, 19).Draw(t, "zero") == 19 {
		c.CacheMB, c.SortPerm = 0, 0
		return c
	}
	if rapid.IntRange(0, 3).Draw(t, "near") == 3 { // cache size around 8 x fraction size: where the default rule switches
		c.CacheMB = max(1, c.FracMB*8*uint64(rapid.IntRange(80, 130).Draw(t, "pct"))/100)
	}
	return c
}

func runConf(c ConfCase) (evid.Result, error) {
	res := evid.Result{}
	const mb = 1 << 20
	if c.SortPerm < 0 || c.SortPerm > 1000 {
		return res, evid.Failf("bad_case", "shape")
	}
	if c.CacheMB == 0 {
		// a cache size of 0 (the zero configuration of embedders and of the repository's test
		// environment) means "no limit": every cleaner keeps the limit 0, which is how it reads
		// "unlimited" - a limit of one byte would evict everything at every cleaning tick
		cfg := fracmanager.FillConfigWithDefault(&fracmanager.Config{FracSize: c.FracMB * mb})
		cm := fracmanager.NewCacheMaintainer(cfg.CacheSize, cfg.SortCacheSize, nil)
		cleaners, labels := cm.VerifCleaners()
		for i, cl := range cleaners {
			if cfg.SortCacheSize == 0 && cl.SizeLimit() != 0 {
				return res, evid.Failf("unlimited-cache-got-a-limit", "cache size 0 (no limit): cleaner %q gets the limit %d", labels[i], cl.SizeLimit())
			}
			res.Evals++
		}
		res.Labels = append(res.Labels, "cache-size-0")
		res.NonTrivial = true
		return res, nil
	}
	cfg := &fracmanager.Config{CacheSize: c.CacheMB * mb, FracSize: c.FracMB * mb}
	if c.SortPerm > 0 {
		cfg.SortCacheSize = cfg.CacheSize / 1000 * uint64(c.SortPerm) // <= cache size: accepted by the store
	}
	cfg = fracmanager.FillConfigWithDefault(cfg)
	cm := fracmanager.NewCacheMaintainer(cfg.CacheSize, cfg.SortCacheSize, nil)
	cleaners, labels := cm.VerifCleaners()
	var sum uint64
	for i, cl := range cleaners {
		l := cl.SizeLimit()
		if l == 0 {
			// cache.Cleaner takes the limit 0 for "no limit": Cleanup returns at once, Rotate never rotates
			return res, evid.Failf("limit-zero-means-unbounded", "cache size %d MB, fraction size %d MB, sorted-docs cache %d bytes: cleaner %q gets the limit 0, which the cleaner reads as unlimited", c.CacheMB, c.FracMB, cfg.SortCacheSize, labels[i])
		}
		if l > cfg.CacheSize {
			return res, evid.Failf("limit-above-cache-size", "cache size %d MB, fraction size %d MB, sorted-docs cache %d bytes: cleaner %q gets the limit %d, above the whole cache size %d", c.CacheMB, c.FracMB, cfg.SortCacheSize, labels[i], l, cfg.CacheSize)
		}
		sum += l
		res.Evals++
	}
	if sum > cfg.CacheSize+uint64(len(cleaners)) { // a cleaner needs a limit of at least one byte (0 means unlimited)
		return res, evid.Failf("limits-exceed-cache-size", "cache size %d MB, fraction size %d MB, sorted-docs cache %d bytes: the cleaners' limits add up to %d, the cache size is %d", c.CacheMB, c.FracMB, cfg.SortCacheSize, sum, cfg.CacheSize)
	}
	if float64(cfg.SortCacheSize) > 0.9*float64(cfg.CacheSize) {
		res.Labels = append(res.Labels, "sorted-docs-cache>90%")
	}
	res.NonTrivial = float64(cfg.SortCacheSize) > 0.7*float64(cfg.CacheSize)
	return res, nil
}

func TestPropConf(t *testing.T) {
	evid.For(t).Lazy()
	evid.Check(t, genConf, runConf)
}
func TestReplayConf(t *testing.T) { evid.Replay(t, runConf) }
