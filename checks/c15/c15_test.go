// C15: start-up, retention and deletion are crash-safe and only drop the oldest data.
// Fault enumeration over generated histories of ingest / rotate / seal / retention in a
// child store, with crashes at the verifhook points between the file operations of
// creating an active fraction, deleting a sealed or active fraction and rewriting
// .frac-cache, plus a stale, missing, truncated or wrong-shape .frac-cache.
package c15

import (
	"encoding/json"
	"errors"
	"fmt"
	"os"
	"path/filepath"
	"sort"
	"strings"
	"testing"

	"pgregory.net/rapid"

	"verif/internal/evid"
	"verif/internal/gen"
	"verif/internal/harness"
	"verif/internal/model"
)

type Op struct {
	Kind string      `json:"kind"` // bulk | maintain | seal | crash | kill | restart | snap | tamper | shrink | overlap
	Docs []model.Doc `json:"docs,omitempty"`
	// overlap: Docs go into a fraction whose background sealing is held at Point (Arg) while
	// Docs2 fill the next fraction, which is sealed completely; then the process is killed
	// (the older fraction is still unsealed on disk, the newer one sealed), restarted, and
	// the size limit is lowered so that exactly one non-empty fraction has to go
	Docs2 []model.Doc `json:"docs2,omitempty"`
	// crash: arm Point (N-th hit) and run Via (maintain | seal | bulk+maintain)
	Point string `json:"point,omitempty"`
	Arg   string `json:"arg,omitempty"`
	N     int    `json:"n,omitempty"`
	// tamper (applied while the store is down, followed by a start):
	// stale | delete | truncate | shape
	Tamper   string `json:"tamper,omitempty"`
	Permille int    `json:"permille,omitempty"`
	Shape    string `json:"shape,omitempty"`
}

type Case struct {
	Ops   []Op              `json:"ops"`
	Opts  harness.StoreOpts `json:"opts"`
	Fsync bool              `json:"fsync"`
}

type pt struct{ name, arg string }

var points = []pt{
	{"active.new.docs_created", ""}, {"active.new.meta_created", ""},
	{"sealed.suicide.step", "begin"}, {"sealed.suicide.step", "docs_renamed"}, {"sealed.suicide.step", "sdocs_renamed"},
	{"sealed.suicide.step", "index_renamed"}, {"sealed.suicide.step", "docs_del_removed"}, {"sealed.suicide.step", "sdocs_del_removed"},
	{"active.suicide.begin", ""}, {"active.suicide.meta_removed", ""}, {"active.suicide.docs_removed", ""},
	{"fraccache.tmp_created", ""}, {"fraccache.written", ""}, {"fraccache.renamed", ""},
	{"pfrac.seal.before_release", ""}, {"active.release.meta_removed", ""},
}

// where the background sealing of the older fraction is held in an overlap operation
var holdPoints = []pt{
	{"seal.section", "info"}, {"seal.sdocs_tmp_created", ""}, {"seal.sdocs_renamed", ""}, {"seal.index_tmp_created", ""},
	{"seal.section", "lids"}, {"seal.index_written", ""},
}

// the lowered-limit phase is the only way to reach the deletion of an active fraction
var shrinkPoints = append(append([]pt{
	{"active.suicide.begin", ""}, {"active.suicide.meta_removed", ""}, {"active.suicide.docs_removed", ""},
	{"active.suicide.begin", ""}, {"active.suicide.meta_removed", ""}, {"active.suicide.docs_removed", ""},
}, points[2:8]...), points[11:14]...)

var shapes = []string{`[]`, `{}`, `null`, `{"a":1}`, `{"seq-db-X":5}`, `"str"`, `{"seq-db-X":{"from":"x"}}`, ``, `{`}

// noise: deterministic, poorly compressible padding (fraction sizes are measured after
// compression, so repetitive bodies would never fill a fraction)
func noise(seed, n int) string {
	const abc = "abcdefghijklmnopqrstuvwxyzABCDEFGHIJKLMNOPQRSTUVWXYZ0123456789"
	x := uint64(seed)*6364136223846793005 + 1442695040888963407
	b := make([]byte, n)
	for i := range b {
		x = x*6364136223846793005 + 1442695040888963407
		b[i] = abc[(x>>33)%uint64(len(abc))]
	}
	return string(b)
}

func genDocs(t *rapid.T, seq *int) []model.Doc {
	n := rapid.IntRange(1, 6).Draw(t, "ndocs")
	var docs []model.Doc
	for i := 0; i < n; i++ {
		*seq++
		pad := rapid.SampledFrom([]int{20, 200, 900}).Draw(t, "pad")
		docs = append(docs, model.Doc{
			ID:   model.ID{MID: gen.BaseMID + uint64(*seq/2), RID: uint64(*seq)},
			Body: []byte(fmt.Sprintf(`{"n":%d,"p":"%s"}`, *seq, noise(*seq, pad))),
			Toks: gen.DocTokens(t),
		})
	}
	return docs
}

func genCase(t *rapid.T) Case {
	var c Case
	fs := rapid.SampledFrom([]uint64{600, 2500, 8000}).Draw(t, "fracsize")
	c.Opts = harness.StoreOpts{NoMaintLoop: true, FracSize: fs, SkipSortDocs: rapid.Bool().Draw(t, "skipsort"), KeepMetaFile: rapid.IntRange(0, 4).Draw(t, "keepmeta") == 4}
	// sane configuration only (TotalSize >= 4*FracSize): with less, retention deletes the
	// fraction that is being written, which no real deployment configures
	switch rapid.IntRange(0, 2).Draw(t, "retention") {
	case 0:
		c.Opts.TotalSize = 1 << 40
	case 1:
		c.Opts.TotalSize = fs * 4
	default:
		c.Opts.TotalSize = fs * 8
	}
	c.Fsync = rapid.IntRange(0, 3).Draw(t, "fsync") == 3
	n := rapid.IntRange(4, 14).Draw(t, "nops")
	seq := 0
	for i := 0; i < n; i++ {
		k := rapid.IntRange(0, 19).Draw(t, "kind")
		switch {
		case k < 7:
			c.Ops = append(c.Ops, Op{Kind: "bulk", Docs: genDocs(t, &seq)})
		case k < 11:
			c.Ops = append(c.Ops, Op{Kind: "maintain"})
		case k < 12:
			if rapid.Bool().Draw(t, "overlap") {
				hp := rapid.SampledFrom(holdPoints).Draw(t, "hold")
				c.Ops = append(c.Ops, Op{Kind: "overlap", Docs: genDocs(t, &seq), Docs2: genDocs(t, &seq), Point: hp.name, Arg: hp.arg})
			} else {
				c.Ops = append(c.Ops, Op{Kind: "seal"})
			}
		case k < 15:
			p := rapid.SampledFrom(points).Draw(t, "point")
			c.Ops = append(c.Ops, Op{Kind: "crash", Docs: genDocs(t, &seq), Point: p.name, Arg: p.arg, N: rapid.IntRange(1, 2).Draw(t, "nth")})
		case k < 16:
			// the operator lowers the total size limit below what is stored: the next maintenance
			// pass deletes everything, including the fraction that is still active
			p := rapid.SampledFrom(shrinkPoints).Draw(t, "shrinkpoint")
			c.Ops = append(c.Ops, Op{Kind: "shrink", Docs: genDocs(t, &seq), Point: p.name, Arg: p.arg, N: rapid.IntRange(1, 2).Draw(t, "nth")})
		case k < 17:
			c.Ops = append(c.Ops, Op{Kind: "kill"})
		case k < 18:
			c.Ops = append(c.Ops, Op{Kind: "restart"})
		case k < 19:
			c.Ops = append(c.Ops, Op{Kind: "snap"})
		default:
			op := Op{Kind: "tamper", Tamper: rapid.SampledFrom([]string{"delete", "truncate", "shape", "stale", "typed"}).Draw(t, "tamper")}
			op.Permille = rapid.IntRange(0, 999).Draw(t, "permille")
			op.Shape = rapid.SampledFrom(shapes).Draw(t, "shape")
			c.Ops = append(c.Ops, op)
		}
	}
	// end with ingestion + maintenance + a restart so that what a crash left behind is used
	c.Ops = append(c.Ops, Op{Kind: "bulk", Docs: genDocs(t, &seq)}, Op{Kind: "maintain"}, Op{Kind: "restart"})
	return c
}

type world struct {
	fracDocs map[string]model.Corpus // fraction name -> its documents
	order    []string                // creation order
	gone     map[string]bool         // observed gone (must stay gone)
	delBegun map[string]bool         // a .del file existed before a restart
	// sealedDelBegun: a complete sealed fraction had lost or renamed a file when the process crashed
	sealedDelBegun map[string]bool
}

func vfail(step string, err error) error {
	var ve *harness.VerifyErr
	if errors.As(err, &ve) {
		return evid.Failf(ve.Kind, "%s: %s", step, ve.Msg)
	}
	return err
}

func runCase(c Case) (evid.Result, error) {
	res := evid.Result{}
	dir := evid.ScratchDir("c15")
	defer os.RemoveAll(dir)
	w := &world{fracDocs: map[string]model.Corpus{}, gone: map[string]bool{}, delBegun: map[string]bool{}, sealedDelBegun: map[string]bool{}}
	var p *harness.Proc
	defer func() {
		if p != nil {
			p.Kill()
		}
	}()
	cachePath := filepath.Join(dir, ".frac-cache")
	var snapshot []byte
	haveSnap := false
	crashes := 0
	oddFileSet := false

	noteDelFiles := func() {
		ents, _ := os.ReadDir(dir)
		for _, e := range ents {
			if strings.HasSuffix(e.Name(), ".del") {
				base := e.Name()
				base = base[:strings.IndexByte(base, '.')]
				w.delBegun[base] = true
			}
		}
	}
	// verify after a (re)start or quiescent step; quiescent=false after an unclean stop
	verify := func(step string) error {
		r, err := p.Do(harness.PCmd{Op: "search", Req: &model.SearchReq{Q: model.All(), From: 0, To: 1 << 62, Limit: 1 << 20}, Text: "*"})
		if err != nil {
			return evid.Failf("died-in-search", "%s: exit %d %s", step, p.Exit, p.StderrTail())
		}
		if !r.OK {
			return evid.Failf("search-error", "%s: %s", step, r.Err)
		}
		served := map[model.ID]bool{}
		for _, id := range r.IDs {
			served[id] = true
		}
		var corpus model.Corpus
		var absent []model.ID
		known := 0
		for _, name := range w.order {
			docs := w.fracDocs[name]
			n := 0
			for _, d := range docs {
				if served[d.ID] {
					n++
				}
			}
			known += n
			switch {
			case n == len(docs) && n > 0:
				if w.gone[name] {
					return evid.Failf("fraction-reappeared", "%s: documents of fraction %s are served again after it was gone", step, name)
				}
				if w.delBegun[name] {
					return evid.Failf("deleted-fraction-served", "%s: fraction %s had a .del file before the start but is served", step, name)
				}
				corpus = append(corpus, docs...)
			case n == 0:
				w.gone[name] = true
				for _, d := range docs {
					absent = append(absent, d.ID)
				}
			default:
				return evid.Failf("fraction-partially-served", "%s: %d of %d documents of fraction %s are served", step, n, len(docs), name)
			}
		}
		if known != len(served) {
			all := map[model.ID]bool{}
			for _, docs := range w.fracDocs {
				for _, d := range docs {
					all[d.ID] = true
				}
			}
			var foreign []model.ID
			for id := range served {
				if !all[id] {
					foreign = append(foreign, id)
				}
			}
			sort.Slice(foreign, func(i, j int) bool { return foreign[i].Less(foreign[j]) })
			return evid.Failf("foreign-ids", "%s: %d ids served, %d belong to known fractions; never ingested: %v (%d raw ids in the answer)", step, len(served), known, foreign, len(r.IDs))
		}
		if len(absent) > 300 {
			absent = absent[:300]
		}
		n, err := harness.VerifyServed(p, corpus, absent)
		res.Evals += n
		if err != nil {
			return vfail(step, err)
		}
		return nil
	}
	// after a quiescent maintenance pass the removed fractions must be the oldest ones
	checkPrefix := func(step string) error {
		seenServed := false
		for _, name := range w.order {
			if len(w.fracDocs[name]) == 0 {
				continue
			}
			if !w.gone[name] {
				seenServed = true
			} else if seenServed {
				return evid.Failf("not-oldest-first", "%s: fraction %s is gone while an older one is still served (order %v, gone %v)", step, name, w.order, w.gone)
			}
		}
		return nil
	}
	// after a start every deletion that had begun is finished: no .del file is left, and no
	// document file of a fraction that is gone
	orphans := func(step string) error {
		ents, _ := os.ReadDir(dir)
		for _, e := range ents {
			name := e.Name()
			if !strings.HasPrefix(name, "seq-db-") {
				continue
			}
			if strings.HasSuffix(name, ".del") {
				return evid.Failf("deletion-not-finished", "%s: %s is still on disk after the start", step, name)
			}
			base := name[:strings.IndexByte(name, '.')]
			// only files that hold documents matter: from a lone .meta or .index nothing can be
			// served again (the loader skips such a fraction), it is an unreferenced file, not a
			// fraction that is "not completely gone"
			// only files that hold documents matter: from a lone .meta, .index or temp file
			// nothing can be served again (the loader skips such a fraction).  A stricter rule
			// ("no file at all of a gone fraction") was tried and is NOT what seq-db does: meta
			// files kept on request, the stale .index of a re-activated fraction and ._index /
			// ._sdocs temp files of interrupted seals all outlive their fraction by design.
			if w.sealedDelBegun[base] {
				return evid.Failf("deletion-not-finished", "%s: the deletion of the sealed fraction %s had begun before the start (a file of it was removed or renamed), yet %s is still on disk", step, base, name)
			}
			if !strings.HasSuffix(name, ".docs") && !strings.HasSuffix(name, ".sdocs") {
				continue
			}
			if w.gone[base] {
				return evid.Failf("deleted-fraction-files-left", "%s: fraction %s is gone but %s is still on disk", step, base, name)
			}
		}
		return nil
	}
	upWith := func(step string, o harness.StoreOpts) error {
		noteDelFiles()
		var err error
		p, err = harness.OpenProc(dir, o, c.Fsync)
		if err != nil {
			return evid.Failf("no-start", "%s: %v", step, err)
		}
		if err := verify(step); err != nil {
			return err
		}
		return orphans(step)
	}
	up := func(step string) error { return upWith(step, c.Opts) }
	activeName := func() (string, error) {
		r, err := p.Do(harness.PCmd{Op: "fracs"})
		if err != nil {
			return "", evid.Failf("died-idle", "exit %d %s", p.Exit, p.StderrTail())
		}
		if len(r.Fracs) == 0 {
			return "", fmt.Errorf("no fractions listed")
		}
		return r.Fracs[len(r.Fracs)-1].Name, nil
	}
	bulk := func(docs []model.Doc) error {
		name, err := activeName()
		if err != nil {
			return err
		}
		r, err := p.Do(harness.PCmd{Op: "bulk", Docs: docs, Wait: true})
		if err != nil {
			return evid.Failf("died-in-bulk", "exit %d %s", p.Exit, p.StderrTail())
		}
		if !r.OK {
			return evid.Failf("bulk-error", "%s", r.Err)
		}
		if _, ok := w.fracDocs[name]; !ok {
			w.order = append(w.order, name)
		}
		w.fracDocs[name] = append(w.fracDocs[name], docs...)
		return nil
	}
	if err := up("initial"); err != nil {
		return res, err
	}
	for i, op := range c.Ops {
		step := fmt.Sprintf("step %d (%s)", i, op.Kind)
		if p == nil || p.Dead {
			if err := up(step + " restart"); err != nil {
				return res, err
			}
		}
		switch op.Kind {
		case "bulk":
			if err := bulk(op.Docs); err != nil {
				return res, err
			}
		case "maintain":
			if _, err := p.Do(harness.PCmd{Op: "maintain"}); err != nil {
				return res, evid.Failf("died-in-maintenance", "%s: exit %d %s", step, p.Exit, p.StderrTail())
			}
			if err := verify(step); err != nil {
				return res, err
			}
			if crashes == 0 {
				if err := checkPrefix(step); err != nil {
					return res, err
				}
			}
			res.Labels = append(res.Labels, "maintain")
		case "seal":
			if _, err := p.Do(harness.PCmd{Op: "seal"}); err != nil {
				return res, evid.Failf("died-in-seal", "%s: exit %d %s", step, p.Exit, p.StderrTail())
			}
		case "crash":
			if err := bulk(op.Docs); err != nil {
				return res, err
			}
			before, err := p.Do(harness.PCmd{Op: "files", Dir: dir})
			if err != nil {
				return res, evid.Failf("died-idle", "exit %d", p.Exit)
			}
			if _, err := p.Do(harness.PCmd{Op: "arm", Point: op.Point, Arg: op.Arg, N: max(1, op.N)}); err != nil {
				return res, err
			}
			// a maintenance pass (rotate+seal when over FracSize, retention, cache sync), a
			// forced rotate+seal, and another pass: any of them may reach the armed point
			_, err = p.Do(harness.PCmd{Op: "maintain"})
			if err == nil {
				_, err = p.Do(harness.PCmd{Op: "seal"})
			}
			if err == nil {
				_, err = p.Do(harness.PCmd{Op: "maintain"})
			}
			if err == nil {
				if _, err := p.Do(harness.PCmd{Op: "disarm"}); err != nil {
					return res, evid.Failf("died-idle", "exit %d", p.Exit)
				}
				res.Labels = append(res.Labels, "point-not-reached")
				continue
			}
			if p.Crash == nil {
				return res, evid.Failf("died-in-maintenance", "%s: died without reaching the armed point: exit %d %s", step, p.Exit, p.StderrTail())
			}
			crashes++
			res.Labels = append(res.Labels, "crash@"+op.Point+op.Arg)
			if fileKinds(p.Crash.Files) != fileKinds(before.Files) {
				oddFileSet = true
			}
			// a sealed fraction (index + documents, no meta) that has lost or renamed a file at the
			// crash: its deletion has begun on disk, the next start has to finish it off entirely
			for base, kinds := range kindsByBase(before.Files) {
				if !kinds[".index"] || kinds[".meta"] || !(kinds[".docs"] || kinds[".sdocs"]) {
					continue
				}
				now := kindsByBase(p.Crash.Files)[base]
				for k := range kinds {
					if !now[k] {
						w.sealedDelBegun[base] = true
						res.Labels = append(res.Labels, "crash-inside-the-deletion-of-a-sealed-fraction")
					}
				}
			}
		case "overlap":
			tainted := crashes > 0
			if err := bulk(op.Docs); err != nil {
				return res, err
			}
			older := w.order[len(w.order)-1]
			if _, err := p.Do(harness.PCmd{Op: "delay", Point: op.Point, Arg: op.Arg, DelayMs: 20000}); err != nil {
				return res, evid.Failf("died-idle", "exit %d", p.Exit)
			}
			if r, err := p.Do(harness.PCmd{Op: "sealasync"}); err != nil || !r.OK {
				return res, evid.Failf("died-in-seal", "%s: background sealing did not rotate: exit %d %s", step, p.Exit, p.StderrTail())
			}
			if err := bulk(op.Docs2); err != nil {
				return res, err
			}
			if _, err := p.Do(harness.PCmd{Op: "seal"}); err != nil {
				return res, evid.Failf("died-in-seal", "%s: exit %d %s", step, p.Exit, p.StderrTail())
			}
			p.Kill() // no retention is in progress: this end does not excuse a later wrong order
			if err := up(step + " restart (older fraction unsealed, newer sealed)"); err != nil {
				return res, err
			}
			res.Labels = append(res.Labels, "overlapping-seals-interrupted")
			if tainted {
				continue
			}
			fr, err := p.Do(harness.PCmd{Op: "fracs"})
			if err != nil {
				return res, evid.Failf("died-idle", "exit %d", p.Exit)
			}
			var total, olderSum uint64
			size := map[string]uint64{}
			for _, f := range fr.Fracs {
				total += f.Size
				size[f.Name] = f.Size
			}
			for _, name := range w.order {
				if name == older {
					break
				}
				olderSum += size[name]
			}
			if size[older] == 0 || total-olderSum < 2 {
				continue
			}
			if err := p.StopGraceful(); err != nil {
				return res, evid.Failf("stop-failed", "%s: %v", step, err)
			}
			lower := c.Opts
			lower.TotalSize = total - olderSum - 1 // everything older than the held fraction and exactly one more has to go
			if err := upWith(step+" (size limit just below what is stored)", lower); err != nil {
				return res, err
			}
			if _, err := p.Do(harness.PCmd{Op: "maintain"}); err != nil {
				return res, evid.Failf("died-in-maintenance", "%s: exit %d %s", step, p.Exit, p.StderrTail())
			}
			if err := verify(step + " retention"); err != nil {
				return res, err
			}
			if err := checkPrefix(step + " retention after interrupted overlapping seals"); err != nil {
				return res, err
			}
			res.Labels = append(res.Labels, "retention-after-overlap")
			// back to the generated configuration for the rest of the history (with the lowered
			// limit a later pass could delete the fraction being written, after which the
			// process is unusable by design); nothing is in progress, so this end is harmless
			p.Kill()
		case "shrink":
			if err := bulk(op.Docs); err != nil {
				return res, err
			}
			if err := p.StopGraceful(); err != nil {
				return res, evid.Failf("stop-failed", "%s: %v", step, err)
			}
			tiny := c.Opts
			tiny.TotalSize = 1
			if err := upWith(step+" (total size lowered)", tiny); err != nil {
				return res, err
			}
			before, err := p.Do(harness.PCmd{Op: "files", Dir: dir})
			if err != nil {
				return res, evid.Failf("died-idle", "exit %d", p.Exit)
			}
			if _, err := p.Do(harness.PCmd{Op: "arm", Point: op.Point, Arg: op.Arg, N: max(1, op.N)}); err != nil {
				return res, err
			}
			_, err = p.Do(harness.PCmd{Op: "maintain"})
			crashes++ // from here on retention is no longer "crash-free"
			if err != nil {
				if p.Crash == nil {
					return res, evid.Failf("died-in-maintenance", "%s: died without reaching the armed point: exit %d %s", step, p.Exit, p.StderrTail())
				}
				res.Labels = append(res.Labels, "shrink-crash@"+op.Point+op.Arg)
				if fileKinds(p.Crash.Files) != fileKinds(before.Files) {
					oddFileSet = true
				}
			} else {
				// the active fraction may have been deleted: this process cannot be used (or
				// stopped gracefully) any more, as after any abrupt end
				p.Kill()
				res.Labels = append(res.Labels, "shrink-completed")
			}
		case "kill":
			p.Kill()
			crashes++
		case "restart":
			if err := p.StopGraceful(); err != nil {
				return res, evid.Failf("stop-failed", "%s: %v", step, err)
			}
		case "snap":
			if b, err := os.ReadFile(cachePath); err == nil {
				snapshot, haveSnap = b, true
			}
		case "tamper":
			if err := p.StopGraceful(); err != nil {
				return res, evid.Failf("stop-failed", "%s: %v", step, err)
			}
			switch op.Tamper {
			case "delete":
				_ = os.Remove(cachePath)
			case "truncate":
				if st, err := os.Stat(cachePath); err == nil {
					_ = os.Truncate(cachePath, st.Size()*int64(op.Permille)/1000)
				}
			case "shape":
				_ = os.WriteFile(cachePath, []byte(op.Shape), 0o660)
			case "typed":
				// well-formed JSON in which one field of one real entry has the wrong type: the
				// decoder reports an error, and the file has to be ignored as a whole
				var m map[string]map[string]any
				if b, err := os.ReadFile(cachePath); err == nil && json.Unmarshal(b, &m) == nil && len(m) > 0 {
					names := make([]string, 0, len(m))
					for n := range m {
						names = append(names, n)
					}
					sort.Strings(names)
					e := m[names[op.Permille%len(names)]]
					keys := make([]string, 0, len(e))
					for k := range e {
						keys = append(keys, k)
					}
					sort.Strings(keys)
					if len(keys) > 0 {
						k := keys[(op.Permille/7)%len(keys)]
						if _, isString := e[k].(string); isString {
							e[k] = 7
						} else {
							e[k] = "x"
						}
						if b, err := json.Marshal(m); err == nil {
							_ = os.WriteFile(cachePath, b, 0o660)
						}
					}
				}
			case "stale":
				if haveSnap {
					_ = os.WriteFile(cachePath, snapshot, 0o660)
				}
			}
			res.Labels = append(res.Labels, "frac-cache-"+op.Tamper)
			oddFileSet = true
		}
	}
	if p == nil || p.Dead {
		if err := up("final restart"); err != nil {
			return res, err
		}
	}
	if err := p.StopGraceful(); err != nil {
		return res, evid.Failf("stop-failed", "final: %v", err)
	}
	// what is gone stays gone after one more start
	if err := up("second final restart"); err != nil {
		return res, err
	}
	if err := p.StopGraceful(); err != nil {
		return res, evid.Failf("stop-failed", "final: %v", err)
	}
	p = nil
	res.NonTrivial = oddFileSet
	ngone := 0
	for range w.gone {
		ngone++
	}
	if ngone > 0 {
		res.Labels = append(res.Labels, "retention-removed-fractions")
	}
	if len(w.order) >= 3 {
		res.Labels = append(res.Labels, "fractions>=3")
	}
	return res, nil
}

// fileKinds: the multiset of file suffixes per fraction, ignoring names (a crash state is
// "odd" when it shows a combination of files no quiescent state has)
func kindsByBase(files map[string]int64) map[string]map[string]bool {
	out := map[string]map[string]bool{}
	for name := range files {
		i := strings.IndexByte(name, '.')
		if i <= 0 || !strings.HasPrefix(name, "seq-db-") {
			continue
		}
		if out[name[:i]] == nil {
			out[name[:i]] = map[string]bool{}
		}
		out[name[:i]][name[i:]] = true
	}
	return out
}

func fileKinds(files map[string]int64) string {
	per := map[string][]string{}
	for name := range files {
		base := filepath.Base(name)
		if !strings.HasPrefix(base, "seq-db-") {
			per[""] = append(per[""], strings.SplitN(base, ".", 3)[1])
			continue
		}
		i := strings.IndexByte(base, '.')
		per[base[:i]] = append(per[base[:i]], base[i:])
	}
	var kinds []string
	for _, v := range per {
		sort.Strings(v)
		kinds = append(kinds, strings.Join(v, ","))
	}
	sort.Strings(kinds)
	// collapse duplicates: only the set of per-fraction combinations matters
	var out []string
	for i, k := range kinds {
		if i == 0 || k != kinds[i-1] {
			out = append(out, k)
		}
	}
	return strings.Join(out, " | ")
}

func TestProp(t *testing.T)   { evid.Check(t, genCase, runCase) }
func TestReplay(t *testing.T) { evid.Replay(t, runCase) }
