// C14, part A: exhaustive small-scope soundness of the occupancy map.
//
//	TestEnumDist  seq.MIDsDistribution on a millisecond grid: (from, to, bucket) x every subset of a
//	              10-point candidate set x every query interval over the grid, in memory and after
//	              MarshalJSON -> UnmarshalJSON.
//	TestEnumInfo  frac.Info with the real constants (1 min buckets, 10 min threshold, 24 h cap), built the
//	              way the sealer builds it (From/To/DocsTotal from the IDs, BuildDistribution(sorted IDs)),
//	              x every non-empty subset of 10 candidate timestamps x every query interval, before and
//	              after Info.Save -> Info.Load.
//
// Oracle (soundness only): some added timestamp t with qf <= t <= qt  =>  IsIntersecting(qf, qt).
// False positives are legal and only counted.
package c14

import (
	"encoding/json"
	"fmt"
	"math"
	"os"
	"sort"
	"testing"
	"time"

	"github.com/ozontech/seq-db/frac"
	"github.com/ozontech/seq-db/seq"

	"verif/internal/evid"
)

// ---------------------------------------------------------------- shared helpers

func uniqSorted(v []int64) []int64 {
	sort.Slice(v, func(i, j int) bool { return v[i] < v[j] })
	out := v[:0]
	for i, x := range v {
		if i == 0 || x != v[i-1] {
			out = append(out, x)
		}
	}
	return out
}

// withCtx appends context to a violation without losing its signature.
func withCtx(err error, format string, args ...any) error {
	if f, ok := err.(*evid.Failure); ok {
		return &evid.Failure{Sig: f.Sig, Msg: f.Msg + fmt.Sprintf(format, args...)}
	}
	return err
}

// counters of the enumerators (sequential, one process); written into the evidence notes
var (
	nPredCalls, nFalsePos, nTrueNeg, nTruePos int64
)

func scope() int {
	if v := os.Getenv("C14_SCOPE"); v != "" {
		n := 0
		fmt.Sscan(v, &n)
		return n
	}
	return 1
}

// sweep checks soundness of pred over all intervals of grid for the chosen timestamps.
func sweep(sig string, grid, chosen []int64, pred func(qf, qt int64) bool) (pos, neg int, err error) {
	for i, qf := range grid {
		for _, qt := range grid[i:] {
			want := false
			for _, t := range chosen {
				if qf <= t && t <= qt {
					want = true
					break
				}
			}
			got := pred(qf, qt)
			nPredCalls++
			switch {
			case want && !got:
				return pos, neg, evid.Failf(sig, "timestamps %v, query [%d,%d]: a timestamp lies in the interval but the predicate says 'not intersecting'", chosen, qf, qt)
			case want:
				pos++
				nTruePos++
			case got:
				nFalsePos++
			default:
				neg++
				nTrueNeg++
			}
		}
	}
	return pos, neg, nil
}

// ---------------------------------------------------------------- A1: seq.MIDsDistribution

type DistCase struct {
	From   int64   `json:"from"`      // ms
	To     int64   `json:"to"`        // ms
	Bucket int64   `json:"bucket_ms"` // ms
	Cand   []int64 `json:"cand"`      // candidate timestamps (ms), ascending
	Grid   []int64 `json:"grid"`      // query ends (ms), ascending
	Set    uint32  `json:"set"`       // chosen subset of Cand
}

func runDist(c DistCase) (evid.Result, error) {
	res := evid.Result{}
	d := seq.NewMIDsDistribution(time.UnixMilli(c.From), time.UnixMilli(c.To), time.Duration(c.Bucket)*time.Millisecond)
	var chosen []int64
	for i, t := range c.Cand {
		if c.Set&(1<<i) != 0 {
			chosen = append(chosen, t)
			d.Add(seq.MID(t))
		}
	}
	pos, neg, err := sweep("dist-false-negative", c.Grid, chosen, func(qf, qt int64) bool { return d.IsIntersecting(seq.MID(qf), seq.MID(qt)) })
	if err != nil {
		return res, err
	}
	res.Evals += len(c.Grid) * (len(c.Grid) + 1) / 2
	// the persisted form
	raw, err := json.Marshal(d)
	if err != nil {
		return res, evid.Failf("dist-marshal-error", "%v", err)
	}
	d2 := &seq.MIDsDistribution{}
	if err := json.Unmarshal(raw, d2); err != nil {
		return res, evid.Failf("dist-unmarshal-error", "%s: %v", raw, err)
	}
	_, neg2, err := sweep("dist-json-false-negative", c.Grid, chosen, func(qf, qt int64) bool { return d2.IsIntersecting(seq.MID(qf), seq.MID(qt)) })
	if err != nil {
		return res, withCtx(err, " (json form %s)", raw)
	}
	res.Evals += len(c.Grid) * (len(c.Grid) + 1) / 2
	res.Labels = append(res.Labels, fmt.Sprintf("bucket=%dms", c.Bucket), fmt.Sprintf("bits=%d", (c.To-c.From)/c.Bucket+3))
	if c.Bucket%1000 != 0 {
		res.Labels = append(res.Labels, "json-drops-subsecond-bucket")
	} else if neg2 != neg {
		res.Labels = append(res.Labels, "json-changes-precision")
	}
	if (c.To-c.From)/c.Bucket >= 10 && c.Bucket%1000 == 0 {
		res.Labels = append(res.Labels, "caller-shaped(span>=10 buckets, whole seconds)")
	}
	// non-trivial: the predicate had to say yes at least once and did say no at least once
	res.NonTrivial = pos > 0 && neg > 0
	return res, nil
}

type distCfg struct{ from, span, bucket, focus int64 }

func distConfigs() []distCfg {
	const base = int64(1_000_000) // ms; well above 0 so that "below from" stays a valid MID
	buckets := []int64{1000, 2000, 3000, 500}
	aligns := []int64{1}
	if scope() >= 2 {
		aligns = []int64{0, 1, 999}
	}
	var out []distCfg
	for _, b := range buckets {
		// spans in ms: the number of in-range buckets is span/b+1, the bitmask has span/b+3 bits.
		// 5b -> 8 bits (one full byte), 6b -> 9 bits, 13b -> 16, 14b -> 17, 22b -> 25 (four bytes)
		spans := []int64{0, 1, b - 1, b, 2*b + 1, 5*b + b/2, 6 * b, 7*b - 1, 10 * b, 13*b + 7, 14 * b, 22*b + 3}
		if scope() >= 2 {
			spans = append(spans, 5*b, 6*b-1, 13*b, 14*b-1, 21*b+b-1, 30*b+1, 40*b)
		}
		for _, sp := range spans {
			nb := sp/b + 1 // in-range buckets 0..nb-1 (bit k+1)
			foci := map[int64]bool{0: true}
			for _, k := range []int64{nb - 1, nb / 2, 6, 7, 14, 15, 22, 23} { // bit k+1: byte borders are bits 7|8, 15|16, 23|24
				if k >= 0 && k < nb {
					foci[k] = true
				}
			}
			ks := make([]int64, 0, len(foci))
			for k := range foci {
				ks = append(ks, k)
			}
			sort.Slice(ks, func(i, j int) bool { return ks[i] < ks[j] })
			for _, a := range aligns {
				for _, k := range ks {
					out = append(out, distCfg{from: base + a, span: sp, bucket: b, focus: k})
				}
			}
		}
	}
	return out
}

func (g distCfg) candidates() ([]int64, []int64) {
	from, to, b := g.from, g.from+g.span, g.bucket
	lo := from + g.focus*b // start of the focus bucket
	hi := lo + b           // start of the next one
	cand := uniqSorted([]int64{from - 1, from, lo - 1, lo, lo + 1, hi - 1, hi, to - 1, to, to + 1})
	// at most 10 candidates; pad with further borders if deduplication left room
	for _, x := range []int64{hi + 1, from + 1, to + b, hi + b, from - b} {
		if len(cand) >= 10 {
			break
		}
		cand = uniqSorted(append(cand, x))
	}
	grid := append([]int64{}, cand...)
	for _, x := range cand {
		grid = append(grid, x-1, x+1)
	}
	grid = append(grid, 1, from-b, to+b, to+2*b, math.MaxInt64)
	return cand, uniqSorted(grid)
}

func TestEnumDist(t *testing.T) {
	r := evid.For(t).Lazy().DistinctByConstruction()
	cfgs := distConfigs()
	r.Note("dist_scope", scope())
	r.Note("dist_configs(from,span,bucket,focus)", len(cfgs))
	nPredCalls, nFalsePos, nTrueNeg, nTruePos = 0, 0, 0, 0
	evid.Enum(t, func(yield func(DistCase) bool) {
		defer func() {
			r.Note("dist_predicate_calls", nPredCalls)
			r.Note("dist_true_positives", nTruePos)
			r.Note("dist_true_negatives", nTrueNeg)
			r.Note("dist_false_positives(allowed)", nFalsePos)
		}()
		for _, g := range cfgs {
			cand, grid := g.candidates()
			for set := uint32(0); set < 1<<len(cand); set++ {
				if !yield(DistCase{From: g.from, To: g.from + g.span, Bucket: g.bucket, Cand: cand, Grid: grid, Set: set}) {
					return
				}
			}
		}
	}, runDist)
}

func TestReplayDist(t *testing.T) { evid.Replay(t, runDist) }

// ---------------------------------------------------------------- A2: frac.Info with the real constants

type InfoCase struct {
	Creation int64   `json:"creation"` // fraction creation time, ms
	Cand     []int64 `json:"cand"`     // candidate document timestamps (ms), ascending
	Grid     []int64 `json:"grid"`     // query ends (ms), ascending
	Set      uint32  `json:"set"`      // chosen non-empty subset
	// WithSys: the sealer's ID list starts with the active fraction's system ID (MID = MaxUint64, a stub at
	// LID 0); it is passed to BuildDistribution as well and lands in the underflow bucket
	WithSys bool `json:"with_sys,omitempty"`
}

func buildInfo(creation int64, chosen []int64, withSys bool) *frac.Info {
	info := frac.NewInfo("seq-db-c14", 0, 0)
	info.CreationTime = uint64(creation)
	ids := make([]seq.ID, 0, len(chosen)+1)
	if withSys {
		ids = append(ids, seq.ID{MID: math.MaxUint64, RID: math.MaxUint64})
	}
	for i := len(chosen) - 1; i >= 0; i-- { // the sealer passes IDs sorted descending
		t := seq.MID(chosen[i])
		ids = append(ids, seq.ID{MID: t, RID: seq.RID(i)})
		if info.From > t {
			info.From = t
		}
		if info.To < t {
			info.To = t
		}
		info.DocsTotal++
	}
	info.BuildDistribution(ids)
	return info
}

func runInfo(c InfoCase) (evid.Result, error) {
	res := evid.Result{}
	var chosen []int64
	for i, t := range c.Cand {
		if c.Set&(1<<i) != 0 {
			chosen = append(chosen, t)
		}
	}
	if len(chosen) == 0 {
		return res, fmt.Errorf("empty subset is not a fraction a caller can seal")
	}
	info := buildInfo(c.Creation, chosen, c.WithSys)
	pos, neg, err := sweep("info-false-negative", c.Grid, chosen, func(qf, qt int64) bool { return info.IsIntersecting(seq.MID(qf), seq.MID(qt)) })
	if err != nil {
		return res, err
	}
	raw := info.Save()
	info2 := &frac.Info{}
	info2.Load(raw)
	if (info.Distribution == nil) != (info2.Distribution == nil) {
		// losing the map is sound; gaining one cannot happen
		res.Labels = append(res.Labels, "distribution-presence-changes-in-save/load")
	}
	_, _, err = sweep("info-saved-false-negative", c.Grid, chosen, func(qf, qt int64) bool { return info2.IsIntersecting(seq.MID(qf), seq.MID(qt)) })
	if err != nil {
		return res, withCtx(err, " (saved form %s)", raw)
	}
	// the .frac-cache form: a JSON map name -> Info
	rawMap, err := json.Marshal(map[string]*frac.Info{"x": info})
	if err != nil {
		return res, evid.Failf("info-marshal-error", "%v", err)
	}
	m := map[string]*frac.Info{}
	if err := json.Unmarshal(rawMap, &m); err != nil || m["x"] == nil {
		return res, evid.Failf("info-unmarshal-error", "%v", err)
	}
	info3 := m["x"]
	_, _, err = sweep("info-cached-false-negative", c.Grid, chosen, func(qf, qt int64) bool { return info3.IsIntersecting(seq.MID(qf), seq.MID(qt)) })
	if err != nil {
		return res, err
	}
	n := len(c.Grid) * (len(c.Grid) + 1) / 2
	res.Evals = 3 * n
	oldest := c.Creation - chosen[0]
	switch {
	case info.Distribution == nil:
		res.Labels = append(res.Labels, "no-distribution(spread<10min)")
	case oldest > int64(frac.DistributionMaxInterval/time.Millisecond):
		res.Labels = append(res.Labels, "distribution-capped-at-24h")
	default:
		res.Labels = append(res.Labels, "distribution-from-oldest-doc")
	}
	if c.WithSys {
		res.Labels = append(res.Labels, "ids-with-system-stub")
	}
	if chosen[len(chosen)-1] > c.Creation {
		res.Labels = append(res.Labels, "docs-after-creation")
	}
	// non-trivial: a distribution exists, it had to say yes and it did prune inside the fraction's borders
	inside := 0
	if info.Distribution != nil {
		for i, qf := range c.Grid {
			for _, qt := range c.Grid[i:] {
				if qf >= chosen[0] && qt <= chosen[len(chosen)-1] && !info.IsIntersecting(seq.MID(qf), seq.MID(qt)) {
					inside++
				}
			}
		}
	}
	if inside > 0 {
		res.Labels = append(res.Labels, "pruned-inside-borders")
	}
	res.NonTrivial = info.Distribution != nil && pos > 0 && neg > 0 && inside > 0
	return res, nil
}

const (
	minute = int64(60_000)
	hour   = 60 * minute
	day    = 24 * hour
)

// candidate sets as offsets BEFORE the creation time (negative = after it)
func infoCandidateSets() [][]int64 {
	x := 37*minute + 123 // an oldest document 37 min 0.123 s before creation: buckets are relative to it
	sets := [][]int64{
		// around the 24 h cap: distribution starts at creation-24h, older documents go to the underflow bucket
		{day + minute, day + 1, day, day - 1, day - minute + 1, day - minute, day - minute - 1, 12 * hour, 0, -1},
		// around the 10 min threshold (no distribution when the oldest document is younger)
		{10*minute + 1, 10 * minute, 10*minute - 1, 9*minute + 1, 9 * minute, minute, minute - 1, 1, 0, -1},
		// buckets relative to the oldest document, bits around the first byte border (bit 7|8 = bucket 6|7)
		{x, x - minute + 1, x - minute, x - minute - 1, x - 6*minute - 59_999, x - 7*minute, x - 7*minute - 1, 1, 0, -5},
		// far past and far future
		{400 * day, 30 * day, day + 5, day - minute, 23*hour + 59*minute + 59_999, 5 * minute, 0, -1, -hour, -day},
		// last in-range bucket and the overflow bucket; second byte border (bucket 14|15) from a 16 min old fraction
		{16 * minute, 16*minute - 1, 2*minute + 1, 2 * minute, minute + 1, minute, 1, 0, -1, -minute},
	}
	if scope() >= 2 {
		y := 3*hour + 7*minute + 59_999
		sets = append(sets,
			[]int64{y, y - 1, y - 59_999, y - minute, y - 22*minute, y - 23*minute, y - 23*minute - 1, y - 3*hour, 0, -1},
			[]int64{day + hour, day, day - 6*minute, day - 7*minute, day - 7*minute + 1, day - 14*minute, day - 15*minute, minute, 0, -2},
			[]int64{11 * minute, 10*minute + 59_999, 10 * minute, 5 * minute, 4*minute + 1, 59_999, 2, 1, 0, -1},
		)
	}
	return sets
}

func TestEnumInfo(t *testing.T) {
	r := evid.For(t).Lazy().DistinctByConstruction()
	creations := []int64{1_790_000_012_345}
	if scope() >= 2 {
		creations = append(creations, 1_790_000_040_000, 1_790_000_059_999)
	}
	sets := infoCandidateSets()
	r.Note("info_candidate_sets", len(sets))
	r.Note("info_creation_times", len(creations))
	nPredCalls, nFalsePos, nTrueNeg, nTruePos = 0, 0, 0, 0
	evid.Enum(t, func(yield func(InfoCase) bool) {
		defer func() {
			r.Note("info_predicate_calls", nPredCalls)
			r.Note("info_true_positives", nTruePos)
			r.Note("info_true_negatives", nTrueNeg)
			r.Note("info_false_positives(allowed)", nFalsePos)
		}()
		for _, cr := range creations {
			for _, offs := range sets {
				cand := make([]int64, 0, len(offs))
				for _, o := range offs {
					cand = append(cand, cr-o)
				}
				cand = uniqSorted(cand)
				grid := append([]int64{}, cand...)
				for _, x := range cand {
					grid = append(grid, x-1, x+1)
				}
				grid = append(grid, 0, 1, cr-day-minute-1, cr-day+minute, cr+minute, math.MaxInt64)
				grid = uniqSorted(grid)
				for set := uint32(1); set < 1<<len(cand); set++ {
					for _, sys := range []bool{false, true} {
						if !yield(InfoCase{Creation: cr, Cand: cand, Grid: grid, Set: set, WithSys: sys}) {
							return
						}
					}
				}
			}
		}
	}, runInfo)
}

func TestReplayInfo(t *testing.T) { evid.Replay(t, runInfo) }
