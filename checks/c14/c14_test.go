// C14, part B: time-range pruning on real fractions never hides a document.
//
// Corpora in 1..4 fractions whose documents lie 0 .. 400 days before and up to a day after "now"
// (the fraction creation time is time.Now() inside seq-db, so the case stores OFFSETS from now; runCase
// reads the clock once, derives every absolute timestamp from it and evaluates the model on the same
// values).  Queries are `*`, single tokens, negations and small trees, with [from,to] ends placed on / next
// to document timestamps, minute-bucket borders of the occupancy map, fraction borders and the ends of
// the map.  Search (IDs, total) and Fetch (every stored ID) are compared with the model evaluated over ALL
// documents of ALL fractions: with the last fraction active, after sealing, after a restart that reads
// `.frac-cache`, and after a restart without it (info block of the index file).
package c14

import (
	"fmt"
	"math"
	"os"
	"path/filepath"
	"sort"
	"testing"
	"time"

	"github.com/ozontech/seq-db/consts"
	"github.com/ozontech/seq-db/frac"
	"github.com/ozontech/seq-db/seq"
	"pgregory.net/rapid"

	"verif/internal/evid"
	"verif/internal/gen"
	"verif/internal/harness"
	"verif/internal/model"
)

type Doc struct {
	Off  int64       `json:"off"` // milliseconds before "now" (negative: after)
	RID  uint64      `json:"rid"`
	Toks []model.Tok `json:"toks"`
}

// Fill is a compact run of N documents at Off, Off-Step, Off-2*Step, … (crosses the 4096-ID block
// size of a sealed fraction, which the LID-border search short-cuts by block minima).
type Fill struct {
	N    int   `json:"n"`
	Off  int64 `json:"off"`
	Step int64 `json:"step"`
}

type Frac struct {
	Docs []Doc `json:"docs"`
	Fill *Fill `json:"fill,omitempty"`
}

// End is one end of a query interval, placed relative to what the fraction really looks like.
type End struct {
	// doc: timestamp of document Doc of fraction Frac; bucket: lower (or upper) border of the minute
	// bucket of the occupancy map of fraction Frac that holds that document; fracfrom/fracto: oldest/newest
	// timestamp of the fraction; distfrom/distto: ends of its occupancy map; now: now-Off; abs: Abs
	Kind  string `json:"kind"`
	Frac  int    `json:"frac,omitempty"`
	Doc   int    `json:"doc,omitempty"`
	Upper bool   `json:"upper,omitempty"`
	Delta int64  `json:"delta,omitempty"`
	Off   int64  `json:"off,omitempty"`
	Abs   uint64 `json:"abs,omitempty"`
}

type Query struct {
	Q         *model.Q          `json:"q"`
	Style     model.RenderStyle `json:"style"`
	A, B      End
	Asc       bool   `json:"asc,omitempty"`
	Limit     int    `json:"limit"`
	WithTotal bool   `json:"with_total,omitempty"`
	Interval  uint64 `json:"interval,omitempty"` // histogram bucket, ms (0 = no histogram)
}

type Case struct {
	Fracs        []Frac            `json:"fracs"`
	LastActive   bool              `json:"last_active,omitempty"`   // first phase runs with the newest fraction still active
	ReplayActive bool              `json:"replay_active,omitempty"` // … and once more after a restart that replays it
	Queries      []Query           `json:"queries"`
	Opts         harness.StoreOpts `json:"opts"`
	// Resend: every fraction (of at most 2000 documents) arrives in two bulks: the older half
	// first, then one document of it again together with the newer half, newest first - a client
	// retry mixed with new documents.  The fraction's time borders must cover the late arrivals.
	Resend bool `json:"resend,omitempty"`
}

const (
	tenMin = 10 * minute
)

var lvls = []string{"info", "warn", "error", "debug"}

func genAnchor(t *rapid.T) int64 {
	switch rapid.IntRange(0, 9).Draw(t, "anchorclass") {
	case 0, 1: // recent: no occupancy map if everything is recent
		return rapid.Int64Range(0, tenMin-1).Draw(t, "recent")
	case 2: // around the 10 min threshold
		return tenMin + rapid.Int64Range(-2000, 2000).Draw(t, "thr")
	case 3, 4, 5: // 10 min .. 24 h: the map starts at the oldest document
		return rapid.Int64Range(tenMin, day).Draw(t, "mid")
	case 6: // around the 24 h cap
		return day + rapid.Int64Range(-2*minute, 2*minute).Draw(t, "cap")
	case 7, 8: // far past: underflow bucket
		return rapid.Int64Range(day, 400*day).Draw(t, "far")
	default: // after creation: overflow bucket
		return -rapid.Int64Range(0, day).Draw(t, "future")
	}
}

func genDelta(t *rapid.T) int64 {
	switch rapid.IntRange(0, 9).Draw(t, "deltaclass") {
	case 0, 1:
		return 0
	case 2:
		return rapid.Int64Range(-1, 1).Draw(t, "d1")
	case 3:
		return rapid.SampledFrom([]int64{59_999, 60_000, 60_001, -59_999, -60_000, -60_001}).Draw(t, "dmin")
	case 4, 5:
		return rapid.Int64Range(-5*minute, 5*minute).Draw(t, "d5m")
	case 6:
		return rapid.Int64Range(-3*hour, 3*hour).Draw(t, "d3h")
	default:
		return rapid.Int64Range(-2000, 2000).Draw(t, "d2s")
	}
}

func clampOff(o int64) int64 {
	if o > 400*day {
		return 400 * day
	}
	if o < -day {
		return -day
	}
	return o
}

func genEnd(t *rapid.T, c *Case, label string) End {
	f := rapid.IntRange(0, len(c.Fracs)-1).Draw(t, label+"frac")
	n := c.Fracs[f].size()
	d := rapid.IntRange(0, n-1).Draw(t, label+"doc")
	delta := int64(rapid.IntRange(0, 4).Draw(t, label+"delta")) // 0,1,2 -> 0 ; 3 -> -1 ; 4 -> +1
	switch delta {
	case 3:
		delta = -1
	case 4:
		delta = 1
	default:
		delta = 0
	}
	switch rapid.IntRange(0, 11).Draw(t, label+"kind") {
	case 0, 1, 2:
		return End{Kind: "doc", Frac: f, Doc: d, Delta: delta}
	case 3, 4, 5:
		return End{Kind: "bucket", Frac: f, Doc: d, Upper: rapid.Bool().Draw(t, label+"upper"), Delta: delta}
	case 6:
		return End{Kind: "fracfrom", Frac: f, Delta: delta}
	case 7:
		return End{Kind: "fracto", Frac: f, Delta: delta}
	case 8:
		return End{Kind: "distfrom", Frac: f, Delta: delta}
	case 9:
		return End{Kind: "distto", Frac: f, Delta: delta}
	case 10:
		return End{Kind: "now", Off: clampOff(genAnchor(t) + genDelta(t))}
	default:
		return End{Kind: "abs", Abs: rapid.SampledFrom([]uint64{0, 1, gen.BaseMID, math.MaxInt64}).Draw(t, label+"abs")}
	}
}

func (f *Frac) size() int {
	n := len(f.Docs)
	if f.Fill != nil {
		n += f.Fill.N
	}
	return n
}

func genCase(t *rapid.T) Case {
	var c Case
	nf := rapid.IntRange(1, 4).Draw(t, "nfracs")
	big := rapid.IntRange(0, 39).Draw(t, "big") == 39
	seen := map[[2]int64]bool{}
	for f := 0; f < nf; f++ {
		var fr Frac
		na := rapid.IntRange(1, 4).Draw(t, "nanchors")
		anchors := make([]int64, na)
		for i := range anchors {
			anchors[i] = genAnchor(t)
		}
		nd := rapid.IntRange(1, 12).Draw(t, "ndocs")
		for i := 0; i < nd; i++ {
			d := Doc{
				Off: clampOff(anchors[rapid.IntRange(0, na-1).Draw(t, "anchor")] + genDelta(t)),
				RID: rapid.Uint64Range(1, 6).Draw(t, "rid"),
			}
			if rapid.IntRange(0, 7).Draw(t, "ridmax") == 7 {
				d.RID = math.MaxUint64 - rapid.Uint64Range(0, 1).Draw(t, "ridhi")
			}
			for seen[[2]int64{d.Off, int64(d.RID)}] { // pairwise distinct IDs by construction
				d.RID--
			}
			seen[[2]int64{d.Off, int64(d.RID)}] = true
			d.Toks = gen.DocTokens(t)
			fr.Docs = append(fr.Docs, d)
		}
		if big && f == 0 {
			// 1 in 4 of the big cases: more postings in one field than one on-disk LID block holds
			// (65536), so that a token's postings straddle LID blocks and the time-range narrowing of
			// the LID cursors has to step over a whole block
			huge := rapid.IntRange(0, 3).Draw(t, "huge") == 3
			fr.Fill = &Fill{
				N:    rapid.IntRange(4097, 9000).Draw(t, "filln"),
				Off:  clampOff(anchors[0]),
				Step: rapid.SampledFrom([]int64{1, 0, 7, 1000, 15_000, 60_000}).Draw(t, "fillstep"),
			}
			if huge {
				fr.Fill.N = rapid.IntRange(65_600, 71_000).Draw(t, "hugen")
				fr.Fill.Step = rapid.SampledFrom([]int64{1, 0, 7}).Draw(t, "hugestep")
			}
			if fr.Fill.Off-int64(fr.Fill.N)*fr.Fill.Step < -day {
				fr.Fill.Off = int64(fr.Fill.N)*fr.Fill.Step - day
			}
		}
		c.Fracs = append(c.Fracs, fr)
	}
	c.LastActive = rapid.IntRange(0, 2).Draw(t, "lastactive") != 0
	c.Resend = rapid.IntRange(0, 3).Draw(t, "resend") == 3
	if c.LastActive {
		c.ReplayActive = rapid.IntRange(0, 3).Draw(t, "replayactive") == 3
	}
	c.Opts.FracsPerIter = rapid.SampledFrom([]int{0, 0, 1, 2}).Draw(t, "fpi")
	total := 0
	for i := range c.Fracs {
		total += c.Fracs[i].size()
	}
	nq := rapid.IntRange(1, 8).Draw(t, "nq")
	for i := 0; i < nq; i++ {
		var q Query
		switch rapid.IntRange(0, 7).Draw(t, "qkind") {
		case 0, 1, 2:
			q.Q = model.All()
		case 3, 4:
			q.Q = model.Lit("lvl", model.Exact(lvls[rapid.IntRange(0, len(lvls)-1).Draw(t, "lvl")]))
		case 5:
			q.Q = model.Not(model.Lit("lvl", model.Exact(lvls[rapid.IntRange(0, len(lvls)-1).Draw(t, "lvl")])))
		case 6:
			q.Q = model.Lit("_exists_", model.Exact(gen.AllFields[rapid.IntRange(0, len(gen.AllFields)-1).Draw(t, "exf")]))
		default:
			q.Q = gen.Query(t, 3)
		}
		q.Style = gen.Style(t)
		q.A, q.B = genEnd(t, &c, "a"), genEnd(t, &c, "b")
		q.Asc = rapid.Bool().Draw(t, "asc")
		switch rapid.IntRange(0, 5).Draw(t, "limkind") {
		case 0, 1, 2:
			q.Limit = total + 5
		case 3:
			q.Limit = rapid.IntRange(1, 5).Draw(t, "limit")
		case 4:
			q.Limit = 0
		default:
			q.Limit = rapid.IntRange(0, total).Draw(t, "limit")
		}
		q.WithTotal = rapid.IntRange(0, 3).Draw(t, "withtotal") != 0
		if rapid.IntRange(0, 3).Draw(t, "hist") == 3 {
			q.Interval = rapid.SampledFrom([]uint64{60_000, 1000, 3_600_000, 1}).Draw(t, "interval")
		}
		c.Queries = append(c.Queries, q)
	}
	return c
}

// ---------------------------------------------------------------- run

type fracState struct {
	docs     []model.Doc
	min, max uint64
	info     *frac.Info    // current (per phase)
	f        frac.Fraction // current (per phase)
}

func (c *Case) materialise(now int64) ([]*fracState, model.Corpus) {
	var all model.Corpus
	var out []*fracState
	n := 0
	for fi := range c.Fracs {
		fr := &c.Fracs[fi]
		fs := &fracState{min: math.MaxUint64}
		add := func(off int64, rid uint64, toks []model.Tok) {
			n++
			d := model.Doc{ID: model.ID{MID: uint64(now - off), RID: rid}, Body: []byte(fmt.Sprintf(`{"i":%d}`, n)), Toks: toks}
			fs.docs = append(fs.docs, d)
			fs.min = min(fs.min, d.ID.MID)
			fs.max = max(fs.max, d.ID.MID)
		}
		for _, d := range fr.Docs {
			add(d.Off, d.RID, d.Toks)
		}
		if fr.Fill != nil {
			for i := 0; i < fr.Fill.N; i++ {
				add(fr.Fill.Off-int64(i)*fr.Fill.Step, 1<<32+uint64(i), []model.Tok{{F: "_all_", V: ""}, {F: "_exists_", V: "lvl"}, {F: "lvl", V: lvls[i%3]}})
			}
		}
		out = append(out, fs)
		all = append(all, fs.docs...)
	}
	return out, all
}

func seqMID(v uint64) seq.MID { return seq.MID(v) }

func clampMID(v int64, delta int64) uint64 {
	if delta > 0 && v > math.MaxInt64-delta {
		return math.MaxInt64
	}
	v += delta
	if v < 0 {
		return 0
	}
	return uint64(v)
}

// distRange: the occupancy map's [from,to] as the sealer chooses it for this fraction (whether or not it
// decided to build one), from the creation time seq-db reports.
func distRange(fs *fracState) (int64, int64) {
	to := int64(fs.info.CreationTime)
	from := int64(fs.info.From)
	if to-from > day {
		from = to - day
	}
	return from, to
}

func resolve(e End, fracs []*fracState, now int64) uint64 {
	var fs *fracState
	if len(fracs) > 0 {
		fs = fracs[e.Frac%len(fracs)]
	}
	switch e.Kind {
	case "doc":
		return clampMID(int64(fs.docs[e.Doc%len(fs.docs)].ID.MID), e.Delta)
	case "bucket":
		m := int64(fs.docs[e.Doc%len(fs.docs)].ID.MID)
		from, to := distRange(fs)
		var b int64
		switch {
		case m < from:
			b = from
		case m > to:
			b = to
		default:
			b = from + (m-from)/minute*minute
			if e.Upper {
				b += minute
			}
		}
		return clampMID(b, e.Delta)
	case "fracfrom":
		return clampMID(int64(fs.min), e.Delta)
	case "fracto":
		return clampMID(int64(fs.max), e.Delta)
	case "distfrom":
		from, _ := distRange(fs)
		return clampMID(from, e.Delta)
	case "distto":
		_, to := distRange(fs)
		return clampMID(to, e.Delta)
	case "now":
		return clampMID(now-e.Off, 0)
	case "abs":
		if e.Abs > math.MaxInt64 {
			return math.MaxInt64
		}
		return e.Abs
	}
	panic("unknown end kind " + e.Kind)
}

// bind attaches the store's current fraction objects to the case's fractions (by borders and size; the
// order of creation is kept by the store, equal candidates are interchangeable for what is read here).
func bind(st *harness.Store, fracs []*fracState) error {
	list := st.FM.GetAllFracs()
	used := make([]bool, len(list))
	for i, fs := range fracs {
		fs.f, fs.info = nil, nil
		for j, f := range list {
			if used[j] {
				continue
			}
			in := f.Info()
			if in.DocsTotal == uint32(len(fs.docs)) && uint64(in.From) == fs.min && uint64(in.To) == fs.max {
				used[j], fs.f, fs.info = true, f, in
				break
			}
		}
		if fs.f == nil {
			var have []string
			for _, f := range list {
				in := f.Info()
				have = append(have, fmt.Sprintf("{%s docs=%d from=%d to=%d}", in.Name(), in.DocsTotal, in.From, in.To))
			}
			return evid.Failf("frac-info-borders", "fraction %d (docs=%d oldest=%d newest=%d) has no counterpart in the store: %v", i, len(fs.docs), fs.min, fs.max, have)
		}
	}
	return nil
}

type runner struct {
	c      *Case
	st     *harness.Store
	fracs  []*fracState
	corpus model.Corpus
	now    int64
	res    *evid.Result
}

func (r *runner) phase(name string) error {
	if err := bind(r.st, r.fracs); err != nil {
		return withCtx(err, " [phase %s]", name)
	}
	label := func(l string) { r.res.Labels = append(r.res.Labels, l) }
	anyDist := false
	for _, fs := range r.fracs {
		if fs.info.Distribution != nil {
			anyDist = true
			if int64(fs.info.CreationTime)-int64(fs.info.From) > day {
				label(name + ":frac-map-capped-24h")
			} else {
				label(name + ":frac-map-from-oldest")
			}
		} else {
			label(name + ":frac-no-map")
		}
	}
	if anyDist {
		label(name + ":case-has-map")
	}
	// every document is "contained" by its fraction (fetch path)
	for fi, fs := range r.fracs {
		for _, d := range fs.docs {
			if !fs.f.Contains(seqMID(d.ID.MID)) {
				return evid.Failf("contains-false-for-stored-doc", "phase %s: fraction %d (%s) holds a document with timestamp %d but Contains says no; info %s", name, fi, fs.info.Name(), d.ID.MID, fs.info.Save())
			}
		}
	}
	for qi := range r.c.Queries {
		q := &r.c.Queries[qi]
		from, to := resolve(q.A, r.fracs, r.now), resolve(q.B, r.fracs, r.now)
		if from > to {
			from, to = to, from
		}
		req := model.SearchReq{Q: q.Q, From: from, To: to, Asc: q.Asc, Limit: q.Limit, WithTotal: q.WithTotal, Interval: q.Interval}
		text := model.RenderSeqQL(q.Q, q.Style)
		// the pruning predicate itself
		nt, pruned := false, false
		for fi, fs := range r.fracs {
			has := false
			for _, d := range fs.docs {
				if from <= d.ID.MID && d.ID.MID <= to {
					has = true
					break
				}
			}
			got := fs.f.IsIntersecting(seqMID(from), seqMID(to))
			if has && !got {
				return evid.Failf("frac-pruned-with-doc-in-range", "phase %s query %d [%d,%d]: fraction %d (%s) holds a document in the interval but IsIntersecting says no; info %s", name, qi, from, to, fi, fs.info.Name(), fs.info.Save())
			}
			overlaps := from <= fs.max && fs.min <= to
			if fs.info.Distribution != nil && overlaps && (from > fs.min || to < fs.max) {
				nt = true
			}
			if overlaps && !got {
				pruned = true
			}
		}
		if nt {
			r.res.NonTrivial = true
			label("q:narrower-than-a-fraction-with-map")
		}
		if pruned {
			label("q:map-pruned-a-fraction-inside-its-borders")
		}
		want := model.Search(r.corpus, &req)
		qpr, err := r.st.Search(&req, text, nil)
		if err != nil {
			return evid.Failf("search-error", "phase %s query %d %q [%d,%d]: %v", name, qi, text, from, to, err)
		}
		got := harness.FromSeqIDs(qpr.IDs)
		if !model.EqualIDs(got, want.IDs) {
			return evid.Failf("ids-differ", "phase %s query %d %q from=%d to=%d asc=%v limit=%d fpi=%d: got %d ids %v want %d ids %v", name, qi, text, from, to, q.Asc, q.Limit, r.c.Opts.FracsPerIter, len(got), head(got), len(want.IDs), head(want.IDs))
		}
		if q.WithTotal && qpr.Total != want.Total {
			return evid.Failf("total-differs", "phase %s query %d %q from=%d to=%d: got %d want %d", name, qi, text, from, to, qpr.Total, want.Total)
		}
		if q.Interval > 0 && !harness.EqualHist(harness.HistOf(qpr), want.Hist) {
			return evid.Failf("hist-differs", "phase %s query %d %q from=%d to=%d interval=%d: got %s want %s", name, qi, text, from, to, q.Interval, harness.FmtHist(harness.HistOf(qpr)), harness.FmtHist(want.Hist))
		}
		r.res.Evals++
		if name == "sealed" {
			if len(want.IDs) == 0 {
				label("q:empty-result")
			} else {
				label("q:nonempty-result")
			}
			label("q:end-" + q.A.Kind + deltaName(q.A.Delta))
			label("q:end-" + q.B.Kind + deltaName(q.B.Delta))
		}
	}
	return r.fetchAll(name)
}

func deltaName(d int64) string {
	switch {
	case d < 0:
		return "-1ms"
	case d > 0:
		return "+1ms"
	}
	return ""
}

func head(ids []model.ID) []model.ID {
	if len(ids) > 12 {
		return ids[:12]
	}
	return ids
}

// fetchAll: every stored ID is found – asked for all at once (the candidate fractions are those
// intersecting [min,max] of the list, then Contains per ID), per fraction, and one by one.
func (r *runner) fetchAll(name string) error {
	check := func(what string, docs []model.Doc) error {
		ids := make([]model.ID, len(docs))
		for i := range docs {
			ids[i] = docs[i].ID
		}
		out, err := r.st.Fetch(harness.ToSeqIDs(ids))
		if err != nil {
			return evid.Failf("fetch-error", "phase %s %s (%d ids): %v", name, what, len(ids), err)
		}
		for i := range docs {
			if !model.EqualBytes(out[i], docs[i].Body) {
				return evid.Failf("fetch-misses-stored-doc", "phase %s %s: id %v (%d ids asked) returned %q, stored %q", name, what, docs[i].ID, len(ids), out[i], docs[i].Body)
			}
		}
		r.res.Evals++
		return nil
	}
	if err := check("all ids", r.corpus); err != nil {
		return err
	}
	for fi, fs := range r.fracs {
		if len(r.fracs) > 1 {
			if err := check(fmt.Sprintf("ids of fraction %d", fi), fs.docs); err != nil {
				return err
			}
		}
		step := 1
		if len(fs.docs) > 24 {
			step = len(fs.docs) / 16
		}
		for i := 0; i < len(fs.docs); i += step {
			if err := check(fmt.Sprintf("single id of fraction %d", fi), fs.docs[i:i+1]); err != nil {
				return err
			}
		}
	}
	return nil
}

func runCase(c Case) (evid.Result, error) {
	res := evid.Result{}
	now := time.Now().UnixMilli() // the only clock read; everything below is relative to it
	dir := evid.ScratchDir("c14")
	st, err := harness.OpenStore(dir, c.Opts)
	if err != nil {
		return res, err
	}
	defer func() { st.Close() }()
	fracs, corpus := c.materialise(now)
	r := &runner{c: &c, st: st, fracs: fracs, corpus: corpus, now: now, res: &res}
	for fi, fs := range fracs {
		if c.Resend && len(fs.docs) >= 2 && len(fs.docs) <= 2000 {
			byTime := append([]model.Doc{}, fs.docs...)
			sort.SliceStable(byTime, func(i, j int) bool { return byTime[i].ID.MID < byTime[j].ID.MID })
			half := len(byTime) / 2
			second := []model.Doc{byTime[0]}
			for i := len(byTime) - 1; i >= half; i-- {
				second = append(second, byTime[i])
			}
			if err := st.Bulk(byTime[:half]); err != nil {
				return res, evid.Failf("bulk-error", "%v", err)
			}
			st.WaitIdle()
			if err := st.Bulk(second); err != nil {
				return res, evid.Failf("bulk-error", "%v", err)
			}
			st.WaitIdle()
			if fi < len(fracs)-1 || !c.LastActive {
				st.Seal()
			}
			res.Labels = append(res.Labels, "bulk-with-a-repeated-document-and-newer-ones")
			continue
		}
		for pos := 0; pos < len(fs.docs); pos += 2000 {
			if err := st.Bulk(fs.docs[pos:min(pos+2000, len(fs.docs))]); err != nil {
				return res, evid.Failf("bulk-error", "%v", err)
			}
		}
		st.WaitIdle()
		if fi < len(fracs)-1 || !c.LastActive {
			st.Seal()
		}
	}
	res.Labels = append(res.Labels, fmt.Sprintf("fracs=%d", len(fracs)), fmt.Sprintf("fpi=%d", c.Opts.FracsPerIter))
	if len(corpus) > 4096 {
		res.Labels = append(res.Labels, "id-block(>4096 docs in a fraction)")
	}
	if len(corpus) > 65536 {
		res.Labels = append(res.Labels, "lid-block(>65536 postings of one field)")
	}
	if c.LastActive {
		if err := r.phase("active"); err != nil {
			return res, err
		}
		if c.ReplayActive {
			if r.st, err = st.Restart(nil); err != nil {
				return res, err
			}
			st = r.st
			if err := r.phase("replayed"); err != nil {
				return res, err
			}
		}
		st.Seal()
	}
	if err := r.phase("sealed"); err != nil {
		return res, err
	}
	// restart reading .frac-cache
	st.FM.VerifMaintenance() // one maintenance pass writes .frac-cache (the harness disables the timer)
	cache := filepath.Join(st.Dir, consts.FracCacheFileSuffix)
	if _, err := os.Stat(cache); err != nil {
		return res, fmt.Errorf("harness: .frac-cache was not written: %w", err)
	}
	if r.st, err = st.Restart(nil); err != nil {
		return res, err
	}
	st = r.st
	if err := r.phase("restart-cache"); err != nil {
		return res, err
	}
	// restart without it: Info comes from the info block of each index file
	st.Stop()
	if err := os.Remove(cache); err != nil {
		return res, fmt.Errorf("harness: %w", err)
	}
	if r.st, err = st.Restart(nil); err != nil {
		return res, err
	}
	st = r.st
	if err := r.phase("restart-nocache"); err != nil {
		return res, err
	}
	return res, nil
}

func TestProp(t *testing.T)   { evid.Check(t, genCase, runCase) }
func TestReplay(t *testing.T) { evid.Replay(t, runCase) }
