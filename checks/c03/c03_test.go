// C03: answers do not depend on fraction form: active = sealed = reloaded = any cache.
// Metamorphic + model: the same request battery against the active fraction, the freshly
// sealed one (preloaded tables), a restarted store (tables loaded from the index file) and
// the restarted store with a tiny, constantly evicting cache; every answer must equal the
// reference model's (hence each other's).
package c03

import (
	"fmt"
	"os"
	"sort"
	"strings"
	"testing"

	"pgregory.net/rapid"

	"github.com/ozontech/seq-db/seq"

	"verif/internal/evid"
	"verif/internal/gen"
	"verif/internal/harness"
	"verif/internal/model"
)

type Req struct {
	R     model.SearchReq   `json:"r"`
	Style model.RenderStyle `json:"style"`
	Aggs  []model.AggSpec   `json:"aggs,omitempty"`
	Fetch []model.ID        `json:"fetch,omitempty"` // a fetch list instead of a search when non-empty
	// Multi: an aggregation grouped by (or over) a field that has several tokens in one document
	// (a text field).  No reference value is claimed for it; its result must be the same in
	// every form of the fraction.  Generated only on request: recorded finding, see
	// known_findings.json ("C03 multi-token-group-by").
	Multi *model.AggSpec `json:"multi,omitempty"`
}

type Case struct {
	// SecondSeal: after the freshly sealed form was checked, a second store in the same process
	// ingests half of the documents and seals; the first form is checked again
	SecondSeal bool              `json:"second_seal,omitempty"`
	Class      string            `json:"class"`
	Corpus     model.Corpus      `json:"corpus,omitempty"`
	Synth      gen.Synth         `json:"synth"`
	Bulk       int               `json:"bulk"` // documents per bulk
	Reqs       []Req             `json:"reqs"`
	Opts       harness.StoreOpts `json:"opts"`
	Tiny       uint64            `json:"tiny_cache"` // cache size of form (d)
}

func (c *Case) docs() model.Corpus {
	return append(append(model.Corpus{}, c.Corpus...), c.Synth.Docs()...)
}

func genCase(t *rapid.T) Case {
	var c Case
	// class weights: the big ones are expensive, so they are rare in quick and forced up in thorough
	classes := []string{"small", "small", "small", "small", "small", "small", "small", "dict-block", "dict-exact", "fat-token", "id-block", "id-exact", "lid-block", "lid-exact"}
	if evid.Thorough() {
		classes = append(classes, "dict-block", "dict-exact", "fat-token", "id-block", "id-exact", "lid-block", "lid-exact")
	}
	c.Class = rapid.SampledFrom(classes).Draw(t, "class")
	per := rapid.SampledFrom([]int{1, 3, 50}).Draw(t, "permid")
	switch c.Class {
	case "small":
		c.Corpus = gen.Corpus(t, gen.CorpusOpts{MaxDocs: 60})
	case "dict-block": // token dictionary of one field larger than one 16 KiB block
		c.Synth = gen.Synth{N: rapid.IntRange(300, 2500).Draw(t, "n"), PerMID: per, UniqLen: rapid.IntRange(20, 120).Draw(t, "ulen"), Dur: true}
	case "dict-exact": // token bytes exactly fill k blocks: N*len = 16384*k
		k := rapid.IntRange(1, 4).Draw(t, "k")
		l := rapid.SampledFrom([]int{16, 32, 64, 128}).Draw(t, "ulen")
		c.Synth = gen.Synth{N: 16384 * k / l, PerMID: per, UniqLen: l}
	case "fat-token": // few tokens of 4..20 KiB vary the dictionary block layout
		c.Synth = gen.Synth{N: rapid.IntRange(3, 40).Draw(t, "n"), PerMID: per, FatN: rapid.IntRange(1, 6).Draw(t, "fatn"), FatLen: rapid.IntRange(4000, 20000).Draw(t, "fatlen"), UniqLen: 12}
	case "id-block": // more than 4096 documents
		c.Synth = gen.Synth{N: rapid.IntRange(4097, 12000).Draw(t, "n"), PerMID: per, Big: rapid.Bool().Draw(t, "big"), Dur: true}
	case "id-exact":
		c.Synth = gen.Synth{N: 4096*rapid.IntRange(1, 2).Draw(t, "k") + rapid.IntRange(-1, 1).Draw(t, "d"), PerMID: per, UniqLen: 10}
	case "lid-block": // one token with more than 65536 postings
		c.Synth = gen.Synth{N: rapid.IntRange(65537, 90000).Draw(t, "n"), PerMID: per, Big: true}
	case "lid-exact": // a token's postings end exactly at (or one off) a LID block end
		c.Synth = gen.Synth{N: 65536*rapid.IntRange(1, 2).Draw(t, "k") + rapid.SampledFrom([]int{0, 0, 0, -1, 1}).Draw(t, "d"), PerMID: per, Big: true}
	}
	if c.Class != "small" && rapid.Bool().Draw(t, "mix") {
		c.Corpus = gen.Corpus(t, gen.CorpusOpts{MaxDocs: 20, MIDSpread: 50})
		// keep ids distinct from the synthetic ones: synthetic RIDs are j*7919+1 >= 1; shift by a large odd offset
		for i := range c.Corpus {
			c.Corpus[i].ID.RID |= 1 << 62
		}
	}
	total := len(c.Corpus) + c.Synth.N
	c.Bulk = rapid.SampledFrom([]int{total, 1000, 97, 5000}).Draw(t, "bulk")
	c.Opts = harness.StoreOpts{
		SkipSortDocs: rapid.Bool().Draw(t, "skipsort"),
		KeepMetaFile: rapid.Bool().Draw(t, "keepmeta"),
		ZstdLevel:    rapid.SampledFrom([]int{0, 1, -5, 9, 3}).Draw(t, "zstd"),
		DocBlockSize: rapid.SampledFrom([]int{0, 128, 4096, 1 << 20}).Draw(t, "docblock"),
	}
	c.Tiny = rapid.SampledFrom([]uint64{8 << 10, 64 << 10, 1 << 20}).Draw(t, "tiny")
	c.SecondSeal = c.Class != "lid-block" && c.Class != "lid-exact" && rapid.IntRange(0, 3).Draw(t, "secondseal") == 3
	docs := c.docs()
	nreq := rapid.IntRange(6, 16).Draw(t, "nreq")
	for i := 0; i < nreq; i++ {
		c.Reqs = append(c.Reqs, genReq(t, &c, docs))
	}
	return c
}

func synthAtom(t *rapid.T, c *Case) *model.Q {
	s := c.Synth
	var opts []*model.Q
	if s.Big {
		opts = append(opts, model.Lit("big", model.Exact("x")), model.Lit("big", model.Pattern{{Wild: true}}))
	}
	if s.UniqLen > 0 && s.N > 0 {
		i := rapid.IntRange(0, s.N-1).Draw(t, "ui")
		tok := s.UniqTok(i)
		cut := rapid.IntRange(1, min(8, len(tok))).Draw(t, "ucut")
		j := rapid.IntRange(0, s.N-1).Draw(t, "uj")
		lo, hi := s.UniqTok(min(i, j)), s.UniqTok(max(i, j))
		opts = append(opts,
			model.Lit("uniq", model.Exact(tok)),
			model.Lit("uniq", model.Pattern{{Text: tok[:cut]}, {Wild: true}}),
			model.Lit("uniq", model.Pattern{{Wild: true}, {Text: tok[len(tok)-cut:]}}),
			&model.Q{Op: "range", Field: "uniq", From: &lo, To: &hi, IncFrom: rapid.Bool().Draw(t, "if"), IncTo: rapid.Bool().Draw(t, "it")},
		)
	}
	if s.FatN > 0 {
		i := rapid.IntRange(0, s.FatN-1).Draw(t, "fi")
		tok := s.FatTok(i)
		opts = append(opts,
			model.Lit("fat", model.Exact(tok)),
			model.Lit("fat", model.Pattern{{Text: tok[:3]}, {Wild: true}}),
			model.Lit("fat", model.Pattern{{Text: "f"}, {Wild: true}, {Text: tok[len(tok)-5:]}}),
		)
	}
	opts = append(opts, model.Lit("svc", model.Exact("ab")), model.Lit("svc", model.Pattern{{Text: "a"}, {Wild: true}}))
	return opts[rapid.IntRange(0, len(opts)-1).Draw(t, "synthatom")]
}

func genReq(t *rapid.T, c *Case, docs model.Corpus) Req {
	var r Req
	if rapid.IntRange(0, 4).Draw(t, "isfetch") == 4 && len(docs) > 0 {
		n := rapid.IntRange(1, 30).Draw(t, "nfetch")
		seen := map[model.ID]bool{}
		for i := 0; i < n; i++ {
			id := docs[rapid.IntRange(0, len(docs)-1).Draw(t, "fi")].ID
			if rapid.IntRange(0, 3).Draw(t, "absent") == 3 {
				id.RID += 3 // absent neighbour (synthetic rids are ≡ 1 mod 7919 apart)
				if _, ok := docs.Index()[id]; ok {
					id.RID += 1 << 40
				}
			}
			if !seen[id] {
				seen[id] = true
				r.Fetch = append(r.Fetch, id)
			}
		}
		return r
	}
	r.R = gen.SearchReq(t, docs, 4)
	if c.Synth.N > 0 && rapid.IntRange(0, 2).Draw(t, "usesynth") > 0 {
		a := synthAtom(t, c)
		switch rapid.IntRange(0, 3).Draw(t, "combine") {
		case 0:
			r.R.Q = a
		case 1:
			r.R.Q = model.And(a, r.R.Q)
		case 2:
			r.R.Q = model.Or(r.R.Q, a)
		default:
			r.R.Q = model.And(r.R.Q, model.Not(a))
		}
	}
	if len(docs) > 1000 {
		// keep the result lists of huge corpora small unless the limit class asks otherwise
		r.R.Limit = min(r.R.Limit, rapid.SampledFrom([]int{10, 100, 5000}).Draw(t, "biglimit"))
	}
	r.Style = gen.Style(t)
	r.Aggs = gen.AggSpecs(t, 2)
	if c.Synth.UniqLen > 0 && rapid.Bool().Draw(t, "groupbyuniq") {
		// a group-by field with thousands of distinct values: its part of the token table spans
		// several blocks, and the sealed fraction turns group TIDs back into values through it
		a := model.AggSpec{Func: rapid.SampledFrom([]string{"count", "unique", "sum", "max"}).Draw(t, "uniqfunc"), GroupBy: "uniq"}
		if a.Func == "sum" || a.Func == "max" {
			a.Field = "dur"
		}
		r.Aggs = append(r.Aggs, a)
	}
	if os.Getenv("C03_INCLUDE_KNOWN") == "multi-token-group-by" && rapid.Bool().Draw(t, "multi") {
		r.Multi = &model.AggSpec{Func: "count", GroupBy: "msg"}
	}
	return r
}

type form struct {
	name string
	st   *harness.Store
}

func runCase(c Case) (evid.Result, error) {
	res := evid.Result{Labels: []string{"class:" + c.Class}}
	docs := c.docs()
	dir := evid.ScratchDir("c03")
	st, err := harness.OpenStore(dir, c.Opts)
	if err != nil {
		return res, err
	}
	defer func() { st.Close() }()
	b := max(1, c.Bulk)
	for pos := 0; pos < len(docs); pos += b {
		if err := st.Bulk(docs[pos:min(len(docs), pos+b)]); err != nil {
			return res, evid.Failf("bulk-error", "%v", err)
		}
	}
	st.WaitIdle()
	if err := battery(&c, docs, st, "active", &res); err != nil {
		return res, err
	}
	st.Seal()
	if err := battery(&c, docs, st, "sealed-preloaded", &res); err != nil {
		return res, err
	}
	if c.SecondSeal && len(docs) > 0 {
		// another fraction is sealed in the same process (the sealing helpers are pooled); the
		// fraction sealed before it must go on answering from what it keeps in memory
		dir2 := evid.ScratchDir("c03b")
		other, err := harness.OpenStore(dir2, c.Opts)
		if err != nil {
			return res, err
		}
		half := docs[:len(docs)/2+1]
		for pos := 0; pos < len(half); pos += b {
			if err := other.Bulk(half[pos:min(len(half), pos+b)]); err != nil {
				other.Close()
				return res, evid.Failf("bulk-error", "%v", err)
			}
		}
		other.WaitIdle()
		other.Seal()
		other.Close()
		_ = os.RemoveAll(dir2)
		res.Labels = append(res.Labels, "another-sealing-in-the-same-process")
		if err := battery(&c, docs, st, "sealed-preloaded, after another fraction was sealed in the process", &res); err != nil {
			return res, err
		}
	}
	// measured, not assumed: does some structure span more than one on-disk block?
	for _, f := range st.FM.GetAllFracs() {
		info := f.Info()
		if info.DocsTotal > 4096 {
			res.Labels = append(res.Labels, "measured:ids>1block")
			res.NonTrivial = true
		}
	}
	if c.Synth.Big && c.Synth.N > 65536 {
		res.Labels = append(res.Labels, "measured:postings>1block")
		res.NonTrivial = true
	}
	if n := len(c.Corpus) + c.Synth.N; n > 0 && n%65536 == 0 {
		res.Labels = append(res.Labels, "measured:postings-of-a-field-end-exactly-at-a-LID-block-end")
		res.NonTrivial = true
	}
	if c.Synth.UniqLen*c.Synth.N > 16384 || c.Synth.FatN*c.Synth.FatLen > 16384 {
		res.Labels = append(res.Labels, "measured:dict>1block")
		res.NonTrivial = true
	}
	if c.Class == "small" && len(docs) > 10 {
		res.NonTrivial = true
	}
	st2, err := st.Restart(nil)
	if err != nil {
		return res, evid.Failf("restart-failed", "%v", err)
	}
	st = st2
	if err := battery(&c, docs, st, "reloaded", &res); err != nil {
		return res, err
	}
	tiny := c.Opts
	tiny.CacheSize = c.Tiny
	st3, err := st.Restart(&tiny)
	if err != nil {
		return res, evid.Failf("restart-failed", "tiny cache: %v", err)
	}
	st = st3
	st.ResetCache()
	if err := battery(&c, docs, st, "reloaded-tiny-cache", &res); err != nil {
		return res, err
	}
	return res, nil
}

// multiSeen: the result of a request's Multi aggregation in the first form that was asked
var multiSeen = map[int]string{}

func aggText(a seq.AggregationResult) string {
	rows := make([]string, 0, len(a.Buckets))
	for _, b := range a.Buckets {
		rows = append(rows, fmt.Sprintf("%q@%d=%v/%d", b.Name, b.MID, b.Value, b.NotExists))
	}
	sort.Strings(rows)
	return fmt.Sprintf("not_exists=%d %v", a.NotExists, rows)
}

func battery(c *Case, docs model.Corpus, st *harness.Store, form string, res *evid.Result) error {
	if form == "active" {
		multiSeen = map[int]string{}
	}
	idx := docs.Index()
	for i := range c.Reqs {
		rq := &c.Reqs[i]
		if len(rq.Fetch) > 0 {
			got, err := st.Fetch(harness.ToSeqIDs(rq.Fetch))
			if err != nil {
				return evid.Failf("fetch-error", "[%s] req %d: %v", form, i, err)
			}
			for j, id := range rq.Fetch {
				var want []byte
				if d, ok := idx[id]; ok {
					want = d.Body
				}
				if !model.EqualBytes(got[j], want) {
					return evid.Failf("fetch-differs", "[%s] req %d id %v: got %.40q want %.40q", form, i, id, got[j], want)
				}
			}
			res.Evals++
			continue
		}
		text := model.RenderSeqQL(rq.R.Q, rq.Style)
		want := model.Search(docs, &rq.R)
		qpr, err := st.Search(&rq.R, text, rq.Aggs)
		if err != nil {
			return evid.Failf("search-error", "[%s] req %d %s: %v", form, i, short(text), err)
		}
		got := harness.FromSeqIDs(qpr.IDs)
		if !model.EqualIDs(got, want.IDs) {
			return evid.Failf("ids-differ", "[%s] req %d %s from=%d to=%d asc=%v limit=%d: got %d ids %v want %d ids %v", form, i, short(text), rq.R.From, rq.R.To, rq.R.Asc, rq.R.Limit, len(got), head(got), len(want.IDs), head(want.IDs))
		}
		if rq.R.WithTotal && qpr.Total != want.Total {
			return evid.Failf("total-differs", "[%s] req %d %s: got %d want %d", form, i, short(text), qpr.Total, want.Total)
		}
		if rq.R.Interval > 0 && !harness.EqualHist(harness.HistOf(qpr), want.Hist) {
			return evid.Failf("hist-differs", "[%s] req %d %s: got %s want %s", form, i, short(text), harness.FmtHist(harness.HistOf(qpr)), harness.FmtHist(want.Hist))
		}
		if rq.Multi != nil {
			mq, err := st.Search(&rq.R, text, []model.AggSpec{*rq.Multi})
			if err != nil {
				return evid.Failf("search-error", "[%s] req %d %s: %v", form, i, short(text), err)
			}
			got := aggText(mq.Aggregate(harness.AggArgs([]model.AggSpec{*rq.Multi}))[0])
			if first, ok := multiSeen[i]; !ok {
				multiSeen[i] = got
			} else if first != got {
				return evid.Failf("agg-depends-on-form:multi-token-group-by", "req %d %s agg %+v: in form %s the answer is %s, in the active fraction it was %s", i, short(text), *rq.Multi, form, got, first)
			}
			res.Labels = append(res.Labels, "multi-token-group-by")
		}
		if len(rq.Aggs) > 0 {
			matching := model.Matching(docs.Dedup(), &rq.R)
			ares := qpr.Aggregate(harness.AggArgs(rq.Aggs))
			for ai, spec := range rq.Aggs {
				w, err := model.Agg(matching, spec)
				if err != nil {
					return fmt.Errorf("model agg: %v", err)
				}
				if err := harness.CompareAgg(ares[ai], w, spec); err != nil {
					return evid.Failf("agg-differs", "[%s] req %d %s agg %+v: %v", form, i, short(text), spec, err)
				}
			}
		}
		res.Evals++
	}
	return nil
}

func short(s string) string {
	if len(s) > 300 {
		return s[:150] + "…" + s[len(s)-100:]
	}
	return s
}

func head(ids []model.ID) []model.ID {
	if len(ids) > 6 {
		return ids[:6]
	}
	return ids
}

func TestProp(t *testing.T)   { evid.Check(t, genCase, runCase) }
func TestReplay(t *testing.T) { evid.Replay(t, runCase) }

var _ = strings.Repeat
