package c03

import (
	"os"
	"strings"
	"testing"

	"verif/internal/evid"
	"verif/internal/harness"
	"verif/internal/model"
)

// TestProbeFatToken is a manual probe (not part of any campaign): one token >= 16 KiB.
func TestProbeFatToken(t *testing.T) {
	if os.Getenv("C03_PROBE") == "" {
		t.Skip()
	}
	dir := evid.ScratchDir("probe")
	defer os.RemoveAll(dir)
	p, err := harness.OpenProc(dir, harness.StoreOpts{}, false)
	if err != nil {
		t.Fatal(err)
	}
	defer p.Kill()
	if _, err := p.Do(harness.PCmd{Op: "rlimit", Bytes: 20 << 20}); err != nil {
		t.Fatal(err)
	}
	doc := model.Doc{ID: model.ID{MID: 1700000000000, RID: 1}, Body: []byte("{}"), Toks: []model.Tok{{F: "_all_", V: ""}, {F: "fat", V: strings.Repeat("f", 17000)}}}
	if _, err := p.Do(harness.PCmd{Op: "bulk", Docs: []model.Doc{doc}, Wait: true}); err != nil {
		t.Fatal(err)
	}
	r, err := p.Do(harness.PCmd{Op: "seal"})
	t.Logf("seal: resp=%+v err=%v exit=%d crash=%v stderr=%s", r, err, p.Exit, p.Crash, p.StderrTail())
	ents, _ := os.ReadDir(dir)
	for _, e := range ents {
		fi, _ := e.Info()
		t.Logf("%s %d", e.Name(), fi.Size())
	}
}
