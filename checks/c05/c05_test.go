// C05: results are independent of how documents are split over fractions, shards and
// replicas.  Metamorphic against the model over the union of all documents.
package c05

import (
	"fmt"
	"sort"
	"testing"

	"pgregory.net/rapid"

	"github.com/ozontech/seq-db/seq"

	"verif/internal/evid"
	"verif/internal/gen"
	"verif/internal/harness"
	"verif/internal/model"
)

type Page struct {
	Offset int `json:"offset"`
	Size   int `json:"size"`
}

type Req struct {
	R     model.SearchReq   `json:"r"`
	Style model.RenderStyle `json:"style"`
	Aggs  []model.AggSpec   `json:"aggs,omitempty"`
	Pages []Page            `json:"pages,omitempty"` // cluster level: consecutive pages
}

type Case struct {
	Level      string       `json:"level"` // fracs | cluster
	Corpus     model.Corpus `json:"corpus"`
	FracOf     []int        `json:"frac_of"` // document -> fraction (per store)
	K          int          `json:"k"`
	LastActive bool         `json:"last_active"`
	FPI        int          `json:"fpi"`
	Shards     int          `json:"shards,omitempty"`
	Replicas   int          `json:"replicas,omitempty"`
	ShardOf    []int        `json:"shard_of,omitempty"`
	DupTo      []int        `json:"dup_to,omitempty"` // mode B: also deliver document i to this shard (-1: no)
	Reqs       []Req        `json:"reqs"`
}

func genCase(t *rapid.T) Case {
	var c Case
	c.Level = rapid.SampledFrom([]string{"fracs", "fracs", "cluster"}).Draw(t, "level")
	c.Corpus = gen.Corpus(t, gen.CorpusOpts{MinDocs: 1, MaxDocs: 50})
	n := len(c.Corpus)
	c.K = rapid.IntRange(1, 6).Draw(t, "k")
	c.LastActive = rapid.Bool().Draw(t, "lastactive")
	c.FPI = rapid.IntRange(1, c.K+1).Draw(t, "fpi")
	sorted := rapid.IntRange(0, 4).Draw(t, "fracmode")
	// rank of every document in ID order (for the interval-structured modes)
	rank := make([]int, n)
	{
		idx := make([]int, n)
		for i := range idx {
			idx[i] = i
		}
		sort.Slice(idx, func(a, b int) bool { return c.Corpus[idx[a]].ID.Less(c.Corpus[idx[b]].ID) })
		for r, i := range idx {
			rank[i] = r
		}
	}
	wide := rapid.IntRange(0, c.K-1).Draw(t, "wide")
	for i := 0; i < n; i++ {
		switch sorted {
		case 3: // time-sliced fractions (ranges barely overlap)
			c.FracOf = append(c.FracOf, int(c.Corpus[i].ID.MID%uint64(c.K)))
		case 2, 4: // contiguous runs of the ID order: disjoint, narrow ranges ...
			f := rank[i] * c.K / n
			// ... plus (mode 4) one wide fraction that takes documents from everywhere, so that
			// it contains the ranges of the narrow ones
			if sorted == 4 && rapid.IntRange(0, 3).Draw(t, "towide") == 3 {
				f = wide
			}
			c.FracOf = append(c.FracOf, f)
		default: // arbitrary assignment: arbitrarily overlapping ranges
			c.FracOf = append(c.FracOf, rapid.IntRange(0, c.K-1).Draw(t, "frac"))
		}
	}
	if c.Level == "cluster" {
		c.Shards = rapid.IntRange(1, 3).Draw(t, "shards")
		c.Replicas = rapid.IntRange(1, 2).Draw(t, "replicas")
		c.K = min(c.K, 2)
		modeB := rapid.IntRange(0, 3).Draw(t, "modeb") >= 2
		for i := 0; i < n; i++ {
			c.FracOf[i] %= c.K
			c.ShardOf = append(c.ShardOf, rapid.IntRange(0, c.Shards-1).Draw(t, "shard"))
			d := -1
			if modeB && c.Shards > 1 && rapid.IntRange(0, 2).Draw(t, "dup") == 2 {
				d = rapid.IntRange(0, c.Shards-1).Draw(t, "dupto")
				if d == c.ShardOf[i] {
					d = (d + 1) % c.Shards
				}
			}
			c.DupTo = append(c.DupTo, d)
		}
	}
	nreq := rapid.IntRange(1, 5).Draw(t, "nreq")
	for i := 0; i < nreq; i++ {
		r := Req{R: gen.SearchReq(t, c.Corpus, 4), Style: gen.Style(t), Aggs: gen.AggSpecs(t, 2)}
		if rapid.IntRange(0, 2).Draw(t, "earlystop") == 2 {
			// the early-termination rule only runs without total/histogram/aggregations
			r.R.WithTotal, r.R.Interval, r.Aggs = false, 0, nil
			r.R.Limit = rapid.IntRange(1, 4).Draw(t, "smalllimit")
			if rapid.Bool().Draw(t, "all") {
				r.R.Q = model.All()
			}
		}
		if c.Level == "cluster" {
			np := rapid.IntRange(1, 4).Draw(t, "npages")
			off := rapid.IntRange(0, 3).Draw(t, "off0")
			for p := 0; p < np; p++ {
				sz := rapid.IntRange(0, 8).Draw(t, "size")
				r.Pages = append(r.Pages, Page{Offset: off, Size: sz})
				off += sz
			}
		}
		c.Reqs = append(c.Reqs, r)
	}
	return c
}

func hasDup(c *Case) bool {
	for _, d := range c.DupTo {
		if d >= 0 {
			return true
		}
	}
	return false
}

func loadStore(st *harness.Store, docs model.Corpus, fracOf []int, k int, lastActive bool) error {
	for f := 0; f < k; f++ {
		var part model.Corpus
		for i, d := range docs {
			if fracOf[i] == f {
				part = append(part, d)
			}
		}
		if len(part) == 0 {
			continue
		}
		if err := st.Bulk(part); err != nil {
			return err
		}
		st.WaitIdle()
		if !(f == k-1 && lastActive) {
			st.Seal()
		}
	}
	return nil
}

func runCase(c Case) (evid.Result, error) {
	if c.Level == "cluster" {
		return runCluster(c)
	}
	res := evid.Result{Labels: []string{"level:fracs"}}
	dir := evid.ScratchDir("c05")
	st, err := harness.OpenStore(dir, harness.StoreOpts{FracsPerIter: c.FPI})
	if err != nil {
		return res, err
	}
	defer st.Close()
	if err := loadStore(st, c.Corpus, c.FracOf, c.K, c.LastActive); err != nil {
		return res, evid.Failf("bulk-error", "%v", err)
	}
	nfr := 0
	type rng struct{ lo, hi uint64 }
	var ranges []rng
	for _, f := range st.FM.GetAllFracs() {
		if info := f.Info(); info.DocsTotal > 0 {
			nfr++
			ranges = append(ranges, rng{uint64(info.From), uint64(info.To)})
		}
	}
	overlap := false
	for i := range ranges {
		for j := i + 1; j < len(ranges); j++ {
			if ranges[i].lo <= ranges[j].hi && ranges[j].lo <= ranges[i].hi {
				overlap = true
			}
		}
	}
	for i := range c.Reqs {
		rq := &c.Reqs[i]
		text := model.RenderSeqQL(rq.R.Q, rq.Style)
		want := model.Search(c.Corpus, &rq.R)
		qpr, err := st.Search(&rq.R, text, rq.Aggs)
		if err != nil {
			return res, evid.Failf("search-error", "req %d %q: %v", i, text, err)
		}
		got := harness.FromSeqIDs(qpr.IDs)
		if !model.EqualIDs(got, want.IDs) {
			return res, evid.Failf("ids-differ", "req %d %q fpi=%d k=%d from=%d to=%d asc=%v limit=%d: got %v want %v", i, text, c.FPI, c.K, rq.R.From, rq.R.To, rq.R.Asc, rq.R.Limit, got, want.IDs)
		}
		if rq.R.WithTotal && qpr.Total != want.Total {
			return res, evid.Failf("total-differs", "req %d %q: got %d want %d", i, text, qpr.Total, want.Total)
		}
		if rq.R.Interval > 0 && !harness.EqualHist(harness.HistOf(qpr), want.Hist) {
			return res, evid.Failf("hist-differs", "req %d %q: got %s want %s", i, text, harness.FmtHist(harness.HistOf(qpr)), harness.FmtHist(want.Hist))
		}
		if err := checkAggs(qpr.Aggregate(harness.AggArgs(rq.Aggs)), c.Corpus, rq); err != nil {
			return res, evid.Failf("agg-differs", "req %d %q: %v", i, text, err)
		}
		res.Evals++
		all := len(model.Matching(c.Corpus, &rq.R))
		if nfr >= 2 && overlap && rq.R.Limit > 0 && rq.R.Limit < all {
			res.NonTrivial = true
			res.Labels = append(res.Labels, "limit-cuts-overlapping-fracs")
		}
	}
	if nfr >= 2 {
		res.Labels = append(res.Labels, "fracs>=2")
	}
	if c.FPI < nfr {
		res.Labels = append(res.Labels, "several-iterations")
	}
	return res, nil
}

func checkAggs(got []seq.AggregationResult, corpus model.Corpus, rq *Req) error {
	if len(rq.Aggs) == 0 {
		return nil
	}
	matching := model.Matching(corpus.Dedup(), &rq.R)
	for ai, spec := range rq.Aggs {
		w, err := model.Agg(matching, spec)
		if err != nil {
			return fmt.Errorf("model: %v", err)
		}
		if err := harness.CompareAgg(got[ai], w, spec); err != nil {
			return fmt.Errorf("agg %+v: %v", spec, err)
		}
	}
	return nil
}

func runCluster(c Case) (evid.Result, error) {
	res := evid.Result{Labels: []string{"level:cluster"}}
	dir := evid.ScratchDir("c05c")
	cl, err := harness.NewCluster(dir, c.Shards, c.Replicas, harness.StoreOpts{FracsPerIter: c.FPI}, nil, true)
	if err != nil {
		return res, err
	}
	defer cl.Close()
	dup := hasDup(&c)
	for s := 0; s < c.Shards; s++ {
		var docs model.Corpus
		var fr []int
		for i, d := range c.Corpus {
			if c.ShardOf[i] == s || (len(c.DupTo) > 0 && c.DupTo[i] == s) {
				docs = append(docs, d)
				fr = append(fr, c.FracOf[i])
			}
		}
		for r := 0; r < c.Replicas; r++ {
			if err := loadStore(cl.Stores[s][r].Store, docs, fr, c.K, c.LastActive); err != nil {
				return res, evid.Failf("bulk-error", "%v", err)
			}
		}
	}
	if dup {
		res.Labels = append(res.Labels, "duplicates-across-shards")
	}
	for i := range c.Reqs {
		rq := &c.Reqs[i]
		text := model.RenderSeqQL(rq.R.Q, rq.Style)
		full := rq.R
		full.Limit = 1 << 30
		want := model.Search(c.Corpus, &full)
		var walked []model.ID
		for pi, pg := range rq.Pages {
			qpr, _, err := cl.ProxySearch(text, &rq.R, pg.Offset, pg.Size, rq.Aggs, false)
			if err != nil {
				return res, evid.Failf("proxy-search-error", "req %d %q page %+v: %v", i, text, pg, err)
			}
			lo, hi := min(pg.Offset, len(want.IDs)), min(pg.Offset+pg.Size, len(want.IDs))
			got := harness.FromSeqIDs(qpr.IDs)
			if !model.EqualIDs(got, want.IDs[lo:hi]) {
				return res, evid.Failf("page-differs", "req %d %q shards=%d replicas=%d page %d %+v asc=%v: got %v want %v", i, text, c.Shards, c.Replicas, pi, pg, rq.R.Asc, got, want.IDs[lo:hi])
			}
			walked = append(walked, got...)
			if !dup {
				if rq.R.WithTotal && qpr.Total != want.Total {
					return res, evid.Failf("total-differs", "req %d %q: got %d want %d", i, text, qpr.Total, want.Total)
				}
				if rq.R.Interval > 0 && !harness.EqualHist(harness.HistOf(qpr), want.Hist) {
					return res, evid.Failf("hist-differs", "req %d %q: got %s want %s", i, text, harness.FmtHist(harness.HistOf(qpr)), harness.FmtHist(want.Hist))
				}
				if err := checkAggs(qpr.Aggregate(harness.AggArgs(rq.Aggs)), c.Corpus, rq); err != nil {
					return res, evid.Failf("agg-differs", "req %d %q: %v", i, text, err)
				}
			}
			res.Evals++
		}
		// consecutive pages walk the single ordered list without gaps or repeats
		seen := map[model.ID]bool{}
		for _, id := range walked {
			if seen[id] {
				return res, evid.Failf("page-repeat", "req %d %q: %v listed twice across pages", i, text, id)
			}
			seen[id] = true
		}
		if c.Shards >= 2 && len(want.IDs) > 0 {
			res.NonTrivial = true
		}
	}
	res.Labels = append(res.Labels, fmt.Sprintf("shards=%d", c.Shards), fmt.Sprintf("replicas=%d", c.Replicas))
	return res, nil
}

func TestProp(t *testing.T)   { evid.Check(t, genCase, runCase) }
func TestReplay(t *testing.T) { evid.Replay(t, runCase) }
