package c01

import (
	"errors"
	"fmt"
	"sort"
	"sync"
	"sync/atomic"
	"testing"
	"time"

	"pgregory.net/rapid"

	"github.com/ozontech/seq-db/frac"
	"github.com/ozontech/seq-db/metric/stopwatch"

	"verif/internal/evid"
)

// The one place where "acknowledge only after fsync" is observable without a
// fault-injecting file system: frac.FileWriter takes its file as an interface.  N writers
// call Write concurrently on a fake disk that records WriteAt/Sync begin/end on a logical
// clock and fails scripted calls.  Invariant: a Write that returned nil is covered by a
// Sync that began after its WriteAt had completed, returned nil and ended before the
// Write returned; written regions tile the file without gaps or overlaps.

type FWCase struct {
	Writers   [][]int `json:"writers"`    // per writer: sizes of its consecutive writes
	FailWrite []int   `json:"fail_write"` // ordinals (1-based) of WriteAt calls that fail
	FailSync  []int   `json:"fail_sync"`  // ordinals of Sync calls that fail
	SyncUs    int     `json:"sync_us"`    // duration of a Sync (lets writers pile up behind it)
	Offset    int64   `json:"offset"`
}

func genFW(t *rapid.T) FWCase {
	var c FWCase
	nw := rapid.IntRange(1, 8).Draw(t, "writers")
	total := 0
	for w := 0; w < nw; w++ {
		n := rapid.IntRange(1, 12).Draw(t, "nwrites")
		var sizes []int
		for i := 0; i < n; i++ {
			sizes = append(sizes, rapid.IntRange(1, 64).Draw(t, "size"))
			total++
		}
		c.Writers = append(c.Writers, sizes)
	}
	for i := rapid.IntRange(0, 2).Draw(t, "nfw"); i > 0; i-- {
		c.FailWrite = append(c.FailWrite, rapid.IntRange(1, total).Draw(t, "fw"))
	}
	for i := rapid.IntRange(0, 2).Draw(t, "nfs"); i > 0; i-- {
		c.FailSync = append(c.FailSync, rapid.IntRange(1, total).Draw(t, "fs"))
	}
	c.SyncUs = rapid.SampledFrom([]int{0, 20, 200}).Draw(t, "syncus")
	c.Offset = int64(rapid.SampledFrom([]int{0, 7, 4096}).Draw(t, "offset"))
	return c
}

type wEv struct {
	off  int64
	n    int
	end  int64
	fail bool
}
type sEv struct {
	begin, end int64
	fail       bool
}

type fakeDisk struct {
	clock     atomic.Int64
	mu        sync.Mutex
	nW, nS    int
	writes    []wEv
	syncs     []sEv
	failWrite map[int]bool
	failSync  map[int]bool
	syncDur   time.Duration
}

var errDisk = errors.New("injected disk error")

func (d *fakeDisk) WriteAt(p []byte, off int64) (int, error) {
	d.mu.Lock()
	d.nW++
	fail := d.failWrite[d.nW]
	d.mu.Unlock()
	end := d.clock.Add(1)
	d.mu.Lock()
	d.writes = append(d.writes, wEv{off: off, n: len(p), end: end, fail: fail})
	d.mu.Unlock()
	if fail {
		return 0, errDisk
	}
	return len(p), nil
}

func (d *fakeDisk) Sync() error {
	begin := d.clock.Add(1)
	d.mu.Lock()
	d.nS++
	fail := d.failSync[d.nS]
	d.mu.Unlock()
	if d.syncDur > 0 {
		time.Sleep(d.syncDur)
	}
	end := d.clock.Add(1)
	d.mu.Lock()
	d.syncs = append(d.syncs, sEv{begin: begin, end: end, fail: fail})
	d.mu.Unlock()
	if fail {
		return errDisk
	}
	return nil
}

type wRes struct {
	off  int64
	n    int
	err  error
	done int64
}

func runFW(c FWCase) (evid.Result, error) {
	res := evid.Result{}
	d := &fakeDisk{failWrite: map[int]bool{}, failSync: map[int]bool{}, syncDur: time.Duration(c.SyncUs) * time.Microsecond}
	for _, k := range c.FailWrite {
		d.failWrite[k] = true
	}
	for _, k := range c.FailSync {
		d.failSync[k] = true
	}
	fw := frac.NewFileWriter(d, c.Offset, false)
	var mu sync.Mutex
	var results []wRes
	var wg sync.WaitGroup
	finished := make(chan struct{})
	for w := range c.Writers {
		wg.Add(1)
		go func() {
			defer wg.Done()
			sw := stopwatch.New()
			for _, n := range c.Writers[w] {
				off, err := fw.Write(make([]byte, n), sw)
				done := d.clock.Add(1)
				mu.Lock()
				results = append(results, wRes{off: off, n: n, err: err, done: done})
				mu.Unlock()
			}
		}()
	}
	go func() { wg.Wait(); close(finished) }()
	select {
	case <-finished:
	case <-time.After(20 * time.Second):
		return res, evid.Failf("filewriter-hang", "writers still blocked in FileWriter.Write after 20 s")
	}
	fw.Stop()
	// regions tile the file
	ws := append([]wEv{}, d.writes...)
	sort.Slice(ws, func(i, j int) bool { return ws[i].off < ws[j].off })
	pos := c.Offset
	for _, w := range ws {
		if w.off != pos {
			return res, evid.Failf("filewriter-offsets", "write at offset %d, expected %d (gap or overlap)", w.off, pos)
		}
		pos += int64(w.n)
	}
	byOff := map[int64]wEv{}
	for _, w := range d.writes {
		byOff[w.off] = w
	}
	acked := 0
	for _, r := range results {
		if r.err != nil {
			continue
		}
		acked++
		w, ok := byOff[r.off]
		if !ok || w.n != r.n {
			return res, evid.Failf("filewriter-ack-without-write", "Write returned offset %d len %d but no such WriteAt happened", r.off, r.n)
		}
		if w.fail {
			return res, evid.Failf("filewriter-ack-after-failed-write", "Write at %d returned nil although WriteAt failed", r.off)
		}
		covered := false
		for _, s := range d.syncs {
			if !s.fail && s.begin > w.end && s.end < r.done {
				covered = true
				break
			}
		}
		if !covered {
			return res, evid.Failf("filewriter-ack-without-sync", "Write at %d (WriteAt completed at tick %d, returned at tick %d) is not covered by a successful Sync that began after the write and ended before the return; syncs: %s", r.off, w.end, r.done, fmtSyncs(d.syncs))
		}
		res.Evals++
	}
	res.NonTrivial = len(c.Writers) >= 2 && len(d.syncs) < len(d.writes) && acked > 0 // some syncs were shared
	if len(c.FailSync) > 0 {
		res.Labels = append(res.Labels, "sync-fails")
	}
	if len(c.FailWrite) > 0 {
		res.Labels = append(res.Labels, "write-fails")
	}
	if len(d.syncs) < len(d.writes) {
		res.Labels = append(res.Labels, "group-commit")
	}
	return res, nil
}

func fmtSyncs(s []sEv) string {
	out := ""
	for _, e := range s {
		out += fmt.Sprintf("[%d..%d fail=%v] ", e.begin, e.end, e.fail)
	}
	return out
}

func TestPropFileWriter(t *testing.T)   { evid.Check(t, genFW, runFW) }
func TestReplayFileWriter(t *testing.T) { evid.Replay(t, runFW) }
