// C01: acknowledged bulks survive any crash/restart history, intact and uncorrupted.
// Fault enumeration over generated histories: real child processes, crash points inside
// the write path (verifhook), torn tails by truncation, kill -9, graceful restarts.
package c01

import (
	"errors"
	"fmt"
	"os"
	"path/filepath"
	"sort"
	"strings"
	"testing"

	"pgregory.net/rapid"

	"verif/internal/evid"
	"verif/internal/gen"
	"verif/internal/harness"
	"verif/internal/model"
)

type Op struct {
	Kind string `json:"kind"` // bulk | crash | kill | restart | seal | burst | retry
	// burst: Docs and Docs2 are acknowledged bulks sent concurrently, the first one delayed
	// at DelayPoint.  retry: the client re-sends the documents of the latest never-
	// acknowledged bulk together with new ones (Docs), as it does after a lost ack.
	Docs2      []model.Doc `json:"docs2,omitempty"`
	DelayPoint string      `json:"delay_point,omitempty"`
	Docs       []model.Doc `json:"docs,omitempty"`
	// crash: the process exits the first time execution reaches Point while writing Docs
	Point string `json:"point,omitempty"`
	// torn tail: after the crash the file that was being written is cut back to
	// before + Torn‰ of the bytes the interrupted operation had appended (1000 = keep all)
	TornPermille int `json:"torn_permille,omitempty"`
	TornAbs      int `json:"torn_abs,omitempty"` // if >0: keep exactly this many bytes of the appended range (clamped)
}

type Case struct {
	Ops   []Op              `json:"ops"`
	Fsync bool              `json:"fsync"`
	Opts  harness.StoreOpts `json:"opts"`
}

var crashPoints = []string{"aw.before_docs", "fw.written#1", "aw.after_docs", "fw.written#2", "aw.after_meta"}

func genDocs(t *rapid.T, seq *int, ids map[model.ID]bool) []model.Doc {
	n := rapid.IntRange(1, 12).Draw(t, "ndocs")
	if rapid.IntRange(0, 9).Draw(t, "manydocs") == 9 {
		n = rapid.IntRange(13, 40).Draw(t, "ndocs40")
	}
	docs := make([]model.Doc, 0, n)
	for i := 0; i < n; i++ {
		*seq++
		id := model.ID{MID: gen.BaseMID + rapid.Uint64Range(0, 50).Draw(t, "mid"), RID: uint64(*seq)<<8 | rapid.Uint64Range(0, 255).Draw(t, "rid")}
		for ids[id] {
			id.RID++
		}
		ids[id] = true
		size := rapid.SampledFrom([]int{0, 0, 0, 10, 100, 2000, 70000}).Draw(t, "size")
		body := []byte(fmt.Sprintf(`{"n":%d,"p":"%s"}`, *seq, strings.Repeat(string(rune('a'+*seq%26)), size)))
		if rapid.IntRange(0, 19).Draw(t, "tinybody") == 19 {
			body = []byte("{}")
		}
		docs = append(docs, model.Doc{ID: id, Body: body, Toks: gen.DocTokens(t)})
	}
	return docs
}

func genCase(t *rapid.T) Case {
	var c Case
	c.Fsync = rapid.IntRange(0, 3).Draw(t, "fsync") == 3
	n := rapid.IntRange(3, 10).Draw(t, "nops")
	seq := 0
	ids := map[model.ID]bool{}
	for i := 0; i < n; i++ {
		k := rapid.IntRange(0, 19).Draw(t, "kind")
		switch {
		case k < 8:
			c.Ops = append(c.Ops, Op{Kind: "bulk", Docs: genDocs(t, &seq, ids)})
		case k < 14:
			op := Op{Kind: "crash", Docs: genDocs(t, &seq, ids), Point: rapid.SampledFrom(crashPoints).Draw(t, "point")}
			switch rapid.IntRange(0, 5).Draw(t, "tornkind") {
			case 0:
				op.TornPermille = 1000 // nothing torn
			case 1:
				op.TornAbs = rapid.SampledFrom([]int{1, 32, 33, 34, 40}).Draw(t, "tornabs") // around the 33-byte block header
			case 2:
				op.TornPermille = 0 // everything the operation appended is lost
			default:
				op.TornPermille = rapid.IntRange(1, 999).Draw(t, "tornpm")
			}
			c.Ops = append(c.Ops, op)
		case k < 16 && rapid.Bool().Draw(t, "faultbulk"):
			// a bulk whose first write attempts fail (file size limit, lifted 20 ms later) and
			// which the store then writes successfully and acknowledges
			c.Ops = append(c.Ops, Op{Kind: "faultbulk", Docs: genDocs(t, &seq, ids), TornAbs: rapid.SampledFrom([]int{1, 40, 700, 5000, 0}).Draw(t, "faultat")})
		case k < 16:
			c.Ops = append(c.Ops, Op{Kind: "burst", Docs: genDocs(t, &seq, ids), Docs2: genDocs(t, &seq, ids),
				DelayPoint: rapid.SampledFrom([]string{"aw.after_docs", "fw.written", "aw.before_docs", ""}).Draw(t, "delaypoint")})
		case k < 17:
			if rapid.Bool().Draw(t, "retry") {
				c.Ops = append(c.Ops, Op{Kind: "retry", Docs: genDocs(t, &seq, ids)})
			} else {
				c.Ops = append(c.Ops, Op{Kind: "kill"})
			}
		case k < 19:
			c.Ops = append(c.Ops, Op{Kind: "restart"})
		default:
			c.Ops = append(c.Ops, Op{Kind: "seal"})
		}
	}
	// every history ends with one more bulk and a clean restart, so that what the last
	// crash left behind is exercised by ingestion and by a second replay
	c.Ops = append(c.Ops, Op{Kind: "bulk", Docs: genDocs(t, &seq, ids)}, Op{Kind: "restart"})
	return c
}

type state struct {
	acked    model.Corpus
	inflight [][]model.Doc // never-acked bulks, each wholly present or wholly absent
}

func runHistory(c Case) (evid.Result, error) {
	res := evid.Result{}
	dir := evid.ScratchDir("c01")
	defer os.RemoveAll(dir)
	var p *harness.Proc
	defer func() {
		if p != nil {
			p.Kill()
		}
	}()
	st := &state{}
	up := func(step int) error {
		var err error
		p, err = harness.OpenProc(dir, c.Opts, c.Fsync)
		if err != nil {
			return evid.Failf("no-start", "step %d: %v", step, err)
		}
		return verify(p, st, step, &res)
	}
	if err := up(-1); err != nil {
		return res, err
	}
	hang := ""
	crashes, restartsAfterCrash, bulksAfterCrash := 0, 0, 0
	tornSeen := false
	for i, op := range c.Ops {
		if p == nil || p.Dead {
			if err := up(i); err != nil {
				return res, err
			}
			if crashes > 0 {
				restartsAfterCrash++
			}
		}
		switch op.Kind {
		case "bulk":
			r, err := p.Do(harness.PCmd{Op: "bulk", Docs: op.Docs, Wait: true})
			if err != nil {
				return res, evid.Failf("died-in-bulk", "step %d: store died while ingesting (exit %d): %s", i, p.Exit, p.StderrTail())
			}
			if !r.OK {
				return res, evid.Failf("bulk-error", "step %d: %s", i, r.Err)
			}
			st.acked = append(st.acked, op.Docs...)
			if crashes > 0 {
				bulksAfterCrash++
			}
		case "crash":
			before, err := p.Do(harness.PCmd{Op: "files", Dir: dir})
			if err != nil {
				return res, evid.Failf("died-idle", "step %d: exit %d %s", i, p.Exit, p.StderrTail())
			}
			point, n := op.Point, 1
			if j := strings.IndexByte(point, '#'); j >= 0 {
				fmt.Sscanf(point[j+1:], "%d", &n)
				point = point[:j]
			}
			if _, err := p.Do(harness.PCmd{Op: "arm", Point: point, N: n}); err != nil {
				return res, err
			}
			_, err = p.Do(harness.PCmd{Op: "bulk", Docs: op.Docs, Wait: true})
			if err == nil || p.Crash == nil {
				return res, fmt.Errorf("step %d: armed point %s did not fire (harness error)", i, op.Point)
			}
			crashes++
			st.inflight = append(st.inflight, op.Docs)
			// torn tail: cut the file the interrupted operation was appending to
			for name, after := range p.Crash.Files {
				b4 := before.Files[name]
				if after <= b4 || !(strings.HasSuffix(name, ".docs") || strings.HasSuffix(name, ".meta")) {
					continue
				}
				// only the *last* file written can be torn: docs if meta did not grow
				if strings.HasSuffix(name, ".docs") && grew(p.Crash.Files, before.Files, ".meta") {
					continue
				}
				keep := (after - b4) * int64(op.TornPermille) / 1000
				if op.TornAbs > 0 {
					keep = min(int64(op.TornAbs), after-b4)
				}
				if b4+keep < after {
					if err := os.Truncate(filepath.Join(dir, name), b4+keep); err != nil {
						return res, err
					}
					tornSeen = true
					res.Labels = append(res.Labels, "torn-"+filepath.Ext(name)[1:])
				}
			}
			res.Labels = append(res.Labels, "crash@"+op.Point)
		case "burst":
			r, err := p.Do(harness.PCmd{Op: "burst", Docs: op.Docs, Docs2: op.Docs2, DelayPoint: op.DelayPoint, DelayMs: 15})
			if err != nil {
				return res, evid.Failf("died-in-bulk", "step %d: store died during two concurrent bulks (exit %d): %s", i, p.Exit, p.StderrTail())
			}
			if !r.OK {
				return res, evid.Failf("bulk-error", "step %d: %s", i, r.Err)
			}
			st.acked = append(append(st.acked, op.Docs...), op.Docs2...)
			if crashes > 0 {
				bulksAfterCrash++
			}
			res.Labels = append(res.Labels, "concurrent-burst")
		case "retry":
			// the latest never-acknowledged bulk is sent again, interleaved with new documents
			docs := append([]model.Doc{}, op.Docs...)
			if n := len(st.inflight); n > 0 {
				old := st.inflight[n-1]
				st.inflight = st.inflight[:n-1]
				var mixed []model.Doc
				for j := 0; j < len(old) || j < len(docs); j++ {
					if j < len(old) {
						mixed = append(mixed, old[j])
					}
					if j < len(docs) {
						mixed = append(mixed, docs[j])
					}
				}
				docs = mixed
				res.Labels = append(res.Labels, "retry-of-unacked-bulk")
			}
			r, err := p.Do(harness.PCmd{Op: "bulk", Docs: docs, Wait: true})
			if err != nil {
				return res, evid.Failf("died-in-bulk", "step %d: store died while ingesting a retried bulk (exit %d): %s", i, p.Exit, p.StderrTail())
			}
			if !r.OK {
				return res, evid.Failf("bulk-error", "step %d: %s", i, r.Err)
			}
			st.acked = append(st.acked, docs...)
		case "faultbulk":
			r, err := p.Do(harness.PCmd{Op: "bulkfault", Docs: op.Docs, Bytes: uint64(op.TornAbs), DelayMs: 20})
			if err != nil {
				return res, evid.Failf("died-in-bulk", "step %d: store died during a bulk whose first write attempts failed (exit %d): %s", i, p.Exit, p.StderrTail())
			}
			if !r.OK {
				return res, evid.Failf("bulk-error", "step %d: %s", i, r.Err)
			}
			st.acked = append(st.acked, op.Docs...)
			res.Labels = append(res.Labels, "bulk-acknowledged-after-failed-write-attempts")
			if r.Failed != "" {
				// the fraction can no longer become idle (seal and Stop would wait for ever);
				// the history goes on from a kill, the acknowledged bulk must survive it
				hang = fmt.Sprintf("step %d: %s", i, r.Failed)
				p.Kill()
				res.Labels = append(res.Labels, "indexing-hangs-after-failed-write-attempt")
				continue
			}
			if err := verify(p, st, i, &res); err != nil {
				return res, err
			}
		case "kill":
			p.Kill()
			res.Labels = append(res.Labels, "kill9")
		case "restart":
			if err := p.StopGraceful(); err != nil {
				return res, evid.Failf("stop-failed", "step %d: %v", i, err)
			}
			res.Labels = append(res.Labels, "graceful-restart")
		case "seal":
			if len(st.acked) == 0 {
				continue
			}
			if _, err := p.Do(harness.PCmd{Op: "seal"}); err != nil {
				return res, evid.Failf("died-in-seal", "step %d: exit %d %s", i, p.Exit, p.StderrTail())
			}
			res.Labels = append(res.Labels, "seal")
			if err := verify(p, st, i, &res); err != nil {
				return res, err
			}
		}
	}
	if p == nil || p.Dead {
		if err := up(len(c.Ops)); err != nil {
			return res, err
		}
	}
	if err := p.StopGraceful(); err != nil {
		return res, evid.Failf("stop-failed", "final: %v", err)
	}
	p = nil
	if hang != "" {
		return res, evid.Failf("indexing-hangs", "%s (everything acknowledged survived the restarts that followed)", hang)
	}
	res.NonTrivial = crashes >= 1 && bulksAfterCrash >= 1 && restartsAfterCrash >= 2
	if tornSeen {
		res.Labels = append(res.Labels, "has-torn-tail")
	}
	if crashes >= 2 {
		res.Labels = append(res.Labels, "crashes>=2")
	}
	return res, nil
}

func grew(after, before map[string]int64, suffix string) bool {
	for name, a := range after {
		if strings.HasSuffix(name, suffix) && a > before[name] {
			return true
		}
	}
	return false
}

// verify: everything acked is served and correct; every never-acked bulk is wholly
// present or wholly absent; nothing else is served.
func verify(p *harness.Proc, st *state, step int, res *evid.Result) error {
	all := &model.SearchReq{Q: model.All(), From: 0, To: gen.BaseMID * 2, Limit: 1 << 20, WithTotal: true}
	r, err := p.Do(harness.PCmd{Op: "search", Req: all, Text: "*"})
	if err != nil {
		return evid.Failf("died-in-search", "step %d: exit %d %s", step, p.Exit, p.StderrTail())
	}
	if !r.OK {
		return evid.Failf("search-error", "step %d: %s", step, r.Err)
	}
	served := map[model.ID]bool{}
	for _, id := range r.IDs {
		if served[id] {
			return evid.Failf("duplicate-id", "step %d: %v listed twice", step, id)
		}
		served[id] = true
	}
	corpus := append(model.Corpus{}, st.acked...)
	for _, d := range st.acked {
		if !served[d.ID] {
			return evid.Failf("acked-lost", "step %d: acknowledged document %v is not returned by *", step, d.ID)
		}
	}
	for bi, b := range st.inflight {
		n := 0
		for _, d := range b {
			if served[d.ID] {
				n++
			}
		}
		switch n {
		case 0:
			res.Labels = append(res.Labels, "inflight-absent")
		case len(b):
			res.Labels = append(res.Labels, "inflight-present")
			corpus = append(corpus, b...)
		default:
			return evid.Failf("inflight-partial", "step %d: never-acknowledged bulk %d is partially present (%d of %d)", step, bi, n, len(b))
		}
	}
	if len(served) != len(corpus) {
		return evid.Failf("foreign-id", "step %d: %d ids served, %d expected", step, len(served), len(corpus))
	}
	// each indexed token finds exactly its documents
	type tk struct{ f, v string }
	toks := map[tk]bool{}
	for _, d := range corpus {
		for _, t := range d.Toks {
			toks[tk{t.F, t.V}] = true
		}
	}
	keys := make([]tk, 0, len(toks))
	for k := range toks {
		keys = append(keys, k)
	}
	sort.Slice(keys, func(i, j int) bool { return keys[i].f+"\x00"+keys[i].v < keys[j].f+"\x00"+keys[j].v })
	for _, k := range keys {
		q := model.Lit(k.f, model.Exact(k.v))
		req := &model.SearchReq{Q: q, From: 0, To: gen.BaseMID * 2, Limit: 1 << 20, WithTotal: true}
		text := model.RenderSeqQL(q, model.RenderStyle{})
		want := model.Search(corpus, req)
		r, err := p.Do(harness.PCmd{Op: "search", Req: req, Text: text})
		if err != nil {
			return evid.Failf("died-in-search", "step %d: exit %d %s", step, p.Exit, p.StderrTail())
		}
		if !r.OK {
			return evid.Failf("search-error", "step %d %s: %s", step, text, r.Err)
		}
		if !model.EqualIDs(r.IDs, want.IDs) || r.Total != want.Total {
			return evid.Failf("token-search-differs", "step %d %s: got %v total %d, want %v total %d", step, text, r.IDs, r.Total, want.IDs, want.Total)
		}
		res.Evals++
	}
	// byte-for-byte fetch of everything served, and "not found" for absent in-flight ids
	var ids []model.ID
	var want [][]byte
	for _, d := range corpus {
		ids = append(ids, d.ID)
		want = append(want, d.Body)
	}
	for _, b := range st.inflight {
		for _, d := range b {
			if !served[d.ID] {
				ids = append(ids, d.ID)
				want = append(want, nil)
			}
		}
	}
	if len(ids) > 0 {
		r, err := p.Do(harness.PCmd{Op: "fetch", IDs: ids})
		if err != nil {
			return evid.Failf("died-in-fetch", "step %d: exit %d %s", step, p.Exit, p.StderrTail())
		}
		if !r.OK {
			return evid.Failf("fetch-error", "step %d: %s", step, r.Err)
		}
		for i := range ids {
			if !model.EqualBytes(r.Docs[i], want[i]) {
				return evid.Failf("fetch-bytes-differ", "step %d: id %v: got %d bytes %.60q, want %d bytes %.60q", step, ids[i], len(r.Docs[i]), r.Docs[i], len(want[i]), want[i])
			}
		}
		res.Evals++
	}
	return nil
}

// runCase: failures of a history that contains a bulk with a transient write failure carry
// that in their signature.
func runCase(c Case) (evid.Result, error) {
	res, err := runHistory(c)
	var f *evid.Failure
	if err != nil && errors.As(err, &f) {
		for _, op := range c.Ops {
			if op.Kind == "faultbulk" {
				return res, evid.Failf("transient-write-failure:"+f.Sig, "%s", f.Msg)
			}
		}
	}
	return res, err
}

func TestProp(t *testing.T)   { evid.Check(t, genCase, runCase) }
func TestReplay(t *testing.T) { evid.Replay(t, runCase) }
