package c12

import (
	"fmt"
	"strings"
	"testing"
	"unicode/utf8"

	"pgregory.net/rapid"

	"github.com/ozontech/seq-db/parser"
	"github.com/ozontech/seq-db/seq"

	"verif/internal/evid"
)

// A mapping with every field kind.
func fullMapping() seq.Mapping {
	return seq.Mapping{
		"kw": seq.NewSingleType(seq.TokenizerTypeKeyword, "", 0),
		"tx": seq.NewSingleType(seq.TokenizerTypeText, "", 0),
		"pa": seq.NewSingleType(seq.TokenizerTypePath, "", 0),
		"ex": seq.NewSingleType(seq.TokenizerTypeExists, "", 0),
		"ob": seq.NewSingleType(seq.TokenizerTypeObject, "", 0),
		"tg": seq.NewSingleType(seq.TokenizerTypeTags, "", 0),
		"ne": seq.NewSingleType(seq.TokenizerTypeNested, "", 0),
		"mt": {
			Main: seq.MappingType{TokenizerType: seq.TokenizerTypeText},
			All: []seq.MappingType{
				{Title: "mt", TokenizerType: seq.TokenizerTypeText},
				{Title: "mt.keyword", TokenizerType: seq.TokenizerTypeKeyword, MaxSize: 18},
			},
		},
		"mt.keyword": seq.NewSingleType(seq.TokenizerTypeKeyword, "mt.keyword", 18),
		"ob.kw":      seq.NewSingleType(seq.TokenizerTypeKeyword, "", 0),
	}
}

type TotalCase struct {
	Text    string `json:"text"`
	Mapping string `json:"mapping"` // full | nil | test
	Entry   string `json:"entry"`   // seqql | legacy | aggfilter
}

var fieldNames = []string{"kw", "tx", "pa", "kw", "tx", "pa", "kw", "tx", "service", "message", "ex", "ob", "tg", "ne", "mt", "mt.keyword", "ob.kw", "zz", "_exists_", "_all_", "_index", "service", "message", "tags", "process", "spans", "request_uri"}

var valueFrags = []string{"a", "abc", "A B", "x*", "*", "**", "*a*b*", "\"q\"", "'s'", "`r`", "\\*", "\\\\", "\\", "\\n", "\\x41", "\\u0437", "\\U0001F600", "\\q", "1", "-5", "1.5e3", "", " ", "\t", "\n", "é", "İ", "", "�", "\xff", "\xc3", "#c", "|", "(", ")", "[", "]", "{", "}", ",", ":", "to", "TO", "and", "or", "not", "in", "fields", "except"}

var cleanFrags = []string{"a", "abc", "x1", "err", "b_c", "1", "42", "é", "get", "v.1", "a-b"}

func genValue(t *rapid.T) string {
	n := rapid.IntRange(1, 3).Draw(t, "nfrag")
	var b strings.Builder
	clean := rapid.IntRange(0, 9).Draw(t, "clean") < 6
	for i := 0; i < n; i++ {
		if clean {
			b.WriteString(rapid.SampledFrom(cleanFrags).Draw(t, "cf"))
			if rapid.IntRange(0, 4).Draw(t, "wild") == 4 {
				b.WriteString("*")
			}
		} else {
			b.WriteString(rapid.SampledFrom(valueFrags).Draw(t, "vf"))
		}
	}
	v := b.String()
	switch rapid.IntRange(0, 5).Draw(t, "vq") {
	case 0:
		return v
	case 1:
		return `"` + v + `"`
	case 2:
		return `'` + v + `'`
	case 3:
		return "`" + v + "`"
	case 4:
		return `"` + strings.NewReplacer(`"`, `\"`, `\`, `\\`).Replace(v) + `"`
	}
	return v + "*"
}

func genAtomText(t *rapid.T) string {
	f := rapid.SampledFrom(fieldNames).Draw(t, "field")
	switch rapid.IntRange(0, 9).Draw(t, "atomkind") {
	case 0, 1, 2, 3, 4:
		return f + ":" + genValue(t)
	case 5:
		open := rapid.SampledFrom([]string{"[", "(", "{"}).Draw(t, "ro")
		cl := rapid.SampledFrom([]string{"]", ")", "}"}).Draw(t, "rc")
		sep := rapid.SampledFrom([]string{", ", " to ", " TO ", ","}).Draw(t, "rs")
		return f + ":" + open + genValue(t) + sep + genValue(t) + cl
	case 6:
		n := rapid.IntRange(0, 3).Draw(t, "nin")
		var parts []string
		for i := 0; i < n; i++ {
			parts = append(parts, genValue(t))
		}
		return f + ":in(" + strings.Join(parts, ", ") + ")"
	case 7:
		return f + ": " + genValue(t)
	case 8:
		return "*"
	default:
		return genValue(t)
	}
}

func genQueryText(t *rapid.T, depth int) string {
	if depth <= 0 || rapid.IntRange(0, 2).Draw(t, "leaf") == 0 {
		return genAtomText(t)
	}
	switch rapid.IntRange(0, 4).Draw(t, "node") {
	case 0:
		return genQueryText(t, depth-1) + rapid.SampledFrom([]string{" and ", " AND ", " And "}).Draw(t, "and") + genQueryText(t, depth-1)
	case 1:
		return genQueryText(t, depth-1) + rapid.SampledFrom([]string{" or ", " OR "}).Draw(t, "or") + genQueryText(t, depth-1)
	case 2:
		return rapid.SampledFrom([]string{"not ", "NOT ", "not", "not not "}).Draw(t, "not") + genQueryText(t, depth-1)
	case 3:
		return "(" + genQueryText(t, depth-1) + ")"
	default:
		return genQueryText(t, depth-1) + " " + genQueryText(t, depth-1)
	}
}

func mutate(t *rapid.T, s string) string {
	n := rapid.IntRange(0, 5).Draw(t, "nmut") - 2 // no mutation in half of the cases
	b := []byte(s)
	for i := 0; i < n; i++ {
		if len(b) == 0 {
			b = append(b, rapid.SampledFrom(valueFrags).Draw(t, "ins")...)
			continue
		}
		pos := rapid.IntRange(0, len(b)-1).Draw(t, "pos")
		switch rapid.IntRange(0, 5).Draw(t, "mut") {
		case 0: // delete a byte
			b = append(b[:pos], b[pos+1:]...)
		case 1: // duplicate a slice
			end := rapid.IntRange(pos, min(len(b), pos+8)).Draw(t, "end")
			b = append(b[:end], append(append([]byte{}, b[pos:end]...), b[end:]...)...)
		case 2: // insert a fragment
			f := rapid.SampledFrom(valueFrags).Draw(t, "ins")
			b = append(b[:pos], append([]byte(f), b[pos:]...)...)
		case 3: // truncate
			b = b[:pos]
		case 4: // replace with a bracket/quote
			b[pos] = rapid.SampledFrom([]byte("()[]{}\"'`\\*:|#,")).Draw(t, "ch")
		default: // swap two bytes
			q := rapid.IntRange(0, len(b)-1).Draw(t, "pos2")
			b[pos], b[q] = b[q], b[pos]
		}
	}
	return string(b)
}

func genTotal(t *rapid.T) TotalCase {
	text := genQueryText(t, rapid.IntRange(0, 4).Draw(t, "depth"))
	if rapid.IntRange(0, 3).Draw(t, "pipe") == 3 {
		text += rapid.SampledFrom([]string{" | fields a, b", " | fields except a", " | fields", " | ", " | fields \"x y\", `z`", "| fields *", " | unknown x"}).Draw(t, "pipetext")
	}
	if rapid.IntRange(0, 5).Draw(t, "comment") == 5 {
		text = "# c\n" + text + " # tail"
	}
	text = mutate(t, text)
	return TotalCase{
		Text:    text,
		Mapping: rapid.SampledFrom([]string{"full", "full", "nil", "test"}).Draw(t, "mapping"),
		Entry:   rapid.SampledFrom([]string{"seqql", "seqql", "legacy", "legacy", "aggfilter"}).Draw(t, "entry"),
	}
}

func mappingOf(name string) seq.Mapping {
	switch name {
	case "full":
		return fullMapping()
	case "test":
		return seq.TestMapping
	}
	return nil
}

func runTotal(c TotalCase) (res evid.Result, err error) {
	defer func() {
		if p := recover(); p != nil {
			err = evid.Failf("parser-panic", "%s(%q) with %s mapping panicked: %v", c.Entry, c.Text, c.Mapping, p)
		}
	}()
	m := mappingOf(c.Mapping)
	var ast *parser.ASTNode
	var perr error
	switch c.Entry {
	case "seqql":
		var q parser.SeqQLQuery
		q, perr = parser.ParseSeqQL(c.Text, m)
		ast = q.Root
	case "legacy":
		ast, perr = parser.ParseQuery(c.Text, m)
	default:
		var lit *parser.Literal
		lit, perr = parser.ParseAggregationFilter(c.Text)
		if perr == nil && lit != nil && len(lit.Terms) == 0 {
			return res, evid.Failf("ast-malformed", "aggfilter(%q): literal without terms", c.Text)
		}
	}
	if perr == nil && ast != nil {
		if werr := wellFormed(ast); werr != nil {
			return res, evid.Failf("ast-malformed", "%s(%q): %v", c.Entry, c.Text, werr)
		}
		// a returned query must also be executable: the store would run it next
		for _, lit := range literals(ast) {
			_ = parser.GetHint(lit)
		}
		res.Labels = append(res.Labels, "accepted")
	} else if perr != nil {
		res.Labels = append(res.Labels, "rejected")
	}
	res.NonTrivial = perr == nil || !utf8.ValidString(c.Text) || strings.ContainsAny(c.Text, "\"'`\\")
	for _, f := range []string{"ob:", "tg:", "ne:", "ex:", "mt:", "tags:", "process:", "spans:"} {
		if strings.Contains(c.Text, f) && c.Mapping != "nil" {
			res.Labels = append(res.Labels, "non-searchable-field-kind")
			break
		}
	}
	if !utf8.ValidString(c.Text) {
		res.Labels = append(res.Labels, "invalid-utf8")
	}
	return res, nil
}

func literals(n *parser.ASTNode) []parser.Token {
	var out []parser.Token
	if n == nil {
		return nil
	}
	switch n.Value.(type) {
	case *parser.Literal, *parser.Range:
		out = append(out, n.Value)
	}
	for _, c := range n.Children {
		out = append(out, literals(c)...)
	}
	return out
}

func TestPropTotal(t *testing.T) {
	evid.For(t).Lazy()
	evid.Check(t, genTotal, runTotal)
}
func TestReplayTotal(t *testing.T) { evid.Replay(t, runTotal) }

// Native fuzzing (thorough tier): bytes -> (entry, mapping, text)
func FuzzParsers(f *testing.F) {
	seeds := []string{
		`service:"some service" AND level:1`, `a:[1 TO 3}`, `message:"a b" or not level:*err*`, `kw:in(a, 'b', "c", ` + "`d`" + `) | fields x`,
		`ob:x`, `tg:x`, `ne:x`, `ex:x`, `_exists_:kw`, `not (a:b or c:d) and e:f`, "kw:`*`", `kw:'\*'`, `kw:"з"`, `tx:"a b c" and mt:x`,
		"\xff:\xfe", "kw:", `kw:(1, 2]`, `kw:[* to *]`, `# c` + "\n" + `kw:a`, `*`, `(`, `kw:`, `:x`, `kw:a | fields except`,
	}
	for i, s := range seeds {
		f.Add(byte(i), s)
	}
	f.Fuzz(func(t *testing.T, sel byte, text string) {
		if len(text) > 4096 {
			return
		}
		c := TotalCase{Text: text, Mapping: []string{"full", "nil", "test"}[int(sel)%3], Entry: []string{"seqql", "legacy", "aggfilter"}[int(sel/3)%3]}
		if _, err := runTotal(c); err != nil {
			t.Fatalf("%v", err)
		}
	})
}

var _ = fmt.Sprint
