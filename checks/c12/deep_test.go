package c12

// Totality for deeply nested queries.  Both parsers are recursive; a goroutine stack that
// overflows is a fatal error no recover() can catch, so "returns an error or an AST" must hold
// for nesting depths far beyond anything sensible as well: a query of a few megabytes passes
// the proxy's and the store's message size limits.  Cases are journalled before they run (no
// lazy journal): a dead test process is attributed to its case by the driver.

import (
	"strings"
	"testing"

	"pgregory.net/rapid"

	"github.com/ozontech/seq-db/parser"

	"verif/internal/evid"
)

type DeepCase struct {
	Open  string `json:"open"`
	Close string `json:"close"`
	N     int    `json:"n"`
	Core  string `json:"core"`
	Entry string `json:"entry"` // seqql | legacy | aggfilter
	Map   string `json:"mapping"`
}

func genDeep(t *rapid.T) DeepCase {
	w := rapid.SampledFrom([][2]string{{"(", ")"}, {"not ", ""}, {"NOT (", ")"}, {"( not ", ")"}, {"(", ""}, {"((", ")"}}).Draw(t, "wrap")
	return DeepCase{
		Open: w[0], Close: w[1],
		N:     rapid.SampledFrom([]int{1, 30, 400, 999, 1000, 1001, 5000, 200_000, 1_500_000, 3_000_000}).Draw(t, "n"),
		Core:  rapid.SampledFrom([]string{"kw:a", "kw:a and tx:b", "*", "", "kw:in(a,b)"}).Draw(t, "core"),
		Entry: rapid.SampledFrom([]string{"seqql", "legacy", "aggfilter"}).Draw(t, "entry"),
		Map:   rapid.SampledFrom([]string{"full", "nil"}).Draw(t, "mapping"),
	}
}

func runDeep(c DeepCase) (res evid.Result, err error) {
	if c.N < 0 || c.N > 4_000_000 {
		return res, evid.Failf("bad_case", "n")
	}
	text := strings.Repeat(c.Open, c.N) + c.Core + strings.Repeat(c.Close, c.N)
	defer func() {
		if p := recover(); p != nil {
			err = evid.Failf("parser-panic", "%s(%q x %d ...) panicked: %v", c.Entry, c.Open, c.N, p)
		}
	}()
	m := mappingOf(c.Map)
	var ast *parser.ASTNode
	var perr error
	switch c.Entry {
	case "seqql":
		var q parser.SeqQLQuery
		q, perr = parser.ParseSeqQL(text, m)
		ast = q.Root
	case "legacy":
		ast, perr = parser.ParseQuery(text, m)
	default:
		_, perr = parser.ParseAggregationFilter(text)
	}
	if perr == nil && ast != nil {
		if werr := wellFormed(ast); werr != nil {
			return res, evid.Failf("ast-malformed", "%s(%q x %d ...): %v", c.Entry, c.Open, c.N, werr)
		}
		_ = ast.String() // what the proxy logs and the explain output prints
		res.Labels = append(res.Labels, "accepted")
	} else {
		res.Labels = append(res.Labels, "rejected")
	}
	switch {
	case c.N >= 1_000_000:
		res.Labels = append(res.Labels, "depth>=1e6")
	case c.N >= 5000:
		res.Labels = append(res.Labels, "depth>=5000")
	}
	res.NonTrivial = c.N >= 5000
	return res, nil
}

func TestPropDeep(t *testing.T)   { evid.Check(t, genDeep, runDeep) }
func TestReplayDeep(t *testing.T) { evid.Replay(t, runDeep) }
