package c12

// Totality for deeply nested queries.  Both parsers are recursive; a goroutine stack that
// overflows is a fatal error no recover() can catch, so "returns an error or an AST" must hold
// for nesting depths far beyond anything sensible as well: a query of a few megabytes passes
// the proxy's and the store's message size limits (the store accepts messages up to 256 MB; a
// frame of the NOT recursion is small, so it takes several million of them to exhaust the 1 GB
// goroutine stack: the depths go up to 20 million, an 80 MB text).  Cases are journalled before they run (no
// lazy journal): a dead test process is attributed to its case by the driver.

import (
	"strings"
	"testing"

	"pgregory.net/rapid"

	"github.com/ozontech/seq-db/parser"

	"verif/internal/evid"
)

type DeepCase struct {
	Open  string `json:"open"`
	Close string `json:"close"`
	N     int    `json:"n"`
	Core  string `json:"core"`
	Entry string `json:"entry"` // seqql | legacy | aggfilter
	Map   string `json:"mapping"`
}

func genDeep(t *rapid.T) DeepCase {
	w := rapid.SampledFrom([][2]string{{"(", ")"}, {"not ", ""}, {"NOT (", ")"}, {"( not ", ")"}, {"(", ""}, {"((", ")"}}).Draw(t, "wrap")
	return DeepCase{
		Open: w[0], Close: w[1],
		N:     rapid.SampledFrom([]int{1, 30, 400, 999, 1000, 1001, 5000, 200_000, 1_500_000, 3_000_000, 8_000_000, 20_000_000}).Draw(t, "n"),
		Core:  rapid.SampledFrom([]string{"kw:a", "kw:a and tx:b", "*", "", "kw:in(a,b)"}).Draw(t, "core"),
		Entry: rapid.SampledFrom([]string{"seqql", "legacy", "aggfilter"}).Draw(t, "entry"),
		Map:   rapid.SampledFrom([]string{"full", "nil"}).Draw(t, "mapping"),
	}
}

func runDeep(c DeepCase) (res evid.Result, err error) {
	if c.N < 0 || c.N > 25_000_000 {
		return res, evid.Failf("bad_case", "n")
	}
	text := strings.Repeat(c.Open, c.N) + c.Core + strings.Repeat(c.Close, c.N)
	defer func() {
		if p := recover(); p != nil {
			err = evid.Failf("parser-panic", "%s(%q x %d ...) panicked: %v", c.Entry, c.Open, c.N, p)
		}
	}()
	m := mappingOf(c.Map)
	var ast *parser.ASTNode
	var perr error
	switch c.Entry {
	case "seqql":
		var q parser.SeqQLQuery
		q, perr = parser.ParseSeqQL(text, m)
		ast = q.Root
	case "legacy":
		ast, perr = parser.ParseQuery(text, m)
	default:
		_, perr = parser.ParseAggregationFilter(text)
	}
	if perr == nil && ast != nil {
		if werr := wellFormed(ast); werr != nil {
			return res, evid.Failf("ast-malformed", "%s(%q x %d ...): %v", c.Entry, c.Open, c.N, werr)
		}
		_ = ast.String() // what the proxy logs and the explain output prints
		res.Labels = append(res.Labels, "accepted")
	} else {
		res.Labels = append(res.Labels, "rejected")
	}
	switch {
	case c.N >= 1_000_000:
		res.Labels = append(res.Labels, "depth>=1e6")
	case c.N >= 5000:
		res.Labels = append(res.Labels, "depth>=5000")
	}
	res.NonTrivial = c.N >= 5000
	return res, nil
}

func TestPropDeep(t *testing.T)   { evid.Check(t, genDeep, runDeep) }
func TestReplayDeep(t *testing.T) { evid.Replay(t, runDeep) }

// ---------------------------------------------------------------- the reserved rune

// U+E000 is the parser's internal mark for an unescaped wildcard.  A value that contains the
// rune itself - typed raw in any quoting style, or written as an escape - denotes that
// character, not a wildcard: either the query is refused or it keeps its meaning (here: no
// document carries such a token, so the atom is false everywhere; read as a wildcard it would
// match v0, v1 and v22).
type ReservedCase struct {
	Form  int  `json:"form"`  // spelling of the value
	Neg   bool `json:"neg"`   // wrapped in NOT
	Other int  `json:"other"` // 0 alone, 1 `and kw:v0`, 2 `or kw:v0`
}

var reservedForms = []string{"kw:\"v\ue000\"", "kw:'v\ue000'", "kw:`v\ue000`", "kw:v\ue000", "kw:\"v\\uE000\"", "kw:'\\ue000v'", "kw:\"\ue000\"", "kw:\"v\\U0000E000z\"", "kw:\"v\\xee\\x80\\x80\"", "kw:\"\\356\\200\\200v\"", "kw:\"v\\xee\"\"\\x80\\x80\"", "kw:'v\\xee\\x80'\"\\x80z\""}

func genReserved(t *rapid.T) ReservedCase {
	return ReservedCase{Form: rapid.IntRange(0, len(reservedForms)-1).Draw(t, "form"), Neg: rapid.Bool().Draw(t, "neg"), Other: rapid.IntRange(0, 2).Draw(t, "other")}
}

func runReserved(c ReservedCase) (res evid.Result, err error) {
	if c.Form < 0 || c.Form >= len(reservedForms) {
		return res, evid.Failf("bad_case", "form")
	}
	text := reservedForms[c.Form]
	if c.Neg {
		text = "not " + text
	}
	// truth tables over props5: bit j = assignment j; kw:v0 is proposition 0
	var v0 uint64
	for j := 0; j < 32; j++ {
		if j&1 == 1 {
			v0 |= 1 << j
		}
	}
	atom := uint64(0)
	if c.Neg {
		atom = 1<<32 - 1
	}
	want := atom
	switch c.Other {
	case 1:
		text += " and kw:v0"
		want = atom & v0
	case 2:
		text += " or kw:v0"
		want = atom | v0
	}
	defer func() {
		if p := recover(); p != nil {
			err = evid.Failf("parser-panic", "%q: %v", text, p)
		}
	}()
	q, perr := parser.ParseSeqQL(text, meaningMapping)
	if perr != nil {
		res.Labels = append(res.Labels, "refused")
		res.NonTrivial = true
		return res, nil
	}
	got, terr := truthTable(q.Root, &fakeIndex{props: props5, n: 32}, false)
	if terr != nil {
		return res, evid.Failf("eval-error", "%q: %v", text, terr)
	}
	if got != want {
		return res, evid.Failf("meaning-changed:reserved-rune", "%q parsed as %s: truth table %032b, the written expression denotes %032b (U+E000 in a value is a character, not a wildcard)", text, q.Root.String(), got, want)
	}
	res.Labels = append(res.Labels, "accepted-with-its-meaning")
	res.NonTrivial = true
	return res, nil
}

func TestPropReserved(t *testing.T) {
	evid.For(t).Lazy()
	evid.Check(t, genReserved, runReserved)
}
func TestReplayReserved(t *testing.T) { evid.Replay(t, runReserved) }
