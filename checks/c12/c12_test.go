// C12: query parsing is total and preserves the boolean meaning of the query.
//
//	TestEnumTrees   exhaustive: all boolean trees with <= N operators over 3 atoms, rendered
//	                with minimal / redundant parentheses in both languages; the truth table of
//	                the returned AST - evaluated by the *real* search processor over a fake
//	                in-memory index holding one document per truth assignment - must equal
//	                the truth table of the generated tree.
//	TestPropMeaning random larger trees with in(...) lists and multi-word text literals.
//	TestPropTotal   grammar-derived + mutated strings x mappings of every field kind x
//	                {ParseSeqQL, ParseQuery, ParseAggregationFilter}: error or AST, no panic,
//	                no hang; returned ASTs are well formed.
package c12

import (
	"context"
	"fmt"
	"os"
	"strconv"
	"strings"
	"testing"

	"pgregory.net/rapid"

	"github.com/ozontech/seq-db/frac/lids"
	"github.com/ozontech/seq-db/frac/processor"
	"github.com/ozontech/seq-db/metric/stopwatch"
	"github.com/ozontech/seq-db/node"
	"github.com/ozontech/seq-db/parser"
	"github.com/ozontech/seq-db/seq"

	"verif/internal/evid"
	"verif/internal/model"
)

// ---------------------------------------------------------------- fake index

// fakeIndex holds one document per truth assignment of k propositions; proposition i is
// the token (prop[i].F, prop[i].V) and is carried by the documents whose bit i is set.
type fakeIndex struct {
	props []model.Tok
	n     int // number of documents = 1<<k ; lids 1..n ; MID(lid) = 1000 + n - lid
}

// The pseudo TID len(props) is the `_all_` token every document carries.
func (f *fakeIndex) GetValByTID(tid uint32) []byte {
	if int(tid) == len(f.props) {
		return nil
	}
	return []byte(f.props[tid].V)
}

func (f *fakeIndex) GetTIDsByTokenExpr(t parser.Token) ([]uint32, error) {
	var out []uint32
	switch tok := t.(type) {
	case *parser.Literal:
		p := make(model.Pattern, 0, len(tok.Terms))
		for _, term := range tok.Terms {
			if term.Kind == parser.TermSymbol {
				p = append(p, model.Frag{Wild: true})
			} else {
				p = append(p, model.Frag{Text: term.Data})
			}
		}
		for i, pr := range f.props {
			if pr.F == tok.Field && model.Glob(p, pr.V) {
				out = append(out, uint32(i))
			}
		}
		if tok.Field == "_all_" && model.Glob(p, "") {
			out = append(out, uint32(len(f.props)))
		}
	default:
		return nil, fmt.Errorf("fake index: unexpected token %T", t)
	}
	return out, nil
}

func (f *fakeIndex) assignmentOf(lid uint32) int { return f.n - int(lid) } // lid 1 -> n-1 ... lid n -> 0

func (f *fakeIndex) GetLIDsFromTIDs(tids []uint32, _ lids.Counter, minLID, maxLID uint32, order seq.DocsOrder) []node.Node {
	var nodes []node.Node
	for _, tid := range tids {
		var post []uint32
		for lid := uint32(1); lid <= uint32(f.n); lid++ {
			if lid < minLID || lid > maxLID {
				continue
			}
			if int(tid) == len(f.props) || f.assignmentOf(lid)>>tid&1 == 1 {
				post = append(post, lid)
			}
		}
		nodes = append(nodes, node.NewStatic(post, order.IsReverse()))
	}
	return nodes
}

func (f *fakeIndex) mid(lid seq.LID) seq.MID { return seq.MID(1000 + f.n - int(lid)) }
func (f *fakeIndex) LessOrEqual(lid seq.LID, id seq.ID) bool {
	if int(lid) > f.n {
		return true
	}
	return seq.LessOrEqual(seq.ID{MID: f.mid(lid), RID: 0}, id)
}
func (f *fakeIndex) GetMID(lid seq.LID) seq.MID { return f.mid(lid) }
func (f *fakeIndex) GetRID(lid seq.LID) seq.RID { return 0 }
func (f *fakeIndex) Len() int                   { return f.n + 1 }

// truthTable evaluates ast with the real search processor; bit j of the result is set iff
// the document of assignment j is returned.
func truthTable(ast *parser.ASTNode, idx *fakeIndex, asc bool) (uint64, error) {
	order := seq.DocsOrderDesc
	if asc {
		order = seq.DocsOrderAsc
	}
	qpr, err := processor.IndexSearch(context.Background(), processor.SearchParams{
		AST: ast, From: 0, To: 1 << 40, Limit: 1 << 20, WithTotal: true, Order: order,
	}, idx, processor.AggLimits{}, stopwatch.New())
	if err != nil {
		return 0, err
	}
	var tt uint64
	for _, id := range qpr.IDs {
		j := int(id.ID.MID) - 1000
		if tt>>j&1 == 1 {
			return 0, fmt.Errorf("document %d returned twice", j)
		}
		tt |= 1 << j
	}
	if int(qpr.Total) != len(qpr.IDs) {
		return 0, fmt.Errorf("total %d != %d ids", qpr.Total, len(qpr.IDs))
	}
	return tt, nil
}

func modelTable(q *model.Q, props []model.Tok) uint64 {
	var tt uint64
	for j := 0; j < 1<<len(props); j++ {
		d := model.Doc{}
		for i, p := range props {
			if j>>i&1 == 1 {
				d.Toks = append(d.Toks, p)
			}
		}
		if model.Eval(q, &d) {
			tt |= 1 << j
		}
	}
	return tt
}

// ---------------------------------------------------------------- legacy renderer

func legacyQuote(p model.Pattern) string {
	var b strings.Builder
	b.WriteByte('"')
	for _, f := range p {
		if f.Wild {
			b.WriteByte('*')
			continue
		}
		for _, c := range f.Text {
			if c == '"' || c == '\\' || c == '*' {
				b.WriteByte('\\')
			}
			b.WriteRune(c)
		}
	}
	b.WriteByte('"')
	return b.String()
}

func prec(q *model.Q) int {
	switch q.Op {
	case "or":
		return 1
	case "and":
		return 2
	case "not":
		return 3
	}
	return 4
}

func renderLegacy(b *strings.Builder, q *model.Q, st model.RenderStyle, parent int, top bool) {
	p := prec(q)
	need := p < parent
	if st.Parens >= 1 && (q.Op == "and" || q.Op == "or") && !top {
		need = true
	}
	n := 0
	if need {
		n = 1 + st.Parens/2
	}
	b.WriteString(strings.Repeat("(", n))
	kw := func(s string) string {
		if st.Upper {
			return strings.ToUpper(s)
		}
		return s
	}
	switch q.Op {
	case "and", "or":
		renderLegacy(b, q.Kids[0], st, p, false)
		b.WriteString(" " + kw(q.Op) + " ")
		renderLegacy(b, q.Kids[1], st, p, false)
	case "not":
		b.WriteString(kw("not") + " ")
		renderLegacy(b, q.Kids[0], st, p, false)
	case "lit":
		b.WriteString(q.Field + ":" + legacyQuote(q.Pat))
	default:
		panic("legacy render: " + q.Op)
	}
	b.WriteString(strings.Repeat(")", n))
}

func RenderLegacy(q *model.Q, st model.RenderStyle) string {
	var b strings.Builder
	renderLegacy(&b, q, st, 0, true)
	return b.String()
}

// ---------------------------------------------------------------- exhaustive trees

var atoms3 = []model.Tok{{F: "a", V: "x"}, {F: "b", V: "y"}, {F: "c", V: "z"}}

type TreeCase struct {
	Tree  string            `json:"tree"` // prefix notation: & | ! and atom digits
	Style model.RenderStyle `json:"style"`
	Lang  string            `json:"lang"` // seqql | legacy
	Asc   bool              `json:"asc"`
	// Forms: how atom i is written - 'e' (or absent) `f:v`, 'w' the lone wildcard `f:*`
	// (true iff the document has the field at all - here: iff it has the proposition's
	// token), 'p' the prefix wildcard `f:v*`, 'a' match-all (`*` / `_all_:*`, constant true)
	Forms string `json:"forms,omitempty"`
}

func parsePrefix(s string, pos *int, props []model.Tok, forms string) *model.Q {
	c := s[*pos]
	*pos++
	switch c {
	case '&':
		a := parsePrefix(s, pos, props, forms)
		b := parsePrefix(s, pos, props, forms)
		return model.And(a, b)
	case '|':
		a := parsePrefix(s, pos, props, forms)
		b := parsePrefix(s, pos, props, forms)
		return model.Or(a, b)
	case '!':
		return model.Not(parsePrefix(s, pos, props, forms))
	default:
		p := props[c-'0']
		form := byte('e')
		if int(c-'0') < len(forms) {
			form = forms[c-'0']
		}
		switch form {
		case 'w':
			return model.Lit(p.F, model.Pattern{{Wild: true}})
		case 'p':
			return model.Lit(p.F, model.Pattern{{Text: p.V}, {Wild: true}})
		case 'a':
			return model.All()
		}
		return model.Lit(p.F, model.Exact(p.V))
	}
}

// trees[n] = all prefix strings with exactly n operators
func enumTrees(maxOps, k int) [][]string {
	trees := make([][]string, maxOps+1)
	for i := 0; i < k; i++ {
		trees[0] = append(trees[0], strconv.Itoa(i))
	}
	for n := 1; n <= maxOps; n++ {
		for _, t := range trees[n-1] {
			trees[n] = append(trees[n], "!"+t)
		}
		for i := 0; i <= n-1; i++ {
			for _, l := range trees[i] {
				for _, r := range trees[n-1-i] {
					trees[n] = append(trees[n], "&"+l+r, "|"+l+r)
				}
			}
		}
	}
	return trees
}

func runTree(c TreeCase) (evid.Result, error) {
	res := evid.Result{}
	pos := 0
	q := parsePrefix(c.Tree, &pos, atoms3, c.Forms)
	want := modelTable(q, atoms3)
	if c.Forms != "" {
		res.Labels = append(res.Labels, "atom-forms:"+c.Forms)
	}
	var text string
	var ast *parser.ASTNode
	var err error
	if c.Lang == "legacy" {
		text = RenderLegacy(q, c.Style)
		ast, err = parser.ParseQuery(text, nil)
	} else {
		text = model.RenderSeqQL(q, c.Style)
		var sq parser.SeqQLQuery
		sq, err = parser.ParseSeqQL(text, nil)
		ast = sq.Root
	}
	if err != nil {
		return res, evid.Failf("valid-query-rejected", "%s %q: %v", c.Lang, text, err)
	}
	if err := wellFormed(ast); err != nil {
		return res, evid.Failf("ast-malformed", "%s %q: %v", c.Lang, text, err)
	}
	got, err := truthTable(ast, &fakeIndex{props: atoms3, n: 8}, c.Asc)
	if err != nil {
		return res, evid.Failf("eval-error", "%s %q: %v", c.Lang, text, err)
	}
	if got != want {
		return res, evid.Failf("meaning-changed", "%s %q parsed as %s: truth table %08b, written expression denotes %08b", c.Lang, text, ast.String(), got, want)
	}
	// NOT below AND/OR => the NOT-propagation rewriting is exercised
	res.NonTrivial = strings.Contains(c.Tree, "&!") || strings.Contains(c.Tree, "|!") || (strings.Contains(c.Tree, "!") && strings.ContainsAny(c.Tree, "&|") && !strings.HasPrefix(c.Tree, "!"))
	if !res.NonTrivial && strings.Contains(c.Tree[1:], "!") {
		res.NonTrivial = true
	}
	return res, nil
}

func wellFormed(n *parser.ASTNode) error {
	if n == nil {
		return fmt.Errorf("nil node")
	}
	switch v := n.Value.(type) {
	case *parser.Logical:
		want := 2
		if v.Operator == parser.LogicalNot {
			want = 1
		}
		if len(n.Children) != want {
			return fmt.Errorf("logical node with %d children", len(n.Children))
		}
		for _, c := range n.Children {
			if err := wellFormed(c); err != nil {
				return err
			}
		}
	case *parser.Literal:
		if len(v.Terms) == 0 {
			return fmt.Errorf("literal %q without terms (GetHint would index out of range)", v.Field)
		}
		if len(n.Children) != 0 {
			return fmt.Errorf("literal with children")
		}
	case *parser.Range:
		if len(n.Children) != 0 {
			return fmt.Errorf("range with children")
		}
	default:
		return fmt.Errorf("unknown node value %T", n.Value)
	}
	return nil
}

func maxOps() int {
	if v := os.Getenv("C12_MAXOPS"); v != "" {
		n, _ := strconv.Atoi(v)
		return n
	}
	return 3
}

func TestEnumTrees(t *testing.T) {
	r := evid.For(t).Lazy().DistinctByConstruction()
	n := maxOps()
	trees := enumTrees(n, 3)
	total := 0
	for _, ts := range trees {
		total += len(ts)
	}
	r.Note("enum_max_operators", n)
	r.Note("enum_trees", total)
	styles := []model.RenderStyle{{Parens: 0}, {Parens: 2, Upper: true, Tight: true}}
	evid.Enum(t, func(yield func(TreeCase) bool) {
		// second pass, one operator less: atoms written as lone / prefix wildcards and as
		// match-all (SeqQL only for the latter), in every position of every tree
		for _, forms := range []string{"wpa", "awe", "wwp"} {
			for ops, ts := range trees[:len(trees)-1] {
				for i, tr := range ts {
					for _, lang := range []string{"seqql", "legacy"} {
						if lang == "legacy" && strings.Contains(forms, "a") {
							continue
						}
						st := styles[(i+ops)%2]
						st.Quote = i % 4
						if !yield(TreeCase{Tree: tr, Style: st, Lang: lang, Asc: i%2 == 0, Forms: forms}) {
							return
						}
					}
				}
			}
		}
		for ops, ts := range trees {
			for i, tr := range ts {
				for si, st := range styles {
					for _, lang := range []string{"seqql", "legacy"} {
						st2 := st
						st2.Quote = (i + si) % 4
						if !yield(TreeCase{Tree: tr, Style: st2, Lang: lang, Asc: (i+ops)%2 == 0}) {
							return
						}
					}
				}
			}
		}
	}, runTree)
}

func TestReplayTrees(t *testing.T) { evid.Replay(t, runTree) }

// ---------------------------------------------------------------- random meaning

type MeaningCase struct {
	Q     *model.Q          `json:"q"`
	Style model.RenderStyle `json:"style"`
	Asc   bool              `json:"asc"`
}

// propositions: two keyword values, two text words, one path value
var props5 = []model.Tok{{F: "kw", V: "v0"}, {F: "kw", V: "v1"}, {F: "tx", V: "w0"}, {F: "tx", V: "w1"}, {F: "kw", V: "v22"}}

var meaningMapping = seq.Mapping{
	"kw": seq.NewSingleType(seq.TokenizerTypeKeyword, "", 0),
	"tx": seq.NewSingleType(seq.TokenizerTypeText, "", 0),
}

func genMeaningAtom(t *rapid.T) *model.Q {
	switch rapid.IntRange(0, 10).Draw(t, "atom") {
	case 8: // lone wildcard: the document has the field at all
		return model.Lit(rapid.SampledFrom([]string{"kw", "tx"}).Draw(t, "wfield"), model.Pattern{{Wild: true}})
	case 9:
		return model.All()
	case 10: // infix wildcard
		return model.Lit("kw", model.Pattern{{Text: "v"}, {Wild: true}, {Text: "2"}})
	case 0:
		return model.Lit("kw", model.Exact("v0"))
	case 1:
		return model.Lit("kw", model.Exact("v1"))
	case 2:
		return model.Lit("tx", model.Exact("w0"))
	case 3:
		return model.Lit("tx", model.Exact("w1"))
	case 4: // in-list: a disjunction
		n := rapid.IntRange(1, 3).Draw(t, "nin")
		q := &model.Q{Op: "in", Field: "kw"}
		for i := 0; i < n; i++ {
			q.In = append(q.In, model.Exact(rapid.SampledFrom([]string{"v0", "v1", "v22", "nope"}).Draw(t, "inv")))
		}
		return q
	case 5: // several words on a text field: a conjunction
		w := rapid.SampledFrom([]string{"w0 w1", "w1 w0", "w0,w1", "w0 w0", "w1-w0 w1"}).Draw(t, "phrase")
		q := model.And(model.Lit("tx", model.Exact("w0")), model.Lit("tx", model.Exact("w1")))
		if w == "w0 w0" {
			q = model.Lit("tx", model.Exact("w0"))
		}
		// carried as a literal with the phrase text; the model meaning is attached
		return &model.Q{Op: "phrase", Field: "tx", Pat: model.Exact(w), Kids: []*model.Q{q}}
	case 6: // wildcard on keyword
		return model.Lit("kw", model.Pattern{{Text: "v"}, {Wild: true}})
	default:
		return model.Lit("kw", model.Pattern{{Text: "v2"}, {Wild: true}})
	}
}

func genMeaningTree(t *rapid.T, atoms int) *model.Q {
	var q *model.Q
	if atoms <= 1 {
		q = genMeaningAtom(t)
	} else {
		l := rapid.IntRange(1, atoms-1).Draw(t, "split")
		a, b := genMeaningTree(t, l), genMeaningTree(t, atoms-l)
		if rapid.Bool().Draw(t, "and") {
			q = model.And(a, b)
		} else {
			q = model.Or(a, b)
		}
	}
	switch rapid.IntRange(0, 5).Draw(t, "nots") {
	case 0:
		q = model.Not(q)
	case 1:
		q = model.Not(model.Not(q))
	}
	return q
}

// phrase nodes render as a literal and evaluate as their attached meaning
func stripPhrase(q *model.Q, forEval bool) *model.Q {
	if q.Op == "phrase" {
		if forEval {
			return q.Kids[0]
		}
		return model.Lit(q.Field, q.Pat)
	}
	c := *q
	c.Kids = nil
	for _, k := range q.Kids {
		c.Kids = append(c.Kids, stripPhrase(k, forEval))
	}
	return &c
}

func genMeaning(t *rapid.T) MeaningCase {
	st := model.RenderStyle{
		Quote:  rapid.IntRange(0, 2).Draw(t, "quote"),
		Parens: rapid.IntRange(0, 2).Draw(t, "parens"),
		Upper:  rapid.Bool().Draw(t, "upper"),
		Tight:  rapid.Bool().Draw(t, "tight"),
	}
	return MeaningCase{Q: genMeaningTree(t, rapid.IntRange(1, 7).Draw(t, "atoms")), Style: st, Asc: rapid.Bool().Draw(t, "asc")}
}

func runMeaning(c MeaningCase) (evid.Result, error) {
	res := evid.Result{}
	text := model.RenderSeqQL(stripPhrase(c.Q, false), c.Style)
	want := modelTable(stripPhrase(c.Q, true), props5)
	sq, err := parser.ParseSeqQL(text, meaningMapping)
	if err != nil {
		return res, evid.Failf("valid-query-rejected", "%q: %v", text, err)
	}
	if err := wellFormed(sq.Root); err != nil {
		return res, evid.Failf("ast-malformed", "%q: %v", text, err)
	}
	got, err := truthTable(sq.Root, &fakeIndex{props: props5, n: 32}, c.Asc)
	if err != nil {
		return res, evid.Failf("eval-error", "%q: %v", text, err)
	}
	if got != want {
		return res, evid.Failf("meaning-changed", "%q parsed as %s: truth table %032b, written expression denotes %032b", text, sq.Root.String(), got, want)
	}
	res.NonTrivial = strings.Contains(text, "in(") || strings.Contains(text, "IN(") || hasOp(c.Q, "phrase")
	if hasOp(c.Q, "not") {
		res.Labels = append(res.Labels, "not")
	}
	if hasOp(c.Q, "phrase") {
		res.Labels = append(res.Labels, "multi-word-text")
	}
	if hasOp(c.Q, "in") {
		res.Labels = append(res.Labels, "in-list")
	}
	return res, nil
}

func hasOp(q *model.Q, op string) bool {
	if q.Op == op {
		return true
	}
	for _, k := range q.Kids {
		if hasOp(k, op) {
			return true
		}
	}
	return false
}

func TestPropMeaning(t *testing.T) {
	evid.For(t).Lazy()
	evid.Check(t, genMeaning, runMeaning)
}
func TestReplayMeaning(t *testing.T) { evid.Replay(t, runMeaning) }
