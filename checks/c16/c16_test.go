// C16: proxy reads degrade honestly.
//
// A real search.Ingestor runs over scripted fake StoreApiClients.  Every fake holds the model
// corpus of its shard and answers Search from the reference model (internal/model) with the
// parameters of the storeapi.SearchRequest it receives, so the correct per-shard response is
// known without any seq-db store code.  Fetch fakes stream disk.PackDocBlock blocks with
// Ext1/Ext2 = MID/RID exactly as storeapi/grpc_fetch.go does and then misbehave per script.
// The oracle is a validity predicate over (qpr, docs stream, err) computed from the case and
// from the fakes' fetch log (who was asked for which IDs and what it put on the wire).
package c16

import (
	"bytes"
	"context"
	"errors"
	"fmt"
	"io"
	"os"
	"runtime/debug"
	"sort"
	"strings"
	"sync"
	"testing"
	"time"

	"google.golang.org/grpc"
	"google.golang.org/grpc/codes"
	"google.golang.org/grpc/status"
	"google.golang.org/protobuf/types/known/timestamppb"
	"pgregory.net/rapid"

	"github.com/ozontech/seq-db/consts"
	"github.com/ozontech/seq-db/disk"
	"github.com/ozontech/seq-db/pkg/seqproxyapi/v1"
	"github.com/ozontech/seq-db/pkg/storeapi"
	"github.com/ozontech/seq-db/proxy/search"
	"github.com/ozontech/seq-db/proxy/stores"
	"github.com/ozontech/seq-db/proxyapi"
	"github.com/ozontech/seq-db/querytracer"
	"github.com/ozontech/seq-db/seq"

	"verif/internal/evid"
	"verif/internal/gen"
	"verif/internal/model"
)

// Known findings whose triggers are excluded by construction (see plan.json, replays/C16).
// Set to false (or run with C16_NO_EXCLUDE=1, e.g. against a repaired tree) to let the
// generator reach them again.
var noExclude = os.Getenv("C16_NO_EXCLUDE") != ""

const (
	// lessFuncPosBased looks the *hinted* IDSource of the request up in a map keyed without
	// hint: with store hints (what real stores send) the fast-forward over unexpected
	// documents never works; an unrequested document panics, a late/duplicate one blocks the
	// merged stream for every other source.
	excludeHintedUnexpected = false
	// two sources with an unrequested document at the head of their streams at the same time
	// reach panic("attempt to compare unknown IDSources") in the two-way merge.
	excludeTwoForeign = false
)

// scripted outcome of the Search call on one host
const (
	sOK            = 0
	sErr           = 1 // gRPC status Unavailable
	sErrPlain      = 2 // non-status error
	sWantsOld      = 3 // response code INGESTOR_QUERY_WANTS_OLD_DATA (what a hot store sends)
	sWantsOldErr   = 4 // legacy: gRPC error whose message is the wants-old-data text
	sTooManyFrac   = 5 // response code TOO_MANY_FRACTIONS_HIT
	sTooManyUniq   = 6 // response code TOO_MANY_UNIQ_VALUES
	sTooManyUniqEr = 7 // legacy: gRPC error whose message is the too-many-unique text
	nSearch        = 8
)

// scripted behaviour of the Fetch call on one host
const (
	fOK        = 0
	fOpenErr   = 1 // Fetch returns an error instead of a stream
	fBreak     = 2 // Recv fails after K%(n+1) blocks
	fMissEmpty = 3 // masked IDs are answered with an empty block (a real store's "not found")
	fMissSkip  = 4 // masked IDs are not answered at all
	fExtraDup  = 5 // after masked positions an already sent block is sent again
	fExtraFor  = 6 // before masked positions (bit n: at the end) a block that was not requested
	fReorder   = 7 // K%3: 0 reversed, 1 two neighbours swapped, 2 rotated
	nFetch     = 8
)

var searchName = [nSearch]string{"ok", "error", "error_plain", "wants_old", "wants_old_legacy_error", "too_many_fractions", "too_many_unique", "too_many_unique_legacy_error"}
var fetchName = [nFetch]string{"ok", "open_error", "break_after_k", "missing_empty_block", "missing_skipped", "extra_duplicate", "extra_unrequested", "reordered"}

type Host struct {
	S int `json:"s"`
	// Code: which error an erring Search call answers with (sErr: index into errCodes, a gRPC
	// status; sErrPlain: index into plainErrs).  The proxy treats every error of a replica alike:
	// the next replica is asked; a shard none of whose replicas answered makes the result partial.
	Code int    `json:"code,omitempty"`
	F    int    `json:"f,omitempty"`
	K    int    `json:"k,omitempty"`
	Mask uint32 `json:"mask,omitempty"`
}

type Tier struct {
	Hosts   [][]Host       `json:"hosts"`   // shards x replicas
	Corpora []model.Corpus `json:"corpora"` // one per shard; replicas hold the same corpus
}

type Case struct {
	Hot     Tier `json:"hot"`
	Cold    Tier `json:"cold"`               // no shards: no long-term tier
	HotRead bool `json:"hot_read,omitempty"` // hot tier configured as HotReadStores
	Hints   bool `json:"hints,omitempty"`    // stores return fraction hints with the IDs, as real stores do
	// Shuffle: Config.ShuffleReplicas (--shuffle-replicas): the replicas of a shard are asked in
	// a random order (global math/rand source).  The oracle then uses the order in which the
	// fakes saw the Search calls; replicas never asked count as asked last.
	Shuffle bool `json:"shuffle,omitempty"`
	Docs    bool `json:"docs,omitempty"` // operation: false Search, true Documents (the Fetch API)

	Q         *model.Q `json:"q"`
	Text      string   `json:"text"`
	From      uint64   `json:"from"`
	To        uint64   `json:"to"`
	Asc       bool     `json:"asc,omitempty"`
	Offset    int      `json:"offset"`
	Size      int      `json:"size"`
	WithTotal bool     `json:"with_total,omitempty"`
	Fetch     bool     `json:"fetch,omitempty"`
	Explain   bool     `json:"explain,omitempty"`

	IDs      []model.ID `json:"ids,omitempty"` // Documents: the requested IDs
	Excluded int        `json:"excluded,omitempty"`
}

// ---------------------------------------------------------------- generator

func genDocs(t *rapid.T, n int, spread uint64, known *[]model.Doc, seen map[model.ID]bool, copyPct int) model.Corpus {
	c := make(model.Corpus, 0, n)
	local := map[model.ID]bool{}
	for i := 0; i < n; i++ {
		if copyPct > 0 && len(*known) > 0 && rapid.IntRange(0, 99).Draw(t, "copy") < copyPct {
			d := (*known)[rapid.IntRange(0, len(*known)-1).Draw(t, "copyof")]
			if !local[d.ID] {
				local[d.ID] = true
				c = append(c, d)
				continue
			}
		}
		id := model.ID{
			MID: gen.BaseMID + rapid.Uint64Range(0, spread-1).Draw(t, "mid"),
			RID: rapid.Uint64Range(0, 7).Draw(t, "rid"),
		}
		if rapid.IntRange(0, 7).Draw(t, "ridwide") == 7 {
			id.RID = rapid.Uint64().Draw(t, "rid64")
		}
		for seen[id] {
			id.RID++
		}
		seen[id] = true
		local[id] = true
		d := model.Doc{ID: id, Body: gen.Body(t, len(seen), 12), Toks: gen.DocTokens(t)}
		*known = append(*known, d)
		c = append(c, d)
	}
	return c
}

func genSearchOutcome(t *rapid.T, okPct int, mode int) int {
	if mode == 1 && rapid.IntRange(0, 3).Draw(t, "aged") != 0 {
		// the request reaches behind the hot tier's retention: most hot stores refuse it
		if rapid.IntRange(0, 4).Draw(t, "legacy") == 4 {
			return sWantsOldErr
		}
		return sWantsOld
	}
	u := rapid.IntRange(0, 99).Draw(t, "s")
	if u < okPct {
		return sOK
	}
	k := rapid.IntRange(0, 19).Draw(t, "skind")
	switch {
	case mode == 4 && k < 12:
		if k >= 5 { // "all kinds": more than half of the failing hosts answer with a code
			return []int{sWantsOld, sTooManyFrac, sTooManyUniq, sWantsOld, sTooManyFrac, sWantsOldErr, sTooManyFrac}[k-5]
		}
		return sErr
	case k < 10:
		return sErr
	case k < 12:
		return sErrPlain
	}
	// the special answers short-circuit the whole request; a per-case mode keeps them from
	// dominating every large topology
	switch mode {
	case 0, 1:
		return sErr
	case 2:
		return sTooManyFrac
	case 3:
		return []int{sTooManyUniq, sTooManyUniq, sTooManyUniqEr, sTooManyUniq}[k%4]
	}
	return []int{sWantsOld, sWantsOldErr, sTooManyFrac, sTooManyUniq, sTooManyUniqEr, sWantsOld, sTooManyFrac, sTooManyUniq}[k-12]
}

func genTier(t *rapid.T, shards, reps int, okPct, mode, fetchFaultPct int) [][]Host {
	out := make([][]Host, shards)
	for s := range out {
		out[s] = make([]Host, reps)
		for r := range out[s] {
			h := Host{S: genSearchOutcome(t, okPct, mode)}
			switch h.S {
			case sErr:
				h.Code = rapid.IntRange(0, len(errCodes)-1).Draw(t, "errcode")
			case sErrPlain:
				h.Code = rapid.IntRange(0, len(plainErrs)-1).Draw(t, "plainerr")
			}
			if rapid.IntRange(0, 99).Draw(t, "f") < fetchFaultPct {
				h.F = rapid.IntRange(1, nFetch-1).Draw(t, "fkind")
				h.K = rapid.IntRange(0, 12).Draw(t, "k")
				h.Mask = rapid.Uint32Range(1, 0xffff).Draw(t, "mask")
			}
			out[s][r] = h
		}
	}
	return out
}

func genCase(t *rapid.T) Case {
	var c Case
	c.Docs = rapid.IntRange(0, 4).Draw(t, "op") == 4
	hs := rapid.IntRange(1, 3).Draw(t, "hot_shards")
	hr := rapid.IntRange(1, 3).Draw(t, "hot_replicas")
	mode := []int{0, 0, 0, 1, 1, 2, 3, 4, 4}[rapid.IntRange(0, 8).Draw(t, "mode")]
	cs := []int{0, 0, 1, 2, 3}[rapid.IntRange(0, 4).Draw(t, "cold_shards")]
	if mode == 1 && cs == 0 {
		cs = rapid.IntRange(0, 3).Draw(t, "cold_shards_aged")
	}
	cr := 1
	if cs > 0 {
		cr = rapid.IntRange(1, 3).Draw(t, "cold_replicas")
	}
	c.HotRead = rapid.IntRange(0, 5).Draw(t, "hot_read") == 5
	c.Hints = rapid.Bool().Draw(t, "hints")
	c.Shuffle = rapid.IntRange(0, 2).Draw(t, "shuffle") == 2
	okPct := []int{90, 70, 50, 30}[rapid.IntRange(0, 3).Draw(t, "failrate")]
	ffp := []int{0, 25, 50, 80}[rapid.IntRange(0, 3).Draw(t, "fetchfaults")]
	c.Hot.Hosts = genTier(t, hs, hr, okPct, mode, ffp)
	coldMode := mode
	if mode == 1 {
		// a long-term store does not refuse old data unless the case asks for every kind
		coldMode = 0
	}
	c.Cold.Hosts = genTier(t, cs, cr, okPct, coldMode, ffp)
	if cs == 0 {
		c.Cold.Hosts = nil
	}

	// corpora: IDs pairwise distinct over the whole case unless a document is copied
	spread := []uint64{1, 3, 20, 1000, 100_000}[rapid.IntRange(0, 4).Draw(t, "spread")]
	overlap := 0
	if rapid.IntRange(0, 7).Draw(t, "overlap") == 7 {
		overlap = 25
	}
	var known []model.Doc
	seen := map[model.ID]bool{}
	for s := 0; s < hs; s++ {
		n := rapid.IntRange(0, 10).Draw(t, "ndocs")
		c.Hot.Corpora = append(c.Hot.Corpora, genDocs(t, n, spread, &known, seen, overlap))
	}
	coldCopy := []int{0, 40}[rapid.IntRange(0, 1).Draw(t, "cold_has_hot")]
	for s := 0; s < cs; s++ {
		n := rapid.IntRange(0, 9).Draw(t, "ndocs")
		c.Cold.Corpora = append(c.Cold.Corpora, genDocs(t, n, spread, &known, seen, coldCopy))
	}

	// request
	// the fakes evaluate the generated tree, not the text: what matters here is that the
	// matching set differs between shards and is rarely empty
	switch rapid.IntRange(0, 9).Draw(t, "qkind") {
	case 0, 1, 2:
		c.Q = model.All()
	case 3, 4, 5:
		c.Q = model.Lit("_exists_", model.Exact([]string{"svc", "lvl", "trace", "msg", "num"}[rapid.IntRange(0, 4).Draw(t, "exists")]))
	case 6, 7:
		c.Q = model.Not(gen.Atom(t))
	default:
		c.Q = gen.Query(t, 3)
	}
	c.Text = model.RenderSeqQL(c.Q, gen.Style(t))
	c.From, c.To = 0, gen.BaseMID*2
	if rapid.Bool().Draw(t, "narrow") {
		c.From, c.To = gen.TimeRange(t, model.Corpus(known))
	}
	c.Asc = rapid.Bool().Draw(t, "asc")
	switch rapid.IntRange(0, 9).Draw(t, "offkind") {
	case 7, 8:
		c.Offset = rapid.IntRange(1, 4).Draw(t, "offset")
	case 9:
		c.Offset = rapid.IntRange(5, 30).Draw(t, "offset")
	}
	switch rapid.IntRange(0, 15).Draw(t, "sizekind") {
	case 0, 1:
		c.Size = 100
	case 2, 3:
		c.Size = 1
	case 15:
		c.Size = 0
	default:
		c.Size = rapid.IntRange(2, 12).Draw(t, "size")
	}
	c.WithTotal = rapid.Bool().Draw(t, "withtotal")
	c.Fetch = rapid.IntRange(0, 5).Draw(t, "fetch") != 5
	c.Explain = rapid.IntRange(0, 7).Draw(t, "explain") == 7

	if c.Docs {
		// requested IDs: stored anywhere, plus IDs nobody holds; pairwise distinct, caller's order
		n := rapid.IntRange(1, 8).Draw(t, "nids")
		used := map[model.ID]bool{}
		for i := 0; i < n; i++ {
			var id model.ID
			if len(known) > 0 && rapid.IntRange(0, 5).Draw(t, "absent") != 5 {
				id = known[rapid.IntRange(0, len(known)-1).Draw(t, "doc")].ID
			} else {
				id = model.ID{MID: gen.BaseMID + rapid.Uint64Range(0, spread).Draw(t, "amid"), RID: 1_000_000 + uint64(i)}
			}
			if used[id] {
				continue
			}
			used[id] = true
			c.IDs = append(c.IDs, id)
		}
	}
	exclude(&c)
	return c
}

// exclude neutralises, by construction, the triggers of the findings recorded for C16.
func exclude(c *Case) {
	if noExclude {
		return
	}
	foreign := 0
	for _, tier := range []*Tier{&c.Hot, &c.Cold} {
		for s := range tier.Hosts {
			for r := range tier.Hosts[s] {
				h := &tier.Hosts[s][r]
				drop := false
				if excludeHintedUnexpected && c.Hints && !c.Docs && (h.F == fExtraFor || h.F == fExtraDup || h.F == fReorder) {
					drop = true
				}
				if !drop && h.F == fExtraFor {
					foreign++
					if excludeTwoForeign && foreign > 1 {
						drop = true
					}
				}
				if drop {
					*h = Host{S: h.S, Code: h.Code}
					c.Excluded++
				}
			}
		}
	}
}

// ---------------------------------------------------------------- fakes

type sent struct {
	id      model.ID
	payload bool
}

type fetchLog struct {
	tier, shard, rep int
	req              []model.ID
	wire             []sent // what Recv hands out, in order, before the break (if any)
	openErr          bool
}

type world struct {
	mu      sync.Mutex
	c       *Case
	fetches []*fetchLog
	mangled string // a Search request that does not carry the case's query text
	foreign int
	asked   [][3]int // Search calls in arrival order: tier, shard, replica
}

type fake struct {
	storeapi.StoreApiClient // nil: Bulk/Status/async must not be called by the search path
	w                       *world
	tier, shard, rep        int
	h                       Host
	corpus                  model.Corpus
	name                    string
}

var errCodes = []codes.Code{codes.Unavailable, codes.Canceled, codes.DeadlineExceeded, codes.InvalidArgument, codes.Internal,
	codes.ResourceExhausted, codes.NotFound, codes.Unknown, codes.Aborted, codes.Unimplemented, codes.PermissionDenied, codes.FailedPrecondition}
var plainErrs = []error{errors.New("scripted plain failure"), context.Canceled, context.DeadlineExceeded, io.EOF, io.ErrUnexpectedEOF}

var tierName = [2]string{"hot", "cold"}

func hostName(tier, s, r int) string { return fmt.Sprintf("%s-s%d-r%d:9002", tierName[tier], s, r) }

func (f *fake) Search(ctx context.Context, in *storeapi.SearchRequest, _ ...grpc.CallOption) (*storeapi.SearchResponse, error) {
	if ctx.Err() != nil {
		return nil, status.FromContextError(ctx.Err()).Err()
	}
	f.w.mu.Lock()
	f.w.asked = append(f.w.asked, [3]int{f.tier, f.shard, f.rep})
	f.w.mu.Unlock()
	switch f.h.S {
	case sErr:
		return nil, status.Error(errCodes[f.h.Code%len(errCodes)], "scripted failure of "+f.name)
	case sErrPlain:
		return nil, fmt.Errorf("%s: %w", f.name, plainErrs[f.h.Code%len(plainErrs)])
	case sWantsOld:
		return &storeapi.SearchResponse{Code: storeapi.SearchErrorCode_INGESTOR_QUERY_WANTS_OLD_DATA}, nil
	case sWantsOldErr:
		return nil, status.Error(codes.Internal, consts.ErrIngestorQueryWantsOldData.Error())
	case sTooManyFrac:
		return &storeapi.SearchResponse{Code: storeapi.SearchErrorCode_TOO_MANY_FRACTIONS_HIT}, nil
	case sTooManyUniq:
		return &storeapi.SearchResponse{Code: storeapi.SearchErrorCode_TOO_MANY_UNIQ_VALUES}, nil
	case sTooManyUniqEr:
		return nil, status.Error(codes.Internal, consts.ErrTooManyUniqValues.Error())
	}
	if in.Query != f.w.c.Text {
		f.w.mu.Lock()
		f.w.mangled = in.Query
		f.w.mu.Unlock()
		return nil, status.Error(codes.InvalidArgument, "scripted: unexpected query text")
	}
	if in.From < 0 || in.To < 0 || in.Size < 0 || in.Offset < 0 {
		return nil, status.Error(codes.InvalidArgument, "scripted: negative request field")
	}
	r := model.Search(f.corpus, &model.SearchReq{
		Q: f.w.c.Q, From: uint64(in.From), To: uint64(in.To), Asc: in.Order == storeapi.Order_ORDER_ASC,
		Limit: int(in.Size + in.Offset), WithTotal: in.WithTotal,
	})
	resp := &storeapi.SearchResponse{Total: r.Total}
	for _, id := range r.IDs {
		e := &storeapi.SearchResponse_IdWithHint{Id: &storeapi.SearchResponse_Id{Mid: id.MID, Rid: id.RID}}
		if f.w.c.Hints {
			e.Hint = "seq-db-frac-of-" + f.name
		}
		resp.IdSources = append(resp.IdSources, e)
	}
	return resp, nil
}

type fstream struct {
	grpc.ClientStream
	blocks  [][]byte
	pos     int
	breakAt int // -1: ends with io.EOF
}

func (s *fstream) Recv() (*storeapi.BinaryData, error) {
	if s.breakAt >= 0 && s.pos >= s.breakAt {
		return nil, status.Error(codes.Unavailable, "scripted: fetch stream broke")
	}
	if s.pos >= len(s.blocks) {
		return nil, io.EOF
	}
	b := s.blocks[s.pos]
	s.pos++
	return &storeapi.BinaryData{Data: b}, nil
}

func packBlock(id model.ID, body []byte) []byte {
	b := disk.PackDocBlock(body, nil)
	b.SetExt1(id.MID)
	b.SetExt2(id.RID)
	return b
}

type wireDoc struct {
	id   model.ID
	body []byte
}

func masked(mask uint32, i int) bool { return mask>>(uint(i)%16)&1 != 0 }

func (f *fake) Fetch(ctx context.Context, in *storeapi.FetchRequest, _ ...grpc.CallOption) (storeapi.StoreApi_FetchClient, error) {
	lg := &fetchLog{tier: f.tier, shard: f.shard, rep: f.rep}
	f.w.mu.Lock()
	f.w.fetches = append(f.w.fetches, lg)
	f.w.mu.Unlock()
	if ctx.Err() != nil {
		lg.openErr = true
		return nil, status.FromContextError(ctx.Err()).Err()
	}
	// like storeapi.extractIDs
	var strs []string
	if len(in.IdsWithHints) != 0 {
		for _, e := range in.IdsWithHints {
			strs = append(strs, e.Id)
		}
	} else {
		strs = in.Ids
	}
	for _, s := range strs {
		id, err := seq.FromString(s)
		if err != nil {
			lg.openErr = true
			return nil, status.Error(codes.InvalidArgument, "scripted: wrong doc id "+s)
		}
		lg.req = append(lg.req, model.ID{MID: uint64(id.MID), RID: uint64(id.RID)})
	}
	if f.h.F == fOpenErr {
		lg.openErr = true
		return nil, status.Error(codes.Unavailable, "scripted: fetch refused by "+f.name)
	}
	idx := f.corpus.Index()
	base := make([]wireDoc, 0, len(lg.req))
	for _, id := range lg.req {
		var body []byte
		if d, ok := idx[id]; ok {
			body = d.Body
		}
		base = append(base, wireDoc{id, body})
	}
	n := len(base)
	wire := base
	breakAt := -1
	requested := map[model.ID]bool{}
	for _, id := range lg.req {
		requested[id] = true
	}
	foreignDoc := func(i int) wireDoc {
		// odd K: a stored document of this host that was not asked for; otherwise (or when
		// there is none) a document with an ID from a reserved range
		if f.h.K%2 == 1 {
			for j := range f.corpus {
				d := f.corpus[(i+j)%len(f.corpus)]
				if !requested[d.ID] {
					return wireDoc{d.ID, d.Body}
				}
			}
		}
		f.w.mu.Lock()
		f.w.foreign++
		k := f.w.foreign
		f.w.mu.Unlock()
		return wireDoc{model.ID{MID: gen.BaseMID + 50_000_000 + uint64(k), RID: uint64(f.tier*100 + f.shard*10 + f.rep)},
			[]byte(fmt.Sprintf(`{"unrequested":%d,"from":%q}`, k, f.name))}
	}
	switch f.h.F {
	case fBreak:
		breakAt = f.h.K % (n + 1)
	case fMissEmpty:
		wire = nil
		for i, d := range base {
			if masked(f.h.Mask, i) {
				d.body = nil
			}
			wire = append(wire, d)
		}
	case fMissSkip:
		wire = nil
		for i, d := range base {
			if !masked(f.h.Mask, i) {
				wire = append(wire, d)
			}
		}
	case fExtraDup:
		wire = nil
		for i, d := range base {
			wire = append(wire, d)
			if masked(f.h.Mask, i) {
				wire = append(wire, base[(i*7+f.h.K)%(i+1)])
			}
		}
	case fExtraFor:
		wire = nil
		for i := 0; i <= n; i++ {
			if masked(f.h.Mask, i) {
				wire = append(wire, foreignDoc(i))
			}
			if i < n {
				wire = append(wire, base[i])
			}
		}
	case fReorder:
		wire = append([]wireDoc(nil), base...)
		if n >= 2 {
			switch f.h.K % 3 {
			case 0:
				for i, j := 0, n-1; i < j; i, j = i+1, j-1 {
					wire[i], wire[j] = wire[j], wire[i]
				}
			case 1:
				i := int(f.h.Mask) % (n - 1)
				wire[i], wire[i+1] = wire[i+1], wire[i]
			default:
				k := 1 + int(f.h.Mask)%(n-1)
				wire = append(append([]wireDoc(nil), base[k:]...), base[:k]...)
			}
		}
	}
	st := &fstream{breakAt: breakAt}
	for i, d := range wire {
		st.blocks = append(st.blocks, packBlock(d.id, d.body))
		if breakAt < 0 || i < breakAt {
			lg.wire = append(lg.wire, sent{d.id, len(d.body) > 0})
		}
	}
	return st, nil
}

// delivers: the host put the document of its request entry i on the wire, with its bytes, at
// a place where a position-ordered consumer still waits for it: the first block carrying that
// ID has a payload and no block before it belongs to a later request entry.  (Unrequested
// blocks and repetitions of earlier entries before it do not count against it - the proxy is
// written to skip those.)
func (l *fetchLog) delivers(i int) bool {
	pos := map[model.ID]int{}
	for j, id := range l.req {
		if _, ok := pos[id]; !ok {
			pos[id] = j
		}
	}
	want := l.req[i]
	for _, s := range l.wire {
		if s.id == want {
			return s.payload
		}
		if j, ok := pos[s.id]; ok && j > i {
			return false
		}
	}
	return false
}

// ---------------------------------------------------------------- oracle helpers

type shardSim struct {
	kind    int // 0 answered, 1 every replica failed, 2 wants-old, 3 too-many-fractions, 4 too-many-unique
	replica int
}

const (
	kAnswered = iota
	kFailed
	kWantsOld
	kTooManyFrac
	kTooManyUniq
)

// replicaOrder: the order in which the replicas of a shard count as asked - configured
// order, or with shuffled replicas the observed one followed by the replicas never asked.
func replicaOrder(c *Case, w *world, ti, s, n int) []int {
	var order []int
	seen := make([]bool, n)
	if c.Shuffle && w != nil {
		w.mu.Lock()
		for _, a := range w.asked {
			if a[0] == ti && a[1] == s && !seen[a[2]] {
				seen[a[2]] = true
				order = append(order, a[2])
			}
		}
		w.mu.Unlock()
	}
	for r := 0; r < n; r++ {
		if !seen[r] {
			order = append(order, r)
		}
	}
	return order
}

func simShard(hosts []Host, order []int) shardSim {
	for _, r := range order {
		h := hosts[r]
		switch h.S {
		case sOK:
			return shardSim{kAnswered, r}
		case sErr, sErrPlain:
			continue
		case sWantsOld, sWantsOldErr:
			return shardSim{kWantsOld, r}
		case sTooManyFrac:
			return shardSim{kTooManyFrac, r}
		case sTooManyUniq, sTooManyUniqEr:
			return shardSim{kTooManyUniq, r}
		}
	}
	return shardSim{kFailed, -1}
}

type outcome struct {
	name    string
	fatal   bool
	errIs   error // fatal: identity the API relies on (nil: any error)
	tier    int
	shards  []int // result: the shards that had an answering replica
	partial bool
}

// tierOutcomes lists what a search over one tier may legitimately produce.  wantsOld is
// reported separately because the caller decides what follows from it.
func tierOutcomes(c *Case, w *world, ti int, t *Tier) (outs []outcome, wantsOld bool, sims []shardSim) {
	var answering []int
	frac := false
	for s := range t.Hosts {
		sim := simShard(t.Hosts[s], replicaOrder(c, w, ti, s, len(t.Hosts[s])))
		sims = append(sims, sim)
		switch sim.kind {
		case kAnswered:
			answering = append(answering, s)
		case kWantsOld:
			wantsOld = true
		case kTooManyFrac:
			frac = true
		}
	}
	if frac {
		outs = append(outs, outcome{name: "fatal:" + tierName[ti] + "_too_many_fractions", fatal: true, errIs: consts.ErrTooManyFractionsHit})
	}
	if frac || wantsOld {
		return outs, wantsOld, sims
	}
	if len(answering) == 0 {
		outs = append(outs, outcome{name: "fatal:" + tierName[ti] + "_every_shard_failed", fatal: true})
		return outs, false, sims
	}
	o := outcome{tier: ti, shards: answering, partial: len(answering) < len(t.Hosts)}
	if o.partial {
		o.name = "result:" + tierName[ti] + "_partial"
	} else {
		o.name = "result:" + tierName[ti] + "_complete"
	}
	return append(outs, o), false, sims
}

func admissible(c *Case, w *world) ([]outcome, [2][]shardSim) {
	var sims [2][]shardSim
	outs, wants, hs := tierOutcomes(c, w, 0, &c.Hot)
	sims[0] = hs
	if wants {
		if len(c.Cold.Hosts) == 0 {
			outs = append(outs, outcome{name: "fatal:wants_old_no_cold_tier", fatal: true, errIs: consts.ErrIngestorQueryWantsOldData})
		} else {
			co, cw, cs := tierOutcomes(c, w, 1, &c.Cold)
			sims[1] = cs
			if cw {
				co = append(co, outcome{name: "fatal:cold_wants_old", fatal: true, errIs: consts.ErrIngestorQueryWantsOldData})
			}
			outs = append(outs, co...)
		}
	}
	return outs, sims
}

func (c *Case) tier(ti int) *Tier {
	if ti == 0 {
		return &c.Hot
	}
	return &c.Cold
}

func expectedPage(c *Case, o outcome) []model.ID {
	var union model.Corpus
	for _, s := range o.shards {
		union = append(union, c.tier(o.tier).Corpora[s]...)
	}
	r := model.Search(union, &model.SearchReq{Q: c.Q, From: c.From, To: c.To, Asc: c.Asc, Limit: c.Offset + c.Size})
	if len(r.IDs) <= c.Offset {
		return nil
	}
	return r.IDs[c.Offset:]
}

func fmtIDs(ids []model.ID) string {
	var b strings.Builder
	for i, id := range ids {
		if i > 0 {
			b.WriteByte(' ')
		}
		fmt.Fprintf(&b, "%d/%d", id.MID-gen.BaseMID, id.RID)
	}
	return "[" + b.String() + "]"
}

func checkCase(c *Case) error {
	check := func(name string, t *Tier, min int) error {
		if len(t.Hosts) < min || len(t.Hosts) > 3 || len(t.Corpora) != len(t.Hosts) {
			return fmt.Errorf("%s: %d shards, %d corpora", name, len(t.Hosts), len(t.Corpora))
		}
		for _, sh := range t.Hosts {
			if len(sh) < 1 || len(sh) > 3 || len(sh) != len(t.Hosts[0]) {
				return fmt.Errorf("%s: replica counts must be uniform and 1..3", name)
			}
			for _, h := range sh {
				if h.S < 0 || h.S >= nSearch || h.F < 0 || h.F >= nFetch || h.K < 0 {
					return fmt.Errorf("%s: behaviour out of range", name)
				}
			}
		}
		return nil
	}
	if err := check("hot", &c.Hot, 1); err != nil {
		return err
	}
	if err := check("cold", &c.Cold, 0); err != nil {
		return err
	}
	if c.Q == nil || c.Offset < 0 || c.Size < 0 || c.From > c.To || c.To > 1<<62 {
		return fmt.Errorf("request out of range")
	}
	// one ID, one document: copies on several shards carry the same bytes
	bodies := map[model.ID][]byte{}
	for _, t := range []*Tier{&c.Hot, &c.Cold} {
		for _, cp := range t.Corpora {
			local := map[model.ID]bool{}
			for _, d := range cp {
				if local[d.ID] {
					return fmt.Errorf("duplicate ID inside a shard")
				}
				local[d.ID] = true
				if b, ok := bodies[d.ID]; ok && !bytes.Equal(b, d.Body) {
					return fmt.Errorf("one ID with two bodies")
				}
				if len(d.Body) == 0 {
					return fmt.Errorf("empty document")
				}
				bodies[d.ID] = d.Body
			}
		}
	}
	seen := map[model.ID]bool{}
	for _, id := range c.IDs {
		if seen[id] {
			return fmt.Errorf("requested IDs must be distinct")
		}
		seen[id] = true
	}
	if c.Docs && len(c.IDs) == 0 {
		return fmt.Errorf("documents request without IDs")
	}
	return nil
}

// ---------------------------------------------------------------- run

func runCase(c Case) (evid.Result, error) {
	res := evid.Result{Excluded: c.Excluded}
	if err := checkCase(&c); err != nil {
		return res, evid.Failf("bad_case", "%v", err)
	}
	w := &world{c: &c}
	clients := map[string]storeapi.StoreApiClient{}
	var tiers [2]*stores.Stores
	bodies := map[model.ID][]byte{}
	overlap := false
	for ti, t := range []*Tier{&c.Hot, &c.Cold} {
		st := &stores.Stores{Shards: [][]string{}, Vers: []string{}}
		for s, sh := range t.Hosts {
			var hosts []string
			for r, h := range sh {
				name := hostName(ti, s, r)
				hosts = append(hosts, name)
				clients[name] = &fake{w: w, tier: ti, shard: s, rep: r, h: h, corpus: t.Corpora[s], name: name}
			}
			st.Shards = append(st.Shards, hosts)
			st.Vers = append(st.Vers, "")
			for _, d := range t.Corpora[s] {
				if _, dup := bodies[d.ID]; dup && ti == 0 {
					overlap = true
				}
				bodies[d.ID] = d.Body
			}
		}
		tiers[ti] = st
	}
	cfg := search.Config{
		HotStores: tiers[0], HotReadStores: &stores.Stores{Shards: [][]string{}}, ReadStores: tiers[1], WriteStores: tiers[1],
		ShuffleReplicas: c.Shuffle,
	}
	if c.HotRead {
		cfg.HotStores, cfg.HotReadStores = &stores.Stores{Shards: [][]string{}}, tiers[0]
	}
	ing := search.NewIngestor(cfg, clients)

	labels := map[string]bool{}
	labels[fmt.Sprintf("hot=%dx%d", len(c.Hot.Hosts), len(c.Hot.Hosts[0]))] = true
	if len(c.Cold.Hosts) > 0 {
		labels[fmt.Sprintf("cold=%dx%d", len(c.Cold.Hosts), len(c.Cold.Hosts[0]))] = true
	} else {
		labels["cold=none"] = true
	}
	if c.Hints {
		labels["store_hints"] = true
	}
	if c.Shuffle {
		labels["shuffled_replicas"] = true
	}
	if overlap {
		labels["doc_on_two_hot_shards"] = true
	}
	nontrivial := false
	var err error
	func() {
		// the one panic this check knows by name gets its own signature (site included), so
		// that recording it as a known finding cannot hide any other panic
		defer func() {
			if p := recover(); p != nil {
				if s, ok := p.(string); ok && s == "attempt to compare unknown IDSources" {
					st := string(debug.Stack())
					site := "two_way_merge"
					if i := strings.Index(st, "lessFuncPosBased.func1"); i >= 0 && strings.Contains(firstFrameAfter(st[i:]), "mergedStreamIterator") {
						site = "hinted_request_entry"
					}
					err = evid.Failf("panic_unknown_idsources:"+site, "panic(%q) in proxy/search (%s)", s, site)
					return
				}
				panic(p)
			}
		}()
		if c.Docs {
			labels["op=documents"] = true
			nontrivial, err = runDocuments(&c, w, ing, bodies, labels, &res)
		} else {
			labels["op=search"] = true
			nontrivial, err = runSearch(&c, w, ing, bodies, labels, &res)
			if err == nil {
				err = exportPass(&c, w, ing, labels, &res)
			}
		}
	}()
	if err != nil {
		return res, err
	}
	if nontrivial {
		labels["nontrivial"] = true
	}
	for l := range labels {
		res.Labels = append(res.Labels, l)
	}
	sort.Strings(res.Labels)
	res.NonTrivial = nontrivial
	return res, nil
}

// firstFrameAfter returns the function line of the stack frame that follows the first one.
// exportPass: the same search through the proxy's Export API (proxyapi/grpc_export.go, built
// in-process over the same ingestor and fakes).  ExportResponse carries documents only, so the
// one way to flag an incomplete export is the status the stream ends with: when the only
// admissible outcome of the search is a partial result the export must not end with OK; when it
// is a complete result the export ends with OK and streams exactly the page's documents.
// Exports use the default (descending) order; replica shuffling is left out because the two
// runs could meet the replicas in different orders.
type exportStream struct {
	grpc.ServerStream
	ids []model.ID
}

func (s *exportStream) Context() context.Context { return context.Background() }
func (s *exportStream) Send(r *seqproxyapi.ExportResponse) error {
	id, err := seq.FromString(r.GetDoc().GetId())
	if err != nil {
		return err
	}
	s.ids = append(s.ids, model.ID{MID: uint64(id.MID), RID: uint64(id.RID)})
	return nil
}

type allowAll struct{}

func (allowAll) Account(string) bool { return true }

func exportPass(c *Case, w *world, ing *search.Ingestor, labels map[string]bool, res *evid.Result) error {
	if c.Asc || c.Shuffle || c.To > 4_000_000_000_000 || c.Size <= 0 {
		return nil
	}
	outs, _ := admissible(c, w)
	if len(outs) != 1 || outs[0].fatal {
		return nil
	}
	api := proxyapi.VerifNewGrpcV1(proxyapi.APIConfig{SearchTimeout: time.Minute, ExportTimeout: time.Minute}, ing, nil, allowAll{})
	st := &exportStream{}
	err := api.Export(&seqproxyapi.ExportRequest{
		Query:  &seqproxyapi.SearchQuery{Query: c.Text, From: timestamppb.New(time.UnixMilli(int64(c.From))), To: timestamppb.New(time.UnixMilli(int64(c.To)))},
		Size:   int64(c.Size),
		Offset: int64(c.Offset),
	}, st)
	res.Evals++
	if outs[0].partial {
		labels["export:of-a-partial-result"] = true
		if err == nil {
			return evid.Failf("export-hides-partial-response", "Export of %q ended with OK after %d documents although a shard had no answering replica (%s): nothing tells the client that the export is incomplete", c.Text, len(st.ids), outs[0].name)
		}
		return nil
	}
	labels["export:of-a-complete-result"] = true
	if err != nil {
		// as for Search: the fetch stage may fail the request when a store refuses the stream
		_, logs := indexFetches(w)
		for _, l := range logs {
			if l.openErr {
				labels["export:fetch-stream-refused"] = true
				return nil
			}
		}
		return evid.Failf("export-fails-complete-result", "Export of %q failed with %v although every shard answered", c.Text, err)
	}
	if _, logs := indexFetches(w); len(logs) > 0 {
		for _, l := range logs {
			if c.tier(l.tier).Hosts[l.shard][l.rep].F != fOK {
				return nil // a misbehaving fetch stream: which documents arrive is the document clause's business
			}
		}
	}
	if want := expectedPage(c, outs[0]); !model.EqualIDs(st.ids, want) {
		return evid.Failf("export-ids-mismatch", "Export of %q streamed %s, the page is %s", c.Text, fmtIDs(st.ids), fmtIDs(want))
	}
	return nil
}

func firstFrameAfter(st string) string {
	lines := strings.Split(st, "\n")
	if len(lines) > 2 {
		return lines[2]
	}
	return ""
}

// askedFor indexes the fetch log: ID -> (log entry, index in that host's request).
type asked struct {
	l *fetchLog
	i int
}

func indexFetches(w *world) (map[model.ID][]asked, []*fetchLog) {
	w.mu.Lock()
	logs := append([]*fetchLog(nil), w.fetches...)
	w.mu.Unlock()
	sort.SliceStable(logs, func(i, j int) bool {
		a, b := logs[i], logs[j]
		if a.tier != b.tier {
			return a.tier < b.tier
		}
		if a.shard != b.shard {
			return a.shard < b.shard
		}
		return a.rep < b.rep
	})
	m := map[model.ID][]asked{}
	for _, l := range logs {
		for i, id := range l.req {
			m[id] = append(m[id], asked{l, i})
		}
	}
	return m, logs
}

// fetchLabels records which scripted fetch behaviours were really exercised and reports
// whether some stream misbehaved mid-way.
func fetchLabels(c *Case, logs []*fetchLog, labels map[string]bool) (midway bool) {
	for _, l := range logs {
		if len(l.req) == 0 {
			continue
		}
		h := c.tier(l.tier).Hosts[l.shard][l.rep]
		labels["fetch="+fetchName[h.F]] = true
		if h.F >= fBreak {
			midway = true
		}
	}
	n := len(logs)
	if n > 4 {
		n = 4
	}
	labels[fmt.Sprintf("fetch_streams=%d%s", n, map[bool]string{true: "+", false: ""}[len(logs) > 4])] = true
	return midway
}

// checkDoc applies the document clause to one position.
func checkDoc(c *Case, pos int, id model.ID, data []byte, bodies map[model.ID][]byte, who []asked, labels map[string]bool, hintedUnexpected bool) error {
	body := bodies[id]
	if len(data) != 0 && !bytes.Equal(data, body) {
		return evid.Failf("wrong_document", "position %d: ID %s came with bytes %q, its document is %q", pos, fmtIDs([]model.ID{id}), data, body)
	}
	if len(data) != 0 {
		labels["doc=present"] = true
		return nil
	}
	labels["doc=empty"] = true
	if body == nil {
		return nil
	}
	for _, a := range who {
		h := c.tier(a.l.tier).Hosts[a.l.shard][a.l.rep]
		if a.l.openErr || h.F == fReorder {
			continue
		}
		if a.l.delivers(a.i) {
			sig := "document_lost"
			if hintedUnexpected {
				sig = "document_lost:hinted_request_and_unexpected_block"
			}
			return evid.Failf(sig, "position %d: ID %s is empty although %s (fetch behaviour %s) delivered it in order with its bytes",
				pos, fmtIDs([]model.ID{id}), hostName(a.l.tier, a.l.shard, a.l.rep), fetchName[h.F])
		}
	}
	return nil
}

func runSearch(c *Case, w *world, ing *search.Ingestor, bodies map[model.ID][]byte, labels map[string]bool, res *evid.Result) (bool, error) {
	order := seq.DocsOrderDesc
	if c.Asc {
		order = seq.DocsOrderAsc
	}
	sr := &search.SearchRequest{
		Q: []byte(c.Text), Offset: c.Offset, Size: c.Size, From: seq.MID(c.From), To: seq.MID(c.To),
		WithTotal: c.WithTotal, ShouldFetch: c.Fetch, Order: order, Explain: c.Explain,
	}
	qpr, docs, _, err := ing.Search(context.Background(), sr, querytracer.New(false, ""))
	res.Evals++

	w.mu.Lock()
	mangled := w.mangled
	w.mu.Unlock()
	if mangled != "" {
		return false, evid.Failf("query_text_changed", "a store received query %q, the request said %q", mangled, c.Text)
	}
	if err != nil {
		_ = err.Error() // what the API layer does with it; must not panic
	}
	outs, sims := admissible(c, w)
	var names []string
	for _, o := range outs {
		names = append(names, o.name)
	}
	if len(outs) > 1 {
		labels["race_between_error_kinds"] = true
	}
	byIdx, logs := indexFetches(w)

	// shape of the search stage
	for ti := range sims {
		for s, sim := range sims[ti] {
			switch sim.kind {
			case kAnswered:
				if sim.replica > 0 {
					labels["shard:failover_to_later_replica"] = true
				}
			case kFailed:
				labels["shard:every_replica_failed"] = true
			case kWantsOld:
				labels["shard:"+searchName[c.tier(ti).Hosts[s][sim.replica].S]] = true
			case kTooManyFrac:
				labels["shard:too_many_fractions"] = true
			case kTooManyUniq:
				labels["shard:"+searchName[c.tier(ti).Hosts[s][sim.replica].S]] = true
			}
		}
	}

	if qpr == nil {
		if err == nil {
			return false, evid.Failf("no_result_no_error", "Search returned neither a result nor an error")
		}
		if errors.Is(err, consts.ErrPartialResponse) {
			return false, evid.Failf("fatal_marked_partial", "Search returned no result but an error that the API treats as a partial response: %v", err)
		}
		for _, o := range outs {
			if o.fatal && (o.errIs == nil || errors.Is(err, o.errIs)) {
				labels["res="+o.name] = true
				return false, nil
			}
		}
		// the fetch stage may fail the request when no asked store opened a stream
		allRefused := len(logs) > 0
		for _, l := range logs {
			if !l.openErr {
				allRefused = false
			}
		}
		if allRefused {
			for _, o := range outs {
				if !o.fatal {
					labels["res=fatal:every_fetch_stream_refused"] = true
					return o.partial, nil
				}
			}
		}
		return false, evid.Failf("fatal_not_allowed", "Search failed with %q; admissible outcomes: %v", err, names)
	}

	if err != nil && !errors.Is(err, consts.ErrPartialResponse) {
		return false, evid.Failf("result_with_foreign_error", "Search returned a result together with error %q", err)
	}
	partial := err != nil
	got := make([]model.ID, len(qpr.IDs))
	for i, id := range qpr.IDs {
		got[i] = model.ID{MID: uint64(id.ID.MID), RID: uint64(id.ID.RID)}
	}
	var match *outcome
	var idsOnly *outcome
	var wants []string
	for i := range outs {
		o := &outs[i]
		if o.fatal {
			continue
		}
		want := expectedPage(c, *o)
		wants = append(wants, o.name+"="+fmtIDs(want))
		if model.EqualIDs(got, want) {
			idsOnly = o
			if o.partial == partial {
				match = o
			}
		}
	}
	if match == nil {
		if idsOnly != nil && !partial {
			return false, evid.Failf("incomplete_presented_as_complete", "Search returned %s without ErrPartialResponse although a shard had no answering replica (%s)", fmtIDs(got), idsOnly.name)
		}
		if idsOnly != nil {
			return false, evid.Failf("complete_marked_partial", "Search returned ErrPartialResponse (%v) although every shard answered", err)
		}
		if len(wants) == 0 {
			return false, evid.Failf("result_instead_of_error", "Search returned %s (partial=%v); admissible outcomes: %v", fmtIDs(got), partial, names)
		}
		return false, evid.Failf("ids_mismatch", "Search returned %s (partial=%v); admissible: %s", fmtIDs(got), partial, strings.Join(wants, " | "))
	}
	labels["res="+match.name] = true
	if len(got) == 0 {
		labels["page=empty"] = true
	} else if len(got) == c.Size {
		labels["page=full"] = true
	} else {
		labels["page=short"] = true
	}
	nontrivial := match.partial

	if docs == nil {
		return false, evid.Failf("nil_docs_stream", "Search returned a result without a document stream")
	}
	if c.Fetch && len(got) > 0 {
		if fetchLabels(c, logs, labels) {
			nontrivial = true
		}
		// the class of the recorded finding: a hinted request and a stream that carries a block
		// the position-ordered consumer has to skip
		hintedUnexpected := false
		for _, l := range logs {
			if f := c.tier(l.tier).Hosts[l.shard][l.rep].F; c.Hints && len(l.req) > 0 && !l.openErr && (f == fExtraDup || f == fExtraFor || f == fReorder) {
				hintedUnexpected = true
			}
		}
		// what proxyapi.makeProtoDocs does: one Next per returned ID, errors ignored
		for i, id := range got {
			d, _ := docs.Next()
			res.Evals++
			who := byIdx[id]
			if len(who) == 0 {
				return false, evid.Failf("document_not_requested", "position %d: ID %s was returned but no store was asked for its document", i, fmtIDs([]model.ID{id}))
			}
			if e := checkDoc(c, i, id, d.Data, bodies, who, labels, hintedUnexpected); e != nil {
				return false, e
			}
			// "its store" is the replica that returned the ID: an empty document is not excused
			// by the inability of some other replica when the one that answered the search was
			// never asked for it and delivers whatever it is asked for
			if len(d.Data) == 0 && bodies[id] != nil {
				var holders []int
				for _, s := range match.shards {
					for _, dd := range c.tier(match.tier).Corpora[s] {
						if dd.ID == id {
							holders = append(holders, s)
							break
						}
					}
				}
				if len(holders) == 1 {
					s, r := holders[0], sims[match.tier][holders[0]].replica
					askedIt := false
					for _, a := range who {
						if a.l.tier == match.tier && a.l.shard == s && a.l.rep == r {
							askedIt = true
						}
					}
					if !askedIt && c.tier(match.tier).Hosts[s][r].F == fOK {
						return false, evid.Failf("document_not_requested_from_its_store", "position %d: ID %s was returned by %s, which delivers every document it is asked for, but its document was requested only from %s and came back empty",
							i, fmtIDs([]model.ID{id}), hostName(match.tier, s, r), hostName(who[0].l.tier, who[0].l.shard, who[0].l.rep))
					}
				}
			}
		}
	}
	return nontrivial, nil
}

func runDocuments(c *Case, w *world, ing *search.Ingestor, bodies map[model.ID][]byte, labels map[string]bool, res *evid.Result) (bool, error) {
	ids := make([]seq.ID, len(c.IDs))
	for i, id := range c.IDs {
		ids[i] = seq.ID{MID: seq.MID(id.MID), RID: seq.RID(id.RID)}
	}
	it, err := ing.Documents(context.Background(), search.FetchRequest{IDs: ids})
	res.Evals++
	byIdx, logs := indexFetches(w)
	if err != nil {
		_ = err.Error()
		for _, l := range logs {
			if !l.openErr {
				return false, evid.Failf("fetch_fatal_not_allowed", "Documents failed with %q although %s opened a stream", err, hostName(l.tier, l.shard, l.rep))
			}
		}
		labels["res=fatal:every_fetch_stream_refused"] = true
		return false, nil
	}
	refused := 0
	for _, l := range logs {
		if l.openErr {
			refused++
		}
	}
	if refused > 0 {
		labels["some_streams_refused"] = true
	}
	midway := fetchLabels(c, logs, labels)
	// what proxyapi Fetch does: send documents until Next reports an error
	var out []search.StreamingDoc
	for n := 0; ; n++ {
		d, e := it.Next()
		if e != nil {
			break
		}
		if n > len(c.IDs)+2 {
			return false, evid.Failf("documents_stream_too_long", "Documents produced more than %d entries for %d requested IDs", n, len(c.IDs))
		}
		out = append(out, d)
	}
	if len(out) != len(c.IDs) {
		return false, evid.Failf("documents_count", "Documents produced %d entries for %d requested IDs", len(out), len(c.IDs))
	}
	for i, d := range out {
		res.Evals++
		id := model.ID{MID: uint64(d.ID.MID), RID: uint64(d.ID.RID)}
		if id != c.IDs[i] {
			return false, evid.Failf("documents_order", "entry %d carries ID %s, requested was %s", i, fmtIDs([]model.ID{id}), fmtIDs([]model.ID{c.IDs[i]}))
		}
		if e := checkDoc(c, i, id, d.Data, bodies, byIdx[id], labels, false); e != nil {
			return false, e
		}
	}
	return midway || refused > 0, nil
}

func TestProp(t *testing.T)   { evid.Check(t, genCase, runCase) }
func TestReplay(t *testing.T) { evid.Replay(t, runCase) }
