// C07: concurrent ingest, search, fetch, sealing and rotation never corrupt readers.
// Randomised concurrent workload under the race detector against one in-process store
// with the real maintenance loop (tiny fractions => many rotations and seals per run) and
// a tiny, constantly evicting cache; verifhook points double as seeded schedule
// perturbation points.  The schedule is not owned by the harness: a failure carries its
// full description but may not reproduce.
package c07

import (
	"fmt"
	"os"
	"runtime"
	"strings"
	"sync"
	"sync/atomic"
	"testing"
	"time"

	"pgregory.net/rapid"

	"github.com/ozontech/seq-db/verifhook"

	"verif/internal/evid"
	"verif/internal/gen"
	"verif/internal/harness"
	"verif/internal/model"
)

type Query struct {
	R     model.SearchReq   `json:"r"`
	Style model.RenderStyle `json:"style"`
	Aggs  []model.AggSpec   `json:"aggs,omitempty"`
}

type Case struct {
	Writers   [][][]int   `json:"writers"` // writer -> bulks -> indices into Docs
	Docs      []model.Doc `json:"docs"`
	Readers   [][]Query   `json:"readers"` // reader -> its query cycle
	FracSize  uint64      `json:"frac_size"`
	MaintMs   int         `json:"maint_ms"`
	CacheSize uint64      `json:"cache_size"`
	Procs     int         `json:"procs"`
	Perturb   uint64      `json:"perturb"` // seed of the schedule perturbation, 0 = none
	SkipSort  bool        `json:"skip_sort"`
	PauseUs   int         `json:"pause_us"` // writers pause this long between bulks (lets the maintenance loop tick)
	// Retention: 0 = off; otherwise the total size limit is this many fraction sizes, so that
	// size-based retention removes the oldest fractions while readers hold fraction lists.
	// The end-of-run completeness checks are then replaced by validity checks (documents of
	// removed fractions are legitimately gone).
	Retention int `json:"retention,omitempty"`
}

func noise(seed, n int) string {
	const abc = "abcdefghijklmnopqrstuvwxyzABCDEFGHIJKLMNOPQRSTUVWXYZ0123456789"
	x := uint64(seed)*6364136223846793005 + 1442695040888963407
	b := make([]byte, n)
	for i := range b {
		x = x*6364136223846793005 + 1442695040888963407
		b[i] = abc[(x>>33)%uint64(len(abc))]
	}
	return string(b)
}

func genCase(t *rapid.T) Case {
	var c Case
	nw := rapid.IntRange(1, 4).Draw(t, "writers")
	nr := rapid.IntRange(1, 4).Draw(t, "readers")
	n := 0
	for w := 0; w < nw; w++ {
		nb := rapid.IntRange(5, 120).Draw(t, "nbulks")
		var bulks [][]int
		for b := 0; b < nb; b++ {
			nd := rapid.IntRange(1, 8).Draw(t, "ndocs")
			var idx []int
			for d := 0; d < nd; d++ {
				pad := rapid.SampledFrom([]int{10, 100, 600}).Draw(t, "pad")
				c.Docs = append(c.Docs, model.Doc{
					ID:   model.ID{MID: gen.BaseMID + uint64(rapid.IntRange(0, 200).Draw(t, "mid")), RID: uint64(n + 1)},
					Body: []byte(fmt.Sprintf(`{"n":%d,"p":"%s"}`, n, noise(n, pad))),
					Toks: gen.DocTokens(t),
				})
				idx = append(idx, n)
				n++
			}
			bulks = append(bulks, idx)
		}
		c.Writers = append(c.Writers, bulks)
	}
	for r := 0; r < nr; r++ {
		nq := rapid.IntRange(1, 4).Draw(t, "nq")
		var qs []Query
		for i := 0; i < nq; i++ {
			q := Query{R: gen.SearchReq(t, nil, 3), Style: gen.Style(t)}
			q.R.From, q.R.To = 0, gen.BaseMID*2
			if rapid.IntRange(0, 2).Draw(t, "narrow") == 2 {
				q.R.From = gen.BaseMID + uint64(rapid.IntRange(0, 100).Draw(t, "from"))
				q.R.To = q.R.From + uint64(rapid.IntRange(0, 150).Draw(t, "span"))
			}
			q.R.Limit = rapid.SampledFrom([]int{50, 5, 1000}).Draw(t, "limit")
			if rapid.IntRange(0, 2).Draw(t, "withaggs") == 2 {
				q.Aggs = gen.AggSpecs(t, 1)
			}
			qs = append(qs, q)
		}
		c.Readers = append(c.Readers, qs)
	}
	c.FracSize = rapid.SampledFrom([]uint64{2 << 10, 6 << 10, 20 << 10}).Draw(t, "fracsize")
	c.Retention = rapid.SampledFrom([]int{0, 0, 0, 8, 12}).Draw(t, "retention")
	c.MaintMs = rapid.SampledFrom([]int{5, 10, 20}).Draw(t, "maint")
	c.CacheSize = rapid.SampledFrom([]uint64{16 << 10, 256 << 10, 64 << 20}).Draw(t, "cache")
	c.Procs = rapid.SampledFrom([]int{16, 2, 4}).Draw(t, "procs")
	c.Perturb = rapid.Uint64Range(0, 1<<30).Draw(t, "perturb")
	c.SkipSort = rapid.Bool().Draw(t, "skipsort")
	c.PauseUs = rapid.SampledFrom([]int{0, 200, 1000}).Draw(t, "pause")
	return c
}

type firstErr struct {
	mu     sync.Mutex
	err    error
	failed atomic.Bool
}

func (f *firstErr) set(e error) {
	f.mu.Lock()
	if f.err == nil {
		f.err = e
		f.failed.Store(true)
	}
	f.mu.Unlock()
}

func (f *firstErr) get() error {
	f.mu.Lock()
	defer f.mu.Unlock()
	return f.err
}

func runCase(c Case) (evid.Result, error) {
	res := evid.Result{}
	old := runtime.GOMAXPROCS(c.Procs)
	defer runtime.GOMAXPROCS(old)
	if c.Perturb != 0 {
		var ctr atomic.Uint64
		verifhook.Set(func(string, ...string) {
			x := (ctr.Add(1) + c.Perturb) * 0x9E3779B97F4A7C15
			switch x >> 60 {
			case 0, 1, 2, 3:
				runtime.Gosched()
			case 4:
				time.Sleep(time.Duration(50+(x>>40)%150) * time.Microsecond)
			}
		})
		defer verifhook.Set(nil)
	}
	dir := evid.ScratchDir("c07")
	opts := harness.StoreOpts{FracSize: c.FracSize, MaintenanceDelay: c.MaintMs, CacheSize: c.CacheSize, SkipSortDocs: c.SkipSort, Workers: 8}
	if c.Retention > 0 {
		// a sane limit: several times what one fraction can grow to (a fraction is rotated when
		// it exceeds FracSize, i.e. it can hold FracSize plus one whole bulk, and its meta and
		// index files are counted as well) - the fraction being written is never removed
		maxBulk := uint64(0)
		for w := range c.Writers {
			for _, b := range c.Writers[w] {
				n := uint64(0)
				for _, di := range b {
					n += uint64(len(c.Docs[di].Body)) + 64*uint64(len(c.Docs[di].Toks)+1)
				}
				maxBulk = max(maxBulk, n)
			}
		}
		opts.TotalSize = uint64(c.Retention) * (c.FracSize + maxBulk*uint64(len(c.Writers)))
	}
	st, err := harness.OpenStore(dir, opts)
	if err != nil {
		return res, err
	}
	closed := false
	defer func() {
		if !closed {
			st.Close()
		}
	}()
	byID := map[model.ID]*model.Doc{}
	state := make([]atomic.Int32, len(c.Docs)) // 0 not sent, 1 being sent, 2 acknowledged
	idxOf := map[model.ID]int{}
	for i := range c.Docs {
		byID[c.Docs[i].ID] = &c.Docs[i]
		idxOf[c.Docs[i].ID] = i
	}
	var fe firstErr
	var stop atomic.Bool
	var wwg, rwg sync.WaitGroup
	for w := range c.Writers {
		wwg.Add(1)
		go func() {
			defer wwg.Done()
			for _, b := range c.Writers[w] {
				if fe.failed.Load() {
					return
				}
				docs := make([]model.Doc, len(b))
				for i, di := range b {
					docs[i] = c.Docs[di]
					state[di].Store(1)
				}
				if err := st.Bulk(docs); err != nil {
					fe.set(evid.Failf("bulk-error", "writer %d: %v", w, err))
					return
				}
				for _, di := range b {
					state[di].Store(2)
				}
				if c.PauseUs > 0 {
					time.Sleep(time.Duration(c.PauseUs) * time.Microsecond)
				}
			}
		}()
	}
	var searches, fetched, byIDFetches atomic.Int64
	for r := range c.Readers {
		rwg.Add(1)
		go func() {
			defer rwg.Done()
			for i := 0; !stop.Load() && !fe.failed.Load(); i++ {
				q := &c.Readers[r][i%len(c.Readers[r])]
				text := model.RenderSeqQL(q.R.Q, q.Style)
				qpr, err := st.Search(&q.R, text, q.Aggs)
				if err != nil {
					fe.set(evid.Failf("search-error", "reader %d %q: %v", r, text, err))
					return
				}
				searches.Add(1)
				ids := harness.FromSeqIDs(qpr.IDs)
				for j, id := range ids {
					if j > 0 {
						prev := ids[j-1]
						if (q.R.Asc && !prev.Less(id)) || (!q.R.Asc && !id.Less(prev)) {
							fe.set(evid.Failf("order-or-duplicate", "reader %d %q: %v then %v (asc=%v)", r, text, prev, id, q.R.Asc))
							return
						}
					}
					d, ok := byID[id]
					if !ok || state[idxOf[id]].Load() == 0 {
						fe.set(evid.Failf("foreign-id", "reader %d %q returned %v which was never submitted", r, text, id))
						return
					}
					if id.MID < q.R.From || id.MID > q.R.To || !model.EvalDoc(q.R.Q, d) {
						fe.set(evid.Failf("non-matching-id", "reader %d %q [%d,%d] returned %v (doc state %d, hint %q) whose tokens %v do not satisfy it", r, text, q.R.From, q.R.To, id, state[idxOf[id]].Load(), qpr.IDs[j].Hint, d.Toks))
						return
					}
				}
				if len(ids) > 12 {
					ids = ids[:12]
				}
				if len(ids) > 0 {
					docs, err := st.Fetch(harness.ToSeqIDs(ids))
					if err != nil {
						fe.set(evid.Failf("fetch-error", "reader %d: %v", r, err))
						return
					}
					for j, id := range ids {
						if c.Retention > 0 && len(docs[j]) == 0 {
							continue // its fraction may have been removed between the search and the fetch
						}
						if !model.EqualBytes(docs[j], byID[id].Body) {
							fe.set(evid.Failf("fetch-differs", "reader %d: id %v just returned by %q fetched as %d bytes %.40q, want %d bytes %.40q", r, id, text, len(docs[j]), docs[j], len(byID[id].Body), byID[id].Body))
							return
						}
					}
					fetched.Add(int64(len(ids)))
				}
				// fetch by id, as the Fetch API allows for any id: documents whose bulk is being
				// written or indexed right now (not necessarily listed by a search yet).  Each
				// comes back with its bytes or not at all; the request must not fail.
				var direct []model.ID
				for k := 0; k < 8 && len(c.Docs) > 0; k++ {
					di := (i*7 + k*13 + r) % len(c.Docs)
					if state[di].Load() >= 1 {
						direct = append(direct, c.Docs[di].ID)
					}
				}
				if len(direct) > 0 {
					docs, err := st.Fetch(harness.ToSeqIDs(direct))
					if err != nil {
						fe.set(evid.Failf("fetch-error:by-id-during-ingest", "reader %d: fetch of %d ids whose bulks are in flight or acknowledged: %v", r, len(direct), err))
						return
					}
					for j, id := range direct {
						if len(docs[j]) != 0 && !model.EqualBytes(docs[j], byID[id].Body) {
							fe.set(evid.Failf("fetch-differs", "reader %d: id %v fetched by id during ingest as %d bytes %.40q, want %d bytes %.40q", r, id, len(docs[j]), docs[j], len(byID[id].Body), byID[id].Body))
							return
						}
					}
					byIDFetches.Add(1)
				}
			}
		}()
	}
	wwg.Wait()
	// let the readers overlap the tail of rotations/seals for a moment, then stop them
	time.Sleep(30 * time.Millisecond)
	stop.Store(true)
	rwg.Wait()
	if err := fe.get(); err != nil {
		return res, err
	}
	st.WaitIdle()
	nfr := len(st.FM.GetAllFracs())
	// quiescence: stop (joins the maintenance loop and all in-flight seals), reopen
	st2, err := st.Restart(&harness.StoreOpts{FracSize: 1 << 40, CacheSize: 64 << 20})
	if err != nil {
		return res, evid.Failf("restart-failed", "%v", err)
	}
	st = st2
	defer func() { closed = true; st.Close() }()
	if c.Retention > 0 {
		// what is still served must be submitted documents with their bytes; what retention
		// removed is gone
		all := &model.SearchReq{Q: model.All(), From: 0, To: gen.BaseMID * 2, Limit: 1 << 20, WithTotal: true}
		qpr, err := st.Search(all, "*", nil)
		if err != nil {
			return res, evid.Failf("search-error", "final *: %v", err)
		}
		got := harness.FromSeqIDs(qpr.IDs)
		for _, id := range got {
			if _, ok := byID[id]; !ok {
				return res, evid.Failf("foreign-id", "final * lists %v which was never submitted", id)
			}
		}
		var docs [][]byte
		if len(got) > 0 {
			if docs, err = st.Fetch(harness.ToSeqIDs(got)); err != nil {
				return res, evid.Failf("fetch-error", "final: %v", err)
			}
		}
		for j, id := range got {
			if !model.EqualBytes(docs[j], byID[id].Body) {
				return res, evid.Failf("final-fetch-differs", "id %v: %d bytes, want %d", id, len(docs[j]), len(byID[id].Body))
			}
		}
		res.Evals += int(searches.Load())
		res.NonTrivial = nfr >= 2 && searches.Load() > 0
		res.Labels = append(res.Labels, "retention-on", fmt.Sprintf("served-at-end:%d%%", 10*(10*len(got)/max(1, len(c.Docs)))))
		return res, nil
	}
	corpus := model.Corpus(c.Docs)
	all := &model.SearchReq{Q: model.All(), From: 0, To: gen.BaseMID * 2, Limit: 1 << 20, WithTotal: true}
	qpr, err := st.Search(all, "*", nil)
	if err != nil {
		return res, evid.Failf("search-error", "final *: %v", err)
	}
	want := model.Search(corpus, all)
	if got := harness.FromSeqIDs(qpr.IDs); !model.EqualIDs(got, want.IDs) || qpr.Total != want.Total {
		return res, evid.Failf("final-differs", "after quiescence * lists %d ids (total %d), sequential ingestion gives %d", len(got), qpr.Total, len(want.IDs))
	}
	for r := range c.Readers {
		for i := range c.Readers[r] {
			q := &c.Readers[r][i]
			text := model.RenderSeqQL(q.R.Q, q.Style)
			w := model.Search(corpus, &q.R)
			qpr, err := st.Search(&q.R, text, q.Aggs)
			if err != nil {
				return res, evid.Failf("search-error", "final %q: %v", text, err)
			}
			if got := harness.FromSeqIDs(qpr.IDs); !model.EqualIDs(got, w.IDs) {
				return res, evid.Failf("final-differs", "after quiescence %q: got %d ids, want %d", text, len(got), len(w.IDs))
			}
			if len(q.Aggs) > 0 {
				matching := model.Matching(corpus.Dedup(), &q.R)
				ares := qpr.Aggregate(harness.AggArgs(q.Aggs))
				for ai, spec := range q.Aggs {
					wa, err := model.Agg(matching, spec)
					if err != nil {
						return res, err
					}
					if err := harness.CompareAgg(ares[ai], wa, spec); err != nil {
						return res, evid.Failf("final-agg-differs", "%q agg %+v: %v", text, spec, err)
					}
				}
			}
			res.Evals++
		}
	}
	ids := make([]model.ID, 0, len(c.Docs))
	for _, d := range c.Docs {
		ids = append(ids, d.ID)
	}
	docs, err := st.Fetch(harness.ToSeqIDs(ids))
	if err != nil {
		return res, evid.Failf("fetch-error", "final: %v", err)
	}
	for j, id := range ids {
		if !model.EqualBytes(docs[j], byID[id].Body) {
			return res, evid.Failf("final-fetch-differs", "id %v: %d bytes, want %d", id, len(docs[j]), len(byID[id].Body))
		}
	}
	res.Evals += int(searches.Load())
	res.NonTrivial = nfr >= 4 && searches.Load() > 0
	res.Labels = append(res.Labels, fmt.Sprintf("procs=%d", c.Procs), fmt.Sprintf("writers=%d", len(c.Writers)), fmt.Sprintf("readers=%d", len(c.Readers)))
	switch {
	case nfr >= 20:
		res.Labels = append(res.Labels, "rotations>=20")
	case nfr >= 4:
		res.Labels = append(res.Labels, "rotations>=3")
	}
	if byIDFetches.Load() > 0 {
		res.Labels = append(res.Labels, "fetched-by-id-during-ingest")
	}
	if fetched.Load() > 0 {
		res.Labels = append(res.Labels, "fetched-in-flight")
	}
	return res, nil
}

func TestProp(t *testing.T)   { evid.Check(t, genCase, runCase) }
func TestReplay(t *testing.T) { evid.Replay(t, runCase) }

var _ = strings.Repeat
var _ = os.Remove
