package c07

// Family 2: one fixed interleaving of a request with retention.  Every search and fetch takes
// the list of fractions first (FracManager.GetAllFracs) and works on it afterwards; "accessing
// the deleted fraction's data just returns an empty result", says the comment there.  Here the
// harness owns that schedule: the list is taken, a maintenance pass with the size limit just
// below what is stored removes the oldest fractions, and then the search and the fetch run on
// the list taken before.  They must answer - with documents of surviving fractions only, each
// valid and with its bytes - and must not panic.

import (
	"context"
	"fmt"
	"math"
	"sync/atomic"
	"testing"
	"time"

	"pgregory.net/rapid"

	"github.com/ozontech/seq-db/frac/processor"
	"github.com/ozontech/seq-db/seq"
	"github.com/ozontech/seq-db/verifhook"

	"verif/internal/evid"
	"verif/internal/gen"
	"verif/internal/harness"
	"verif/internal/model"
)

type StaleCase struct {
	Parts  []model.Corpus `json:"parts"`  // one fraction each, oldest first
	Remove int            `json:"remove"` // how many of the oldest fractions retention has to remove
	Active bool           `json:"active"` // the newest fraction is still active
	Asc    bool           `json:"asc"`
	// Sealing: the newest of the fractions to be removed is still being sealed (held at a hook
	// point) when the request takes its list and when retention decides to remove it; the
	// removal waits for the sealing, the request works afterwards
	Sealing bool `json:"sealing,omitempty"`
}

func genStale(t *rapid.T) StaleCase {
	var c StaleCase
	k := rapid.IntRange(2, 5).Draw(t, "fractions")
	all := gen.Corpus(t, gen.CorpusOpts{MinDocs: k, MaxDocs: 40})
	c.Parts = make([]model.Corpus, k)
	for i, d := range all {
		p := i
		if i >= k {
			p = rapid.IntRange(0, k-1).Draw(t, "part")
		}
		c.Parts[p] = append(c.Parts[p], d)
	}
	c.Remove = rapid.IntRange(1, k-1).Draw(t, "remove")
	c.Active = rapid.Bool().Draw(t, "active")
	c.Asc = rapid.Bool().Draw(t, "asc")
	c.Sealing = rapid.Bool().Draw(t, "sealing")
	return c
}

func runStale(c StaleCase) (res evid.Result, err error) {
	if len(c.Parts) < 2 || c.Remove < 1 || c.Remove >= len(c.Parts) {
		return res, evid.Failf("bad_case", "shape")
	}
	release, sealed := make(chan struct{}), make(chan struct{})
	defer verifhook.Set(nil)
	dir := evid.ScratchDir("c07s")
	st, err := harness.OpenStore(dir, harness.StoreOpts{NoMaintLoop: true})
	if err != nil {
		return res, err
	}
	byID := map[model.ID]*model.Doc{}
	for p := range c.Parts {
		for i := range c.Parts[p] {
			byID[c.Parts[p][i].ID] = &c.Parts[p][i]
		}
		if err := st.Bulk(c.Parts[p]); err != nil {
			st.Close()
			return res, evid.Failf("bulk-error", "%v", err)
		}
		st.WaitIdle()
		switch {
		case c.Sealing && p == c.Remove-1:
			// rotate now, seal in the background and hold the sealing at its first hook point
			var held atomic.Bool
			verifhook.Set(func(name string, _ ...string) {
				if name == "seal.index_tmp_created" && held.CompareAndSwap(false, true) {
					<-release // only the sealing of this fraction; later ones pass
				}
			})
			go func() { defer close(sealed); st.FM.SealForcedForTests() }()
			// go on only when THIS sealing is the one held at the hook (it has rotated by then):
			// on a busy machine a later, synchronous sealing could otherwise be the first to arrive
			for i := 0; !held.Load(); i++ {
				if i > 150_000 {
					return res, fmt.Errorf("harness: the background sealing did not reach its first hook point within 30 s")
				}
				time.Sleep(200 * time.Microsecond)
			}
		case p < len(c.Parts)-1 || !c.Active:
			st.Seal()
		}
	}
	// the limit becomes just what the fractions to keep need: the next pass removes exactly the
	// Remove oldest ones.  The store is not restarted - the list holds the fraction objects of
	// this process, as it does in a store that has been running for a while
	var keep uint64
	n := 0
	for _, f := range st.FM.GetAllFracs() {
		if f.Info().DocsTotal == 0 {
			continue
		}
		if n >= c.Remove {
			keep += f.Info().FullSize()
		}
		n++
	}
	defer st.Close()
	st.Cfg.TotalSize = keep + 1
	snapshot := st.FM.GetAllFracs() // what a request takes first
	if c.Sealing {
		done := make(chan struct{})
		go func() { defer close(done); st.FM.VerifMaintenance() }() // blocks in the removal of the sealing fraction
		time.Sleep(2 * time.Millisecond)
		close(release)
		<-sealed
		<-done
		res.Labels = append(res.Labels, "removed-fraction-was-sealing")
	} else {
		st.FM.VerifMaintenance() // retention removes the oldest fractions meanwhile
	}
	removed := len(snapshot) - len(st.FM.GetAllFracs())
	res.Labels = append(res.Labels, fmt.Sprintf("removed-while-listed=%d", min(removed, 3)))
	res.NonTrivial = removed > 0

	defer func() {
		if p := recover(); p != nil {
			err = evid.Failf("panic-on-removed-fraction", "a request working on the list of fractions it took before retention removed %d of them panicked: %v", removed, p)
		}
	}()
	ast, perr := harness.ParseSeqQL("*", nil)
	if perr != nil {
		return res, perr
	}
	order := seq.DocsOrderDesc
	if c.Asc {
		order = seq.DocsOrderAsc
	}
	qpr, serr := st.Searcher.SearchDocs(context.Background(), snapshot, processor.SearchParams{AST: ast, From: 0, To: math.MaxInt64, Limit: 1 << 20, WithTotal: true, Order: order})
	if serr != nil {
		return res, evid.Failf("search-error", "on the list taken before the removal: %v", serr)
	}
	got := harness.FromSeqIDs(qpr.IDs)
	surviving := map[model.ID]bool{}
	for p := c.Remove; p < len(c.Parts); p++ {
		for _, d := range c.Parts[p] {
			surviving[d.ID] = true
		}
	}
	for _, id := range got {
		if _, ok := byID[id]; !ok {
			return res, evid.Failf("foreign-id", "%v was never submitted", id)
		}
	}
	for id := range surviving {
		found := false
		for _, g := range got {
			found = found || g == id
		}
		if !found {
			return res, evid.Failf("doc-lost", "document %v of a surviving fraction is not listed by a search that held the list from before the removal", id)
		}
	}
	var ids []seq.IDSource
	for id := range byID {
		ids = append(ids, seq.IDSource{ID: seq.ID{MID: seq.MID(id.MID), RID: seq.RID(id.RID)}})
	}
	docs, ferr := st.Fetcher.FetchDocs(context.Background(), snapshot, ids)
	if ferr != nil {
		return res, evid.Failf("fetch-error", "on the list taken before the removal: %v", ferr)
	}
	for i, is := range ids {
		id := model.ID{MID: uint64(is.ID.MID), RID: uint64(is.ID.RID)}
		if len(docs[i]) == 0 && !surviving[id] {
			continue
		}
		if !model.EqualBytes(docs[i], byID[id].Body) {
			return res, evid.Failf("fetch-differs", "id %v fetched as %.40q, stored %.40q (surviving=%v)", id, docs[i], byID[id].Body, surviving[id])
		}
		res.Evals++
	}
	return res, nil
}

func TestPropStaleList(t *testing.T)   { evid.Check(t, genStale, runStale) }
func TestReplayStaleList(t *testing.T) { evid.Replay(t, runStale) }
