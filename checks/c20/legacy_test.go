package c20

// Recorded finding "legacy-query-read-as-pipe" (known_findings.json): the proxy looks for a
// fields pipe by parsing every query as SeqQL (proxy/search/ingestor.go tryParseFieldsFilter),
// while the stores read the query in the legacy language unless the request or
// --use-seq-ql-by-default says otherwise (the default).  In the legacy language `|`, `-` and
// quotes are ordinary characters of a value, so a query without any pipe can be given a
// projection by the proxy: `k:a|fields-b` selects the documents whose k is "a|fields-b" and
// the proxy then keeps only the field "-b" of each - every document comes back as {}.
// Not part of the campaigns (all other C20 cases use SeqQL on both sides); the replay file
// shows the finding, the generator is kept for exploring it.

import (
	"fmt"
	"testing"

	"pgregory.net/rapid"

	"verif/internal/evid"
	"verif/internal/harness"
	"verif/internal/model"
)

type LegacyPipeCase struct {
	Head string `json:"head"` // value = Head + "|fields-" + Tail
	Tail string `json:"tail"`
}

func genLegacyPipe(t *rapid.T) LegacyPipeCase {
	return LegacyPipeCase{Head: rapid.StringMatching(`[a-z]{1,3}`).Draw(t, "head"), Tail: rapid.StringMatching(`[a-z]{1,3}`).Draw(t, "tail")}
}

func runLegacyPipe(c LegacyPipeCase) (evid.Result, error) {
	res := evid.Result{NonTrivial: true}
	cl, err := harness.NewCluster(evid.ScratchDir("c20l"), 1, 1, harness.StoreOpts{}, nil, false) // default: no use-seq-ql header
	if err != nil {
		return res, err
	}
	defer cl.Close()
	value := c.Head + "|fields-" + c.Tail
	body := []byte(fmt.Sprintf(`{"k":%q,"x":1}`, value))
	doc := model.Doc{ID: model.ID{MID: 1_700_000_000_000, RID: 1}, Body: body,
		Toks: []model.Tok{{F: "_all_", V: ""}, {F: "_exists_", V: "k"}, {F: "k", V: value}, {F: "_exists_", V: "x"}, {F: "x", V: "1"}}}
	if err := cl.Stores[0][0].Bulk([]model.Doc{doc}); err != nil {
		return res, err
	}
	cl.Stores[0][0].WaitIdle()
	text := "k:" + value // a legacy query: one keyword value, no pipe in that language
	qpr, it, err := cl.ProxySearch(text, &model.SearchReq{From: 0, To: 1 << 41, Limit: 10}, 0, 10, nil, true)
	if err != nil {
		return res, evid.Failf("proxy-search-error", "%q: %v", text, err)
	}
	if len(qpr.IDs) != 1 {
		return res, evid.Failf("ids-differ", "%q: %d ids, want the one document", text, len(qpr.IDs))
	}
	out, err := drain(it)
	if err != nil {
		return res, evid.Failf("documents-error", "%v", err)
	}
	res.Evals = 1
	if len(out) != 1 || !model.EqualBytes(out[0].Body, body) {
		var gotBody []byte
		if len(out) > 0 {
			gotBody = out[0].Body
		}
		return res, evid.Failf("legacy-query-read-as-pipe", "query %q (legacy language, the store's default: a keyword value, no pipe) returns the document as %q, stored %q", text, gotBody, body)
	}
	return res, nil
}

func TestPropLegacyPipe(t *testing.T)   { evid.Check(t, genLegacyPipe, runLegacyPipe) }
func TestReplayLegacyPipe(t *testing.T) { evid.Replay(t, runLegacyPipe) }
