package c20

// Own RFC 8259 value generator / serialiser (the stored documents) and the oracle's reader
// (encoding/json token stream with UseNumber: strict validity, duplicate-key detection,
// numbers kept as literals and compared as exact decimals).

import (
	"bytes"
	"encoding/json"
	"fmt"
	"io"
	"strconv"
	"strings"
	"unicode/utf16"

	"pgregory.net/rapid"
)

// ------------------------------------------------------------------ generated value tree

const (
	kNull = iota
	kFalse
	kTrue
	kNum
	kStr
	kArr
	kObj
)

type node struct {
	kind int
	s    string // number literal (RFC 8259 grammar) or decoded string content
	kids []node
	keys []string // decoded member names of an object (pairwise distinct)
}

// plain characters first: rapid shrinks towards index 0
var valRunes = []rune{
	'a', 'b', 'x', '0', '7', ' ', '-', '_', '.', ',', ':', '{', '}', '[', ']',
	'"', '\\', '/', '\n', '\t', '\r', '\b', '\f', 0x00, 0x1f, 0x7f,
	'<', '>', '&', '\'', '*', '|', '`', '#', '(', ')',
	'é', 'я', '中', 0x2028, 0x2029, 0xFFFD, 0xE000, 0xD7FF, 0xFFFF, 0x1F600, 0x10FFFF,
}

var numPool = []string{
	"0", "1", "-1", "42", "-0", "3.14", "-0.5", "1e10", "1E+5", "2.5e-3", "0.0", "1.0", "100", "1.10",
	"123456789012345678901234567890", "-9223372036854775809", "18446744073709551616",
	"1e400", "-1.7976931348623157e308", "0.000000000000000000001", "0e0", "5E-324", "12345.678900",
	"-0.0e-0", "9007199254740993", "1E400", "0.1e+1",
}

// member names that are common to many documents, so that one field list is "present" for
// some documents of a request and "absent" for others
var commonKeys = []string{"a", "b", "c", "msg", "level", "A", "k8s_pod", "x.y", "a-b", "ts"}

// member names at low weight: empty, needing JSON escapes, needing SeqQL quoting, reserved words
var specialKeys = []string{
	"", `q"t`, `b\s`, "t\tab", "nl\nx", "é", "日本", "😀", "s/l", "fields", "except", "and", "or", "not",
	"*", "a*b", "a b", "a,b", "a|b", "b`t", "s'q", "\x00", "\x1f", "a.b", "0", "1", " ", "<&>", "#c",
	"(", ":", "a:b", "\x7f", "Msg", " a", "in", `\`, `"`, `a`, "a\\\"b", "-a", "a-",
	"größe", "ÿ", "\u0080x", "naïve-ö",
}

// names no document ever has
var absentNames = []string{"zz", "nope", "MSG", "Level", "aa", "a ", "a.", "x", "y", `no"pe`, "né", "not-there", "*z", "z z"}

func genString(t *rapid.T, label string) string {
	n := rapid.IntRange(0, 10).Draw(t, label+"len")
	if n > 8 {
		n = rapid.IntRange(9, 40).Draw(t, label+"long")
	}
	var b strings.Builder
	for i := 0; i < n; i++ {
		b.WriteRune(valRunes[rapid.IntRange(0, len(valRunes)-1).Draw(t, label+"ch")])
	}
	return b.String()
}

func genNumber(t *rapid.T) string {
	k := rapid.IntRange(0, len(numPool)+3).Draw(t, "num")
	if k < len(numPool) {
		return numPool[k]
	}
	v := rapid.Int64().Draw(t, "int")
	switch k - len(numPool) {
	case 0:
		return strconv.FormatInt(v, 10)
	case 1:
		return strconv.FormatInt(v%100000, 10) + "." + strconv.FormatUint(uint64(v>>32)&0xffff, 10)
	case 2:
		return strconv.FormatInt(v%1000, 10) + "e" + strconv.FormatInt(v>>40%400, 10)
	default:
		return strconv.FormatInt(v%100, 10) + "." + strconv.FormatUint(uint64(v>>8)&0xff, 10) + "E+" + strconv.FormatUint(uint64(v>>20)&0x3f, 10)
	}
}

// pickKeys draws n pairwise distinct names, mostly from the common pool.
func pickKeys(t *rapid.T, n int, label string) []string {
	var out []string
	used := map[string]bool{}
	for i := 0; len(out) < n; i++ {
		var k string
		switch {
		case n > len(commonKeys)+4 && rapid.IntRange(0, 3).Draw(t, label+"filler") > 0:
			k = "f" + strconv.Itoa(i) // long objects: mostly filler names
		case rapid.IntRange(0, 7).Draw(t, label+"special") == 7:
			k = specialKeys[rapid.IntRange(0, len(specialKeys)-1).Draw(t, label+"sk")]
		default:
			k = commonKeys[rapid.IntRange(0, len(commonKeys)-1).Draw(t, label+"ck")]
		}
		for used[k] { // distinct by construction, deterministically
			k += "_"
		}
		used[k] = true
		out = append(out, k)
	}
	return out
}

func genValue(t *rapid.T, depth int) node {
	hi := 6
	if depth >= 3 {
		hi = 4
	}
	switch k := rapid.IntRange(0, hi+3).Draw(t, "kind"); {
	case k == 0:
		return node{kind: kNum, s: genNumber(t)}
	case k == 1 || k > 6:
		return node{kind: kStr, s: genString(t, "s")}
	case k == 2:
		return node{kind: kTrue}
	case k == 3:
		return node{kind: kFalse}
	case k == 4:
		return node{kind: kNull}
	case k == 5:
		n := rapid.IntRange(0, 4).Draw(t, "alen")
		a := node{kind: kArr}
		for i := 0; i < n; i++ {
			a.kids = append(a.kids, genValue(t, depth+1))
		}
		return a
	default:
		return genObject(t, rapid.IntRange(0, 4).Draw(t, "olen"), depth+1)
	}
}

func genObject(t *rapid.T, nkeys, depth int) node {
	o := node{kind: kObj, keys: pickKeys(t, nkeys, "k")}
	for range o.keys {
		o.kids = append(o.kids, genValue(t, depth))
	}
	return o
}

// ------------------------------------------------------------------ serialiser with style variation

type style struct {
	ws  int // 0 compact, 1 ", " and ": ", 2 blanks at every gap, 3 drawn per gap
	esc int // 0 minimal short escapes, 1 \u00xx for what must be escaped, 2 \u for non-ASCII too and \/, 3 drawn per character
	up  bool
}

// bufio.ReadLine-based bulk ingestion stores one line per document, so a stored document
// never contains a raw line feed; the other three JSON blanks can occur.
var gaps = []string{"", " ", "\t", "  ", "\r", " \t "}

type writer struct {
	t  *rapid.T
	st style
	b  strings.Builder
}

func (w *writer) gap(kind int) {
	switch w.st.ws {
	case 0:
	case 1:
		if kind == 1 { // after ':' or ','
			w.b.WriteByte(' ')
		}
	case 2:
		w.b.WriteByte(' ')
	default:
		w.b.WriteString(gaps[rapid.IntRange(0, len(gaps)-1).Draw(w.t, "gap")])
	}
}

func (w *writer) hex4(v uint16) {
	s := fmt.Sprintf("%04x", v)
	if w.st.up {
		s = strings.ToUpper(s)
	}
	w.b.WriteString(`\u` + s)
}

func (w *writer) uesc(r rune) {
	if r >= 0x10000 {
		r1, r2 := utf16.EncodeRune(r)
		w.hex4(uint16(r1))
		w.hex4(uint16(r2))
		return
	}
	w.hex4(uint16(r))
}

var shortEsc = map[rune]string{'"': `\"`, '\\': `\\`, '/': `\/`, '\b': `\b`, '\f': `\f`, '\n': `\n`, '\r': `\r`, '\t': `\t`}

func (w *writer) str(s string) {
	w.b.WriteByte('"')
	for _, r := range s {
		must := r < 0x20 || r == '"' || r == '\\'
		short, hasShort := shortEsc[r]
		mode := w.st.esc
		if mode == 3 {
			mode = rapid.IntRange(0, 3).Draw(w.t, "esc")
			if mode == 0 && !must && rapid.Bool().Draw(w.t, "escshort") && hasShort {
				w.b.WriteString(short) // "\/"
				continue
			}
			if mode == 3 { // any character may be spelled \uXXXX, also a plain 'a'
				w.uesc(r)
				continue
			}
		}
		switch {
		case mode == 0 && must && hasShort:
			w.b.WriteString(short)
		case mode == 0 && must, mode == 1 && must:
			w.uesc(r)
		case mode == 2 && r == '/':
			w.b.WriteString(`\/`)
		case mode == 2 && (must || r >= 0x7f):
			w.uesc(r)
		default:
			w.b.WriteRune(r)
		}
	}
	w.b.WriteByte('"')
}

func (w *writer) val(n node) {
	switch n.kind {
	case kNull:
		w.b.WriteString("null")
	case kFalse:
		w.b.WriteString("false")
	case kTrue:
		w.b.WriteString("true")
	case kNum:
		w.b.WriteString(n.s)
	case kStr:
		w.str(n.s)
	case kArr:
		w.b.WriteByte('[')
		w.gap(0)
		for i, k := range n.kids {
			if i > 0 {
				w.gap(0)
				w.b.WriteByte(',')
				w.gap(1)
			}
			w.val(k)
		}
		if len(n.kids) > 0 {
			w.gap(0)
		}
		w.b.WriteByte(']')
	default:
		w.b.WriteByte('{')
		w.gap(0)
		for i, k := range n.kids {
			if i > 0 {
				w.gap(0)
				w.b.WriteByte(',')
				w.gap(1)
			}
			w.str(n.keys[i])
			w.gap(0)
			w.b.WriteByte(':')
			w.gap(1)
			w.val(k)
		}
		if len(n.kids) > 0 {
			w.gap(0)
		}
		w.b.WriteByte('}')
	}
}

func serialise(t *rapid.T, n node) string {
	w := &writer{t: t}
	w.st.ws = rapid.IntRange(0, 3).Draw(t, "ws")
	w.st.esc = rapid.IntRange(0, 3).Draw(t, "escmode")
	w.st.up = rapid.Bool().Draw(t, "hexup")
	outer := rapid.IntRange(0, 9).Draw(t, "outer") == 9 // blanks around the whole line
	if outer {
		w.b.WriteString(" \t")
	}
	w.val(n)
	if outer {
		w.b.WriteString("  ")
	}
	return w.b.String()
}

// ------------------------------------------------------------------ the oracle's reader

type jval struct {
	kind byte // 'n' null, 't', 'f', '#' number, 's' string, 'a' array, 'o' object
	s    string
	arr  []*jval
	keys []string
	obj  map[string]*jval
}

func parseJSON(b []byte) (*jval, error) {
	if !json.Valid(b) {
		return nil, fmt.Errorf("not a valid JSON text")
	}
	dec := json.NewDecoder(bytes.NewReader(b))
	dec.UseNumber()
	v, err := parseVal(dec)
	if err != nil {
		return nil, err
	}
	if _, err := dec.Token(); err != io.EOF {
		return nil, fmt.Errorf("trailing data after the value")
	}
	return v, nil
}

func parseVal(dec *json.Decoder) (*jval, error) {
	tok, err := dec.Token()
	if err != nil {
		return nil, err
	}
	switch x := tok.(type) {
	case nil:
		return &jval{kind: 'n'}, nil
	case bool:
		if x {
			return &jval{kind: 't'}, nil
		}
		return &jval{kind: 'f'}, nil
	case json.Number:
		return &jval{kind: '#', s: string(x)}, nil
	case string:
		return &jval{kind: 's', s: x}, nil
	case json.Delim:
		switch x {
		case '[':
			v := &jval{kind: 'a'}
			for dec.More() {
				e, err := parseVal(dec)
				if err != nil {
					return nil, err
				}
				v.arr = append(v.arr, e)
			}
			_, err := dec.Token()
			return v, err
		case '{':
			v := &jval{kind: 'o', obj: map[string]*jval{}}
			for dec.More() {
				kt, err := dec.Token()
				if err != nil {
					return nil, err
				}
				k, ok := kt.(string)
				if !ok {
					return nil, fmt.Errorf("object member name is %T", kt)
				}
				e, err := parseVal(dec)
				if err != nil {
					return nil, err
				}
				if _, dup := v.obj[k]; dup {
					return nil, fmt.Errorf("duplicate member name %q", k)
				}
				v.keys = append(v.keys, k)
				v.obj[k] = e
			}
			_, err := dec.Token()
			return v, err
		}
	}
	return nil, fmt.Errorf("unexpected token %v", tok)
}

// canonNum: exact decimal value of an RFC 8259 number literal as "<sign><digits>e<exp>"
// with no leading/trailing zeros in digits ("0" for every spelling of zero).
func canonNum(s string) string {
	neg := strings.HasPrefix(s, "-")
	s = strings.TrimPrefix(s, "-")
	exp := 0
	if i := strings.IndexAny(s, "eE"); i >= 0 {
		e, err := strconv.Atoi(strings.TrimPrefix(s[i+1:], "+"))
		if err != nil {
			return "?" + s // not produced by the generator; compared literally
		}
		exp = e
		s = s[:i]
	}
	if i := strings.IndexByte(s, '.'); i >= 0 {
		exp -= len(s) - i - 1
		s = s[:i] + s[i+1:]
	}
	s = strings.TrimLeft(s, "0")
	for strings.HasSuffix(s, "0") {
		s = s[:len(s)-1]
		exp++
	}
	if s == "" {
		return "0"
	}
	sign := ""
	if neg {
		sign = "-"
	}
	return sign + s + "e" + strconv.Itoa(exp)
}

func equalVal(a, b *jval) bool {
	if a.kind != b.kind {
		return false
	}
	switch a.kind {
	case '#':
		return a.s == b.s || canonNum(a.s) == canonNum(b.s)
	case 's':
		return a.s == b.s
	case 'a':
		if len(a.arr) != len(b.arr) {
			return false
		}
		for i := range a.arr {
			if !equalVal(a.arr[i], b.arr[i]) {
				return false
			}
		}
	case 'o':
		if len(a.obj) != len(b.obj) {
			return false
		}
		for k, av := range a.obj {
			bv, ok := b.obj[k]
			if !ok || !equalVal(av, bv) {
				return false
			}
		}
	}
	return true
}

// equalTree: the reader's view of the serialised text equals the generated tree (self-check
// of the harness: serialiser and reader agree on what was stored).
func equalTree(n node, v *jval) bool {
	switch n.kind {
	case kNull:
		return v.kind == 'n'
	case kFalse:
		return v.kind == 'f'
	case kTrue:
		return v.kind == 't'
	case kNum:
		return v.kind == '#' && v.s == n.s
	case kStr:
		return v.kind == 's' && v.s == n.s
	case kArr:
		if v.kind != 'a' || len(v.arr) != len(n.kids) {
			return false
		}
		for i := range n.kids {
			if !equalTree(n.kids[i], v.arr[i]) {
				return false
			}
		}
		return true
	default:
		if v.kind != 'o' || len(v.keys) != len(n.keys) {
			return false
		}
		for i, k := range n.keys {
			if v.keys[i] != k || !equalTree(n.kids[i], v.obj[k]) {
				return false
			}
		}
		return true
	}
}

// hasEscapeOrContainer: the value is a container, or its stored spelling contains a backslash.
func (v *jval) container() bool { return v.kind == 'a' || v.kind == 'o' }
