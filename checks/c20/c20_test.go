// C20: the fields pipe (or a fetch field filter) returns a faithful projection of each stored
// document.  Model-based: stored documents come from the check's own RFC 8259 serialiser, the
// expected projection is computed on encoding/json's reading of the stored text, the observed
// one comes from (0) the store's real gRPC Fetch handler with a FieldsFilter, (1) the proxy's
// search path with a query ending in `| fields ...` / `| fields except ...`, (2) the proxy's
// Documents path (what proxyapi Fetch calls) with a FetchFieldsFilter.
package c20

import (
	"context"
	"errors"
	"fmt"
	"io"
	"slices"
	"sort"
	"strconv"
	"strings"
	"testing"
	"time"
	"unicode"

	"google.golang.org/grpc"

	"pgregory.net/rapid"

	"github.com/ozontech/seq-db/parser"
	sapi "github.com/ozontech/seq-db/pkg/storeapi"
	"github.com/ozontech/seq-db/pkg/seqproxyapi/v1"
	"github.com/ozontech/seq-db/proxy/search"
	"github.com/ozontech/seq-db/proxyapi"
	"github.com/ozontech/seq-db/seq"

	"verif/internal/evid"
	"verif/internal/gen"
	"verif/internal/harness"
	"verif/internal/model"
)

type DocSpec struct {
	ID     model.ID `json:"id"`
	Text   string   `json:"text"`             // the stored bytes (valid UTF-8 by construction)
	Sel    bool     `json:"sel,omitempty"`    // carries the token k:s (matched by the query `k:s`)
	Shard  int      `json:"shard,omitempty"`  // which shard stores it
	Sealed bool     `json:"sealed,omitempty"` // lives in the sealed fraction of its shard
}

type Req struct {
	Path   int      `json:"path"` // 0 store gRPC Fetch, 1 proxy search + pipe, 2 proxy Documents
	Fields []string `json:"fields"`
	Allow  bool     `json:"allow"`
	// path 0 and 2: requested IDs in request order (stored ones and absent ones); path 0 asks
	// the store of shard Store, for which documents of other shards are absent too
	IDs   []model.ID `json:"ids,omitempty"`
	Store int        `json:"store,omitempty"`
	// path 1
	All    bool  `json:"all,omitempty"` // query `*` instead of `k:s`
	Asc    bool  `json:"asc,omitempty"`
	Offset int   `json:"offset,omitempty"`
	Size   int   `json:"size,omitempty"`
	Quote  []int `json:"quote,omitempty"` // per name: 0 canonical (bare or strconv.Quote), 1 "..", 2 '..', 3 `..`, 4 ".." with a raw '*', 5 ".." with every non-ASCII rune as \\uXXXX / \\UXXXXXXXX
	Sep    int   `json:"sep,omitempty"`
	Upper  bool  `json:"upper,omitempty"`
}

type Case struct {
	Docs   []DocSpec `json:"docs"`
	Shards int       `json:"shards"`
	Reqs   []Req     `json:"reqs"`
}

// ------------------------------------------------------------------ generator

func genCase(t *rapid.T) Case {
	var c Case
	c.Shards = 1 + rapid.IntRange(0, 3).Draw(t, "shards")/3 // 1 (3/4) or 2
	nd := rapid.IntRange(1, 6).Draw(t, "ndocs")
	keysOf := make([][]string, nd)
	for i := 0; i < nd; i++ {
		var nk int
		switch rapid.IntRange(0, 11).Draw(t, "nkclass") {
		case 0:
			nk = 0 // empty object
		case 1:
			nk = 1
		case 11:
			nk = rapid.IntRange(15, 40).Draw(t, "nkbig") // crosses insane-json's MapUseThreshold (16)
		default:
			nk = rapid.IntRange(2, 7).Draw(t, "nk")
		}
		root := genObject(t, nk, 0)
		if rapid.IntRange(0, 39).Draw(t, "bigval") == 39 {
			// a value that outgrows the decoder's start-up node pool (128 nodes) or the
			// buffers left behind by the previous document
			big := node{kind: kArr}
			if rapid.Bool().Draw(t, "bigstr") {
				big = node{kind: kStr, s: strings.Repeat("x\"y", rapid.IntRange(700, 30000).Draw(t, "bigstrlen"))}
			} else {
				for n := rapid.IntRange(130, 400).Draw(t, "bigarrlen"); n > 0; n-- {
					big.kids = append(big.kids, node{kind: kNum, s: strconv.Itoa(n)})
				}
			}
			at := rapid.IntRange(0, len(root.keys)).Draw(t, "bigat")
			root.keys = slices.Insert(root.keys, at, "big")
			root.kids = slices.Insert(root.kids, at, big)
		}
		text := serialise(t, root)
		v, err := parseJSON([]byte(text))
		if err != nil || !equalTree(root, v) {
			panic(fmt.Sprintf("harness bug: serialiser and reader disagree on %q: %v", text, err))
		}
		keysOf[i] = root.keys
		c.Docs = append(c.Docs, DocSpec{
			ID:     model.ID{MID: gen.BaseMID + rapid.Uint64Range(0, 3).Draw(t, "mid"), RID: uint64(10 + i)},
			Text:   text,
			Sel:    rapid.IntRange(0, 3).Draw(t, "sel") > 0,
			Shard:  rapid.IntRange(0, c.Shards-1).Draw(t, "shard"),
			Sealed: rapid.Bool().Draw(t, "sealed"),
		})
	}
	nr := rapid.IntRange(1, 4).Draw(t, "nreqs")
	for i := 0; i < nr; i++ {
		c.Reqs = append(c.Reqs, genReq(t, &c, keysOf))
	}
	return c
}

func genReq(t *rapid.T, c *Case, keysOf [][]string) Req {
	var r Req
	r.Path = rapid.IntRange(0, 2).Draw(t, "path")
	r.Allow = rapid.Bool().Draw(t, "allow")
	focus := keysOf[rapid.IntRange(0, len(keysOf)-1).Draw(t, "focus")]
	kind := rapid.IntRange(0, 6).Draw(t, "listkind")
	if len(focus) == 0 && kind != 6 {
		kind = 2
	}
	absent := func(n int) []string {
		var out []string
		for i := 0; i < n; i++ {
			out = append(out, absentNames[rapid.IntRange(0, len(absentNames)-1).Draw(t, "absent")])
		}
		return out
	}
	perm := rapid.Permutation(focus).Draw(t, "perm")
	switch kind {
	case 0, 1: // some of the focus document's fields
		r.Fields = perm[:rapid.IntRange(1, max(1, len(perm)-1)).Draw(t, "npresent")]
	case 2: // none of anybody's fields
		r.Fields = absent(rapid.IntRange(1, 3).Draw(t, "nabsent"))
	case 3: // all fields of the focus document
		r.Fields = perm
	case 4: // present and absent names
		r.Fields = append(perm[:rapid.IntRange(1, len(perm)).Draw(t, "npresent")], absent(rapid.IntRange(1, 2).Draw(t, "nabsent"))...)
	case 5: // names from several documents
		for _, ks := range keysOf {
			for _, k := range ks {
				if rapid.IntRange(0, 2).Draw(t, "take") == 0 && len(r.Fields) < 12 {
					r.Fields = append(r.Fields, k)
				}
			}
		}
		if len(r.Fields) == 0 {
			r.Fields = absent(1)
		}
	default: // the empty list: "no filtering" - only a fetch can carry it, `| fields` alone is a parse error
		if r.Path == 1 {
			r.Fields = perm[:min(1, len(perm))]
			if len(r.Fields) == 0 {
				r.Fields = absent(1)
			}
		}
	}
	r.Fields = slices.Clone(r.Fields)
	if len(r.Fields) > 0 && rapid.IntRange(0, 3).Draw(t, "repeat") == 3 {
		n := rapid.IntRange(1, 3).Draw(t, "nrepeat")
		for i := 0; i < n; i++ {
			r.Fields = append(r.Fields, r.Fields[rapid.IntRange(0, len(r.Fields)-1).Draw(t, "rep")])
		}
	}
	r.Fields = rapid.Permutation(r.Fields).Draw(t, "order")
	if r.Path == 1 {
		// U+E000 cannot be named in a query (the parser uses it for '*'); keys never contain it
		r.All = rapid.Bool().Draw(t, "all")
		r.Asc = rapid.Bool().Draw(t, "asc")
		r.Offset = rapid.IntRange(0, 2).Draw(t, "offset") / 2
		r.Size = rapid.IntRange(1, len(c.Docs)+1).Draw(t, "size")
		for range r.Fields {
			r.Quote = append(r.Quote, rapid.IntRange(0, 5).Draw(t, "quote"))
		}
		r.Sep = rapid.IntRange(0, 3).Draw(t, "sep")
		r.Upper = rapid.IntRange(0, 7).Draw(t, "upper") == 7
		return r
	}
	r.Store = rapid.IntRange(0, c.Shards-1).Draw(t, "store")
	docs := rapid.Permutation(c.Docs).Draw(t, "idperm")
	n := rapid.IntRange(1, len(docs)).Draw(t, "nids")
	if rapid.IntRange(0, 2).Draw(t, "allids") > 0 {
		n = len(docs) // several documents through one decoder
	}
	for _, d := range docs[:n] {
		r.IDs = append(r.IDs, d.ID)
	}
	na := rapid.IntRange(0, 4).Draw(t, "nabsentids") / 2
	for i := 0; i < na; i++ {
		id := model.ID{MID: gen.BaseMID + rapid.Uint64Range(0, 4).Draw(t, "amid"), RID: uint64(1000 + i)}
		at := rapid.IntRange(0, len(r.IDs)).Draw(t, "apos")
		r.IDs = slices.Insert(r.IDs, at, id)
	}
	return r
}

// ------------------------------------------------------------------ rendering of the pipe

var reserved = map[string]bool{"": true, "or": true, "and": true, "not": true, "fields": true, "except": true, "in": true, "to": true}

func bareOK(s string) bool {
	if reserved[strings.ToLower(s)] {
		return false
	}
	for _, r := range s {
		if !(unicode.IsLetter(r) || unicode.IsDigit(r) || r == '_' || r == '.' || r == '-') {
			return false
		}
	}
	return true
}

// renderName spells a field name in one of the documented ways.
func renderName(s string, q int) string {
	switch q {
	case 0: // what PipeFields.DumpSeqQL prints
		if bareOK(s) {
			return s
		}
		return strings.ReplaceAll(strconv.Quote(s), "*", `\*`)
	case 3:
		raw := !strings.ContainsRune(s, '`')
		for _, r := range s {
			if r < 0x20 || r == 0x7f {
				raw = false
			}
		}
		if raw {
			return "`" + s + "`"
		}
		q = 1
	}
	quote := '"'
	if q == 2 {
		quote = '\''
	}
	var b strings.Builder
	b.WriteRune(quote)
	for _, r := range s {
		switch {
		case r == '*' && q == 4: // an unescaped '*' inside quotes is a plain '*' in a field list
			b.WriteRune(r)
		case r == quote || r == '\\' || r == '*':
			b.WriteByte('\\')
			b.WriteRune(r)
		case r == '\n':
			b.WriteString(`\n`)
		case r == '\t':
			b.WriteString(`\t`)
		case r < 0x20 || r == 0x7f:
			fmt.Fprintf(&b, `\x%02x`, r)
		case r >= 0x80 && q == 5 && r <= 0xffff: // the code point written as an escape, as ASCII-only clients do
			fmt.Fprintf(&b, `\u%04x`, r)
		case r >= 0x80 && q == 5:
			fmt.Fprintf(&b, `\U%08x`, r)
		default:
			b.WriteRune(r)
		}
	}
	b.WriteRune(quote)
	return b.String()
}

func renderPipe(r Req) string {
	kwF, kwE := "fields", "except"
	if r.Upper {
		kwF, kwE = "FIELDS", "Except"
	}
	var b strings.Builder
	b.WriteString(" | " + kwF + " ")
	if !r.Allow {
		b.WriteString(kwE + " ")
	}
	for i, f := range r.Fields {
		if i > 0 {
			b.WriteString([]string{", ", ",", " , ", ",  "}[r.Sep])
		}
		b.WriteString(renderName(f, r.Quote[i]))
	}
	return b.String()
}

// ------------------------------------------------------------------ run + oracle

type stored struct {
	spec *DocSpec
	val  *jval
}

type got struct {
	ID   model.ID
	Body []byte
}

type run struct {
	res    evid.Result
	labels map[string]bool
}

func (x *run) label(s string) { x.labels[s] = true }

func mustEscape(s string) bool {
	for _, r := range s {
		if r < 0x20 || r == '"' || r == '\\' {
			return true
		}
	}
	return false
}

func hasEscapedString(v *jval) bool {
	switch v.kind {
	case 's':
		return mustEscape(v.s)
	case 'a':
		for _, e := range v.arr {
			if hasEscapedString(e) {
				return true
			}
		}
	case 'o':
		for k, e := range v.obj {
			if mustEscape(k) || hasEscapedString(e) {
				return true
			}
		}
	}
	return false
}

// checkDoc compares one returned document with the projection of the stored one.
func (x *run) checkDoc(where string, st *stored, out []byte, r *Req, filtered bool) error {
	desc := func() string {
		mode := "except"
		if r.Allow {
			mode = "allow"
		}
		return fmt.Sprintf("%s: stored %q, %s-list %q", where, st.spec.Text, mode, r.Fields)
	}
	if !filtered || len(r.Fields) == 0 {
		if string(out) != st.spec.Text {
			return evid.Failf("unfiltered-bytes-differ", "%s, no filter: got %q", desc(), out)
		}
		return nil
	}
	x.res.Evals++
	v, err := parseJSON(out)
	if err != nil {
		return evid.Failf("projection-not-json", "%s: returned %q: %v", desc(), out, err)
	}
	if v.kind != 'o' {
		return evid.Failf("projection-not-object", "%s: returned %q", desc(), out)
	}
	want := map[string]bool{}
	for _, k := range st.val.keys {
		if slices.Contains(r.Fields, k) == r.Allow {
			want[k] = true
		}
	}
	for _, k := range v.keys {
		if !want[k] {
			if _, had := st.val.obj[k]; had {
				return evid.Failf("projection-extra-field", "%s: returned %q still has field %q", desc(), out, k)
			}
			return evid.Failf("projection-foreign-field", "%s: returned %q has field %q the stored document never had", desc(), out, k)
		}
	}
	var keptContainer, keptEscape, keptNumber bool
	for _, k := range st.val.keys { // stored order: deterministic
		if !want[k] {
			continue
		}
		ov, ok := v.obj[k]
		if !ok {
			return evid.Failf("projection-missing-field", "%s: returned %q lacks field %q", desc(), out, k)
		}
		sv := st.val.obj[k]
		if !equalVal(sv, ov) {
			return evid.Failf("projection-value-differs", "%s: returned %q: value of %q changed", desc(), out, k)
		}
		keptContainer = keptContainer || sv.container()
		keptEscape = keptEscape || hasEscapedString(sv) || mustEscape(k)
		keptNumber = keptNumber || sv.kind == '#'
	}
	// shape classes of this evaluation
	kept, removed := len(want), len(st.val.keys)-len(want)
	switch {
	case len(st.val.keys) == 0:
		x.label("doc:empty-object")
	case kept == 0:
		x.label("proj:removes-all")
	case removed == 0:
		x.label("proj:keeps-all")
	default:
		x.label("proj:removes-some-keeps-some")
		if keptContainer {
			x.label("kept:container")
		}
		if keptEscape {
			x.label("kept:escape")
		}
		if keptNumber {
			x.label("kept:number")
		}
		if keptContainer || keptEscape {
			x.res.NonTrivial = true
		}
	}
	if _, ok := st.val.obj["big"]; ok {
		x.label("doc:big-value")
	}
	if len(st.val.keys) > 16 {
		x.label("doc:keys>16")
		if kept > 0 && removed > 0 {
			x.label("doc:keys>16,partial")
		}
	}
	for _, k := range st.val.keys {
		if mustEscape(k) {
			x.label("doc:key-needs-escape")
		}
		if k == "" {
			x.label("doc:empty-key")
		}
	}
	return nil
}

// compare checks one filtered answer against the unfiltered one and the stored documents.
func (x *run) compare(where string, idx map[model.ID]*stored, present func(model.ID) bool, base, out []got, r *Req) error {
	if len(base) != len(out) {
		return evid.Failf("count-differs", "%s: %d documents without the filter, %d with %q", where, len(base), len(out), r.Fields)
	}
	found := 0
	for i := range base {
		if base[i].ID != out[i].ID {
			return evid.Failf("order-differs", "%s: position %d is %v without the filter and %v with it", where, i, base[i].ID, out[i].ID)
		}
		st, ok := idx[base[i].ID]
		if !ok || !present(base[i].ID) {
			if len(base[i].Body) != 0 || len(out[i].Body) != 0 {
				return evid.Failf("absent-not-empty", "%s: id %v is not stored there but returned %q / %q", where, base[i].ID, base[i].Body, out[i].Body)
			}
			x.label("req:absent-id")
			continue
		}
		found++
		if err := x.checkDoc(where, st, base[i].Body, r, false); err != nil {
			return err
		}
		if err := x.checkDoc(where, st, out[i].Body, r, true); err != nil {
			return err
		}
	}
	if found >= 2 {
		x.label("req:several-docs")
	}
	if found == 0 {
		x.label("req:no-docs")
	}
	return nil
}

func drain(it search.DocsIterator) ([]got, error) {
	var out []got
	for {
		d, err := it.Next()
		if errors.Is(err, io.EOF) {
			return out, nil
		}
		if err != nil {
			return out, err
		}
		out = append(out, got{ID: model.ID{MID: uint64(d.ID.MID), RID: uint64(d.ID.RID)}, Body: slices.Clone(d.Data)})
	}
}

type allowAll struct{}

func (allowAll) Account(string) bool { return true }

// fetchStream is the server side of the Fetch stream: it collects what the handler sends.
type fetchStream struct {
	grpc.ServerStream
	out []got
	err error
}

func (s *fetchStream) Context() context.Context { return context.Background() }
func (s *fetchStream) Send(d *seqproxyapi.Document) error {
	id, err := seq.FromString(d.Id)
	if err != nil && s.err == nil {
		s.err = fmt.Errorf("handler sent a document with id %q: %v", d.Id, err)
	}
	s.out = append(s.out, got{ID: model.ID{MID: uint64(id.MID), RID: uint64(id.RID)}, Body: slices.Clone(d.Data)})
	return nil
}

func proxyAPI(cl *harness.Cluster) seqproxyapi.SeqProxyApiServer {
	return proxyapi.VerifNewGrpcV1(proxyapi.APIConfig{SearchTimeout: time.Minute, ExportTimeout: time.Minute}, cl.Ing, nil, allowAll{})
}

func fromFetched(f []harness.Fetched) []got {
	out := make([]got, len(f))
	for i := range f {
		out[i] = got{ID: f[i].ID, Body: f[i].Body}
	}
	return out
}

func runCase(c Case) (evid.Result, error) {
	x := &run{labels: map[string]bool{}}
	idx := map[model.ID]*stored{}
	for i := range c.Docs {
		d := &c.Docs[i]
		v, err := parseJSON([]byte(d.Text))
		if err != nil || v.kind != 'o' {
			return x.res, fmt.Errorf("case is outside the domain: stored text %q is not a JSON object with unique names: %v", d.Text, err)
		}
		idx[d.ID] = &stored{spec: d, val: v}
	}
	cl, err := harness.NewCluster(evid.ScratchDir("c20"), c.Shards, 1, harness.StoreOpts{}, nil, true)
	if err != nil {
		return x.res, err
	}
	defer cl.Close()
	for s := 0; s < c.Shards; s++ {
		for _, sealed := range []bool{true, false} {
			var part []model.Doc
			for _, d := range c.Docs {
				if d.Shard == s && d.Sealed == sealed {
					toks := []model.Tok{{F: "_all_", V: ""}}
					if d.Sel {
						toks = append(toks, model.Tok{F: "_exists_", V: "k"}, model.Tok{F: "k", V: "s"})
					}
					part = append(part, model.Doc{ID: d.ID, Body: []byte(d.Text), Toks: toks})
				}
			}
			if len(part) == 0 {
				continue
			}
			st := cl.Stores[s][0]
			if err := st.Bulk(part); err != nil {
				return x.res, evid.Failf("bulk-error", "%v", err)
			}
			st.WaitIdle()
			if sealed {
				st.Seal()
			}
		}
	}
	anywhere := func(model.ID) bool { return true }
	for ri := range c.Reqs {
		r := &c.Reqs[ri]
		mode := "except"
		if r.Allow {
			mode = "allow"
		}
		if len(r.Fields) == 0 {
			mode = "empty-list"
		}
		x.label(fmt.Sprintf("path%d:%s", r.Path, mode))
		if len(r.Fields) != len(slices.Compact(slices.Sorted(slices.Values(r.Fields)))) {
			x.label("list:repeated-names")
		}
		where := fmt.Sprintf("req %d path %d", ri, r.Path)
		filter := &sapi.FetchRequest_FieldsFilter{Fields: r.Fields, AllowList: r.Allow}
		switch r.Path {
		case 0:
			a := cl.Stores[r.Store][0]
			b, err := a.FetchGRPC(r.IDs, nil, nil)
			if err != nil {
				return x.res, evid.Failf("fetch-error", "%s: unfiltered: %v", where, err)
			}
			o, err := a.FetchGRPC(r.IDs, nil, filter)
			if err != nil {
				return x.res, evid.Failf("fetch-error", "%s: fields %q: %v", where, r.Fields, err)
			}
			base, out := fromFetched(b), fromFetched(o)
			if len(base) != len(r.IDs) {
				return x.res, evid.Failf("fetch-count", "%s: %d entries for %d ids", where, len(base), len(r.IDs))
			}
			for i, id := range r.IDs {
				if base[i].ID != id {
					return x.res, evid.Failf("fetch-order", "%s: position %d is %v, requested %v", where, i, base[i].ID, id)
				}
			}
			here := func(id model.ID) bool { return idx[id].spec.Shard == r.Store }
			if err := x.compare(where, idx, here, base, out, r); err != nil {
				return x.res, err
			}
		case 2:
			ids := make([]seq.ID, len(r.IDs))
			for i, id := range r.IDs {
				ids[i] = harness.SeqID(id)
			}
			// through the proxy's real gRPC Fetch handler (proxyapi/grpc_fetch.go), which hands
			// the request to the ingestor's Documents path
			fetch := func(ff search.FetchFieldsFilter) ([]got, error) {
				req := &seqproxyapi.FetchRequest{}
				for _, id := range ids {
					req.Ids = append(req.Ids, id.String())
				}
				if ff.Fields != nil || ff.AllowList {
					req.FieldsFilter = &seqproxyapi.FetchRequest_FieldsFilter{Fields: ff.Fields, AllowList: ff.AllowList}
				}
				st := &fetchStream{}
				if err := proxyAPI(cl).Fetch(req, st); err != nil {
					return nil, err
				}
				return st.out, st.err
			}
			base, err := fetch(search.FetchFieldsFilter{})
			if err != nil {
				return x.res, evid.Failf("documents-error", "%s: unfiltered: %v", where, err)
			}
			out, err := fetch(search.FetchFieldsFilter{Fields: r.Fields, AllowList: r.Allow})
			if err != nil {
				return x.res, evid.Failf("documents-error", "%s: fields %q: %v", where, r.Fields, err)
			}
			if err := x.compare(where, idx, anywhere, base, out, r); err != nil {
				return x.res, err
			}
		default:
			text := "k:s"
			if r.All {
				text = "*"
			}
			ptext := text + renderPipe(*r)
			where += fmt.Sprintf(" query %q", ptext)
			// the documented spellings of the names must reach the filter as the names
			q, err := parser.ParseSeqQL(ptext, nil)
			if err != nil {
				return x.res, evid.Failf("pipe-parse-error", "%s: %v", where, err)
			}
			pf, ok := (parser.Pipe)(nil), false
			if len(q.Pipes) == 1 {
				pf, ok = q.Pipes[0], true
			}
			if p, isF := pf.(*parser.PipeFields); !ok || !isF || p.Except == r.Allow || !slices.Equal(p.Fields, r.Fields) {
				return x.res, evid.Failf("pipe-parse-differs", "%s: parsed as %+v, wanted fields %q allow=%v", where, pf, r.Fields, r.Allow)
			}
			sr := &model.SearchReq{From: gen.BaseMID - 10, To: gen.BaseMID + 1000, Asc: r.Asc}
			srch := func(text string) ([]model.ID, []got, error) {
				qpr, it, err := cl.ProxySearch(text, sr, r.Offset, r.Size, nil, true)
				if err != nil {
					return nil, nil, err
				}
				docs, err := drain(it)
				return harness.FromSeqIDs(qpr.IDs), docs, err
			}
			bids, base, err := srch(text)
			if err != nil {
				return x.res, evid.Failf("search-error", "%s: without the pipe: %v", where, err)
			}
			oids, out, err := srch(ptext)
			if err != nil {
				return x.res, evid.Failf("search-error", "%s: %v", where, err)
			}
			// what the query selects (C02's business, asserted here so that the comparison is not vacuous)
			var wantIDs []model.ID
			for _, d := range c.Docs {
				if r.All || d.Sel {
					wantIDs = append(wantIDs, d.ID)
				}
			}
			sort.Slice(wantIDs, func(i, j int) bool {
				if r.Asc {
					return wantIDs[i].Less(wantIDs[j])
				}
				return wantIDs[j].Less(wantIDs[i])
			})
			wantIDs = wantIDs[min(r.Offset, len(wantIDs)):]
			wantIDs = wantIDs[:min(r.Size, len(wantIDs))]
			if !model.EqualIDs(bids, wantIDs) {
				return x.res, evid.Failf("baseline-ids", "%s: search without the pipe returned %v, the model %v", where, bids, wantIDs)
			}
			if !model.EqualIDs(bids, oids) {
				return x.res, evid.Failf("ids-differ", "%s: ids %v without the pipe, %v with it", where, bids, oids)
			}
			if len(base) != len(bids) {
				return x.res, evid.Failf("baseline-docs", "%s: %d ids but %d documents without the pipe", where, len(bids), len(base))
			}
			for i := range base {
				if base[i].ID != bids[i] {
					return x.res, evid.Failf("baseline-docs", "%s: document %d is %v, id list says %v", where, i, base[i].ID, bids[i])
				}
			}
			if err := x.compare(where, idx, anywhere, base, out, r); err != nil {
				return x.res, err
			}
			for i, f := range r.Fields {
				if !bareOK(f) {
					x.label(fmt.Sprintf("pipe:quoted-name/style%d", r.Quote[i]))
				}
				if strings.Contains(f, "*") {
					x.label(fmt.Sprintf("pipe:star-in-name/style%d", r.Quote[i]))
				}
			}
		}
	}
	for l := range x.labels {
		x.res.Labels = append(x.res.Labels, l)
	}
	sort.Strings(x.res.Labels)
	return x.res, nil
}

func TestProp(t *testing.T)   { evid.Check(t, genCase, runCase) }
func TestReplay(t *testing.T) { evid.Replay(t, runCase) }
