package c20

// Projections under concurrent requests.  The field filter of the store's Fetch handler lives in
// pooled objects (a JSON decoder and its buffers per filter); a projection is faithful only if no
// two requests in flight ever share one.  A sequential run cannot see such sharing, so this
// family warms the pools (optionally with one document of several hundred KiB, which makes the
// pooled buffers grow) and then lets 2..6 clients fetch different documents with different
// field lists at the same time, through the store's gRPC Fetch handler and through the proxy's.
// Every returned document is compared with the projection of the stored one.

import (
	"fmt"
	"os"
	"runtime"
	"strings"
	"sync"
	"sync/atomic"
	"testing"
	"time"

	"pgregory.net/rapid"

	sapi "github.com/ozontech/seq-db/pkg/storeapi"
	"github.com/ozontech/seq-db/pkg/seqproxyapi/v1"

	"verif/internal/evid"
	"verif/internal/gen"
	"verif/internal/harness"
	"verif/internal/model"
)

type ConcOp struct {
	Doc    int      `json:"doc"`
	Fields []string `json:"fields"`
	Allow  bool     `json:"allow,omitempty"`
	Proxy  bool     `json:"proxy,omitempty"` // through the proxy's Fetch handler instead of the store's
}

type ConcCase struct {
	NDocs  int `json:"ndocs"`
	BigLen int `json:"big_len,omitempty"` // document 0 carries a string member of this many bytes
	// Warm: filtered fetches made one after the other before the clients start
	Warm []ConcOp `json:"warm,omitempty"`
	// Clients: each repeats its own list of operations Rounds times, all at the same time
	Clients [][]ConcOp `json:"clients"`
	Rounds  int        `json:"rounds"`
}

var concFields = []string{"n", "s", "o", "arr", "big", "own", "nope"}

func concDoc(i, bigLen int) string {
	var b strings.Builder
	fmt.Fprintf(&b, `{"n":%d,"s":"doc-%d-%s","o":{"x":%d,"y":[%d,"%d"]},"arr":[%d,%d,{"z":"%d"}]`, i, i, strings.Repeat(string(rune('a'+i%26)), 5+i*3), i, i, i, i, i+1, i)
	fmt.Fprintf(&b, `,"own%d":"only document %d has this member"`, i, i)
	if i == 0 && bigLen > 0 {
		b.WriteString(`,"big":"`)
		b.WriteString(strings.Repeat("0123456789abcdef", bigLen/16))
		b.WriteString(`"`)
	}
	b.WriteString("}")
	return b.String()
}

func genConcOp(t *rapid.T, ndocs int) ConcOp {
	op := ConcOp{Doc: rapid.IntRange(0, ndocs-1).Draw(t, "doc"), Allow: rapid.Bool().Draw(t, "allow"), Proxy: rapid.IntRange(0, 3).Draw(t, "proxy") == 3}
	fields := rapid.SliceOfNDistinct(rapid.SampledFrom(concFields), 1, 4, rapid.ID[string]).Draw(t, "fields")
	for _, f := range fields {
		if f == "own" {
			f = fmt.Sprintf("own%d", op.Doc)
		}
		op.Fields = append(op.Fields, f)
	}
	return op
}

func genConc(t *rapid.T) ConcCase {
	var c ConcCase
	c.NDocs = rapid.IntRange(2, 8).Draw(t, "ndocs")
	if rapid.IntRange(0, 2).Draw(t, "big") > 0 {
		c.BigLen = rapid.SampledFrom([]int{300 << 10, 70 << 10, 1 << 20, 600 << 10}).Draw(t, "biglen")
	}
	for n := rapid.IntRange(0, 4).Draw(t, "nwarm"); n > 0; n-- {
		c.Warm = append(c.Warm, genConcOp(t, c.NDocs))
	}
	if c.BigLen > 0 {
		// the big document passes through a filter right before the clients start
		c.Warm = append(c.Warm, ConcOp{Doc: 0, Fields: []string{"n"}, Allow: rapid.Bool().Draw(t, "bigallow")})
	}
	for g := rapid.IntRange(2, 6).Draw(t, "clients"); g > 0; g-- {
		var ops []ConcOp
		for n := rapid.IntRange(1, 3).Draw(t, "nops"); n > 0; n-- {
			ops = append(ops, genConcOp(t, c.NDocs))
		}
		c.Clients = append(c.Clients, ops)
	}
	c.Rounds = rapid.SampledFrom([]int{20, 60, 150}).Draw(t, "rounds")
	return c
}

func runConc(c ConcCase) (evid.Result, error) {
	res := evid.Result{}
	if c.NDocs < 1 || c.NDocs > 16 || c.BigLen < 0 || c.BigLen > 4<<20 || c.Rounds < 1 || c.Rounds > 2000 || len(c.Clients) > 16 {
		return res, fmt.Errorf("case outside the domain")
	}
	idx := map[model.ID]*stored{}
	specs := make([]DocSpec, c.NDocs)
	var docs []model.Doc
	for i := range specs {
		specs[i] = DocSpec{ID: model.ID{MID: gen.BaseMID + uint64(i%3), RID: uint64(100 + i)}, Text: concDoc(i, c.BigLen)}
		v, err := parseJSON([]byte(specs[i].Text))
		if err != nil {
			return res, fmt.Errorf("harness: %v", err)
		}
		idx[specs[i].ID] = &stored{spec: &specs[i], val: v}
		docs = append(docs, model.Doc{ID: specs[i].ID, Body: []byte(specs[i].Text), Toks: []model.Tok{{F: "_all_", V: ""}}})
	}
	cl, err := harness.NewCluster(evid.ScratchDir("c20c"), 1, 1, harness.StoreOpts{}, nil, true)
	if err != nil {
		return res, err
	}
	defer cl.Close()
	st := cl.Stores[0][0]
	// half sealed, half active
	if err := st.Bulk(docs[:len(docs)/2+1]); err != nil {
		return res, evid.Failf("bulk-error", "%v", err)
	}
	st.WaitIdle()
	st.Seal()
	if rest := docs[len(docs)/2+1:]; len(rest) > 0 {
		if err := st.Bulk(rest); err != nil {
			return res, evid.Failf("bulk-error", "%v", err)
		}
		st.WaitIdle()
	}
	api := proxyAPI(cl)
	do := func(x *run, where string, op ConcOp) (err error) {
		defer func() {
			if p := recover(); p != nil {
				err = evid.Failf("fetch-panic", "%s: fetch of document %d with fields %q: panic: %v", where, op.Doc, op.Fields, p)
			}
		}()
		sp := &specs[op.Doc%len(specs)]
		r := &Req{Fields: op.Fields, Allow: op.Allow}
		var out []got
		if op.Proxy {
			s := &fetchStream{}
			req := &seqproxyapi.FetchRequest{Ids: []string{harness.SeqID(sp.ID).String()}, FieldsFilter: &seqproxyapi.FetchRequest_FieldsFilter{Fields: op.Fields, AllowList: op.Allow}}
			if err := api.Fetch(req, s); err != nil {
				return evid.Failf("documents-error", "%s: %v", where, err)
			}
			if s.err != nil {
				return evid.Failf("documents-error", "%s: %v", where, s.err)
			}
			out = s.out
		} else {
			f, err := st.FetchGRPC([]model.ID{sp.ID}, nil, &sapi.FetchRequest_FieldsFilter{Fields: op.Fields, AllowList: op.Allow})
			if err != nil {
				return evid.Failf("fetch-error", "%s: %v", where, err)
			}
			out = fromFetched(f)
		}
		if len(out) != 1 || out[0].ID != sp.ID {
			return evid.Failf("fetch-count", "%s: asked for %v, got %d entries %v", where, sp.ID, len(out), ids(out))
		}
		return x.checkDoc(where, idx[sp.ID], out[0].Body, r, true)
	}
	main := &run{labels: map[string]bool{}}
	for i, op := range c.Warm {
		if err := do(main, fmt.Sprintf("warm-up %d", i), op); err != nil {
			return res, err
		}
	}
	var wg sync.WaitGroup
	var stop atomic.Bool
	errs := make([]error, len(c.Clients))
	runs := make([]*run, len(c.Clients))
	finished := make(chan struct{})
	for g, ops := range c.Clients {
		runs[g] = &run{labels: map[string]bool{}}
		wg.Add(1)
		go func(g int, ops []ConcOp) {
			defer wg.Done()
			for round := 0; round < c.Rounds && !stop.Load(); round++ {
				for k, op := range ops {
					if err := do(runs[g], fmt.Sprintf("client %d round %d op %d (of %d clients at once)", g, round, k, len(c.Clients)), op); err != nil {
						errs[g] = err
						stop.Store(true)
						return
					}
				}
			}
		}(g, ops)
	}
	go func() { wg.Wait(); close(finished) }()
	// a decoder shared by two requests can send the encoder into an endless loop that eats memory:
	// the watchdog ends the process then (the driver attributes the death to this journalled case).
	// The time limit is far beyond what the bounded work takes on a loaded machine (seconds).
	deadline := time.After(15 * time.Minute)
	tick := time.NewTicker(50 * time.Millisecond)
	defer tick.Stop()
wait:
	for {
		select {
		case <-finished:
			break wait
		case <-deadline:
			fmt.Fprintln(os.Stderr, "C20 concurrent fetch: clients still running after 15 min")
			os.Exit(3)
		case <-tick.C:
			var ms runtime.MemStats
			runtime.ReadMemStats(&ms)
			if ms.HeapAlloc > 6<<30 {
				fmt.Fprintf(os.Stderr, "C20 concurrent fetch: heap grew to %d MiB while %d clients fetch documents of at most %d KiB\n", ms.HeapAlloc>>20, len(c.Clients), (c.BigLen+1024)>>10)
				os.Exit(3)
			}
		}
	}
	for _, err := range errs {
		if err != nil {
			return res, err
		}
	}
	for _, x := range append(runs, main) {
		res.Evals += x.res.Evals
	}
	res.Labels = append(res.Labels, fmt.Sprintf("clients=%d", len(c.Clients)))
	if c.BigLen > 256<<10 {
		res.Labels = append(res.Labels, "pooled-buffers-grown-by-a-document>256KiB")
	}
	res.NonTrivial = len(c.Clients) >= 2
	return res, nil
}

func ids(g []got) []model.ID {
	out := make([]model.ID, len(g))
	for i := range g {
		out[i] = g[i].ID
	}
	return out
}

func TestPropConc(t *testing.T)   { evid.Check(t, genConc, runConc) }
func TestReplayConc(t *testing.T) { evid.Replay(t, runConc) }
