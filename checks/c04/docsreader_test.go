package c04

// Family 2: the document block reader below Fetch (disk.DocsReader + the docs cache), over
// files larger than 4 GiB.  A fraction's docs / sorted-docs file grows to --frac-size (any
// value; files beyond 4 GiB need frac-size > 4GB), blocks are addressed by their byte
// offset, and every read goes through the block cache.  The file is sparse: 2..8 blocks of
// 1..4 documents at generated offsets, some of them exactly k * 4 GiB apart, read in a
// generated order with repeats; every document must come back byte for byte.

import (
	"encoding/binary"
	"fmt"
	"os"
	"path/filepath"
	"testing"

	"pgregory.net/rapid"

	"github.com/ozontech/seq-db/cache"
	"github.com/ozontech/seq-db/disk"

	"verif/internal/evid"
)

type RBlock struct {
	Off  uint64   `json:"off"`
	Docs []string `json:"docs"`
}

type ReaderCase struct {
	Blocks []RBlock `json:"blocks"`
	Reads  [][2]int `json:"reads"` // block index, document index (-1: all documents of the block)
}

func genReader(t *rapid.T) ReaderCase {
	var c ReaderCase
	n := rapid.IntRange(2, 8).Draw(t, "nblocks")
	off := uint64(rapid.IntRange(0, 3).Draw(t, "first")) * 4096
	for i := 0; i < n; i++ {
		b := RBlock{Off: off}
		for j := rapid.IntRange(1, 4).Draw(t, "ndocs"); j > 0; j-- {
			b.Docs = append(b.Docs, fmt.Sprintf(`{"block":%d,"doc":%d,"p":"%s"}`, i, j, string(rapid.SliceOfN(rapid.ByteRange('a', 'z'), 0, 30).Draw(t, "pad"))))
		}
		c.Blocks = append(c.Blocks, b)
		// the next block: right behind (blocks are at most a few hundred bytes), or a whole
		// number of 4 GiB further, or somewhere beyond 4 GiB
		switch rapid.IntRange(0, 4).Draw(t, "gap") {
		case 3:
			off += uint64(rapid.IntRange(1, 3).Draw(t, "k")) << 32
		case 4:
			off += 1<<32 + uint64(rapid.IntRange(1, 1<<20).Draw(t, "far"))
		default:
			off += 4096 * uint64(rapid.IntRange(1, 4).Draw(t, "near"))
		}
	}
	for r := rapid.IntRange(3, 14).Draw(t, "nreads"); r > 0; r-- {
		bi := rapid.IntRange(0, n-1).Draw(t, "rb")
		c.Reads = append(c.Reads, [2]int{bi, rapid.IntRange(-1, len(c.Blocks[bi].Docs)-1).Draw(t, "rd")})
	}
	return c
}

func runReader(c ReaderCase) (evid.Result, error) {
	res := evid.Result{}
	dir := evid.ScratchDir("c04r")
	defer os.RemoveAll(dir)
	f, err := os.Create(filepath.Join(dir, "x.docs"))
	if err != nil {
		return res, err
	}
	defer f.Close()
	docOffs := make([][]uint64, len(c.Blocks))
	beyond := false
	for i, b := range c.Blocks {
		var payload []byte
		for _, d := range b.Docs {
			docOffs[i] = append(docOffs[i], uint64(len(payload)))
			payload = binary.LittleEndian.AppendUint32(payload, uint32(len(d)))
			payload = append(payload, d...)
		}
		if _, err := f.WriteAt(disk.CompressDocBlock(payload, nil, 1), int64(b.Off)); err != nil {
			return res, fmt.Errorf("harness: sparse file: %w", err)
		}
		if b.Off > 1<<32 {
			beyond = true
		}
	}
	r := disk.NewDocsReader(disk.NewReadLimiter(1, nil), f, cache.NewCache[[]byte](nil, nil))
	for ri, rd := range c.Reads {
		if rd[0] < 0 || rd[0] >= len(c.Blocks) || rd[1] >= len(c.Blocks[rd[0]].Docs) {
			return res, evid.Failf("bad_case", "read %d", ri)
		}
		b := c.Blocks[rd[0]]
		offs, want := docOffs[rd[0]], b.Docs
		if rd[1] >= 0 {
			offs, want = offs[rd[1]:rd[1]+1], want[rd[1]:rd[1]+1]
		}
		var got [][]byte
		var rerr error
		func() {
			defer func() {
				if p := recover(); p != nil {
					rerr = fmt.Errorf("panic: %v", p)
				}
			}()
			got, rerr = r.ReadDocs(b.Off, offs)
		}()
		if rerr != nil {
			return res, evid.Failf("read-error", "read %d: block at offset %d: %v", ri, b.Off, rerr)
		}
		for i := range want {
			if i >= len(got) || string(got[i]) != want[i] {
				return res, evid.Failf("wrong-document", "read %d: block at offset %d, document %d: got %.80q, stored %.80q", ri, b.Off, i, got[i], want[i])
			}
			res.Evals++
		}
	}
	if beyond {
		res.Labels = append(res.Labels, "file>4GiB")
	}
	res.NonTrivial = beyond
	return res, nil
}

func TestPropDocsReader(t *testing.T)   { evid.Check(t, genReader, runReader) }
func TestReplayDocsReader(t *testing.T) { evid.Replay(t, runReader) }
