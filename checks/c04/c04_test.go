// C04: fetch returns each stored document verbatim; unknown IDs are just 'not found'.
// Model-based, through the store's real gRPC Fetch handler (chunked docs stream).
package c04

import (
	"fmt"
	"sort"
	"strings"
	"testing"

	"pgregory.net/rapid"

	"verif/internal/evid"
	"verif/internal/gen"
	"verif/internal/harness"
	"verif/internal/model"
)

type Frac struct {
	Docs   []model.Doc `json:"docs"`
	Sealed bool        `json:"sealed"`
}

type Item struct {
	ID   model.ID `json:"id"`
	Hint int      `json:"hint"` // -1 no hint, -2 unknown fraction name, k>=0 name of the k-th fraction
}

type List struct {
	Items    []Item `json:"items"`
	UseHints bool   `json:"use_hints"`
}

type Case struct {
	Fracs []Frac            `json:"fracs"`
	Lists []List            `json:"lists"`
	Opts  harness.StoreOpts `json:"opts"`
	// Split: every fraction arrives in two bulks with a search of everything in between (a search on
	// the active fraction merges the posting lists collected so far)
	Split bool `json:"split,omitempty"`
}

func body(t *rapid.T, n int) []byte {
	switch rapid.IntRange(0, 9).Draw(t, "bodykind") {
	case 0, 1, 2, 3:
		return []byte("{}")
	case 4, 5:
		return []byte(fmt.Sprintf(`{"n":%d}`, n))
	case 6, 7:
		return []byte(fmt.Sprintf(`{"n":%d,"p":"%s"}`, n, strings.Repeat("y", rapid.IntRange(0, 3000).Draw(t, "pad"))))
	case 8:
		return []byte(fmt.Sprintf(`{"n":%d,"p":"%s"}`, n, strings.Repeat("z", rapid.IntRange(60_000, 200_000).Draw(t, "bigpad"))))
	default:
		return []byte(fmt.Sprintf(`{"n":%d,"p":"%s"}`, n, strings.Repeat("w", rapid.IntRange(0, 40).Draw(t, "pad"))))
	}
}

func genCase(t *rapid.T) Case {
	var c Case
	nf := rapid.IntRange(1, 4).Draw(t, "nfracs")
	seen := map[model.ID]bool{}
	n := 0
	huge := rapid.IntRange(0, 79).Draw(t, "huge") == 79 // documents > 4 MiB on average
	var all []model.Doc
	for f := 0; f < nf; f++ {
		base := gen.BaseMID + uint64(rapid.IntRange(0, 3).Draw(t, "fbase"))*50
		nd := rapid.IntRange(1, 12).Draw(t, "nd")
		fr := Frac{Sealed: f < nf-1 || rapid.Bool().Draw(t, "lastsealed")}
		for i := 0; i < nd; i++ {
			n++
			id := model.ID{MID: base + rapid.Uint64Range(0, 60).Draw(t, "mid"), RID: rapid.Uint64Range(1, 20).Draw(t, "rid")}
			for seen[id] {
				id.RID++
			}
			seen[id] = true
			d := model.Doc{ID: id, Body: body(t, n), Toks: []model.Tok{{F: "_all_", V: ""}}}
			if huge && i < 2 {
				d.Body = []byte(fmt.Sprintf(`{"n":%d,"p":"%s"}`, n, strings.Repeat("h", 4_300_000+rapid.IntRange(0, 1000).Draw(t, "hugepad"))))
			}
			fr.Docs = append(fr.Docs, d)
			all = append(all, d)
		}
		c.Fracs = append(c.Fracs, fr)
	}
	// small sorted-docs blocks: every sealed fraction then has many doc blocks at different offsets
	c.Opts.DocBlockSize = rapid.SampledFrom([]int{0, 128, 700, 5000}).Draw(t, "docblock")
	c.Opts.SkipSortDocs = rapid.IntRange(0, 3).Draw(t, "skipsort") == 3
	c.Split = rapid.IntRange(0, 3).Draw(t, "split") == 3
	nl := rapid.IntRange(1, 4).Draw(t, "nlists")
	for l := 0; l < nl; l++ {
		c.Lists = append(c.Lists, genList(t, c.Fracs, all))
	}
	return c
}

func genList(t *rapid.T, fracs []Frac, all []model.Doc) List {
	var l List
	l.UseHints = rapid.IntRange(0, 2).Draw(t, "usehints") == 0
	used := map[model.ID]bool{}
	add := func(id model.ID, hint int) {
		if used[id] {
			return
		}
		used[id] = true
		l.Items = append(l.Items, Item{ID: id, Hint: hint})
	}
	fracOf := map[model.ID]int{}
	for fi, f := range fracs {
		for _, d := range f.Docs {
			fracOf[d.ID] = fi
		}
	}
	present := map[model.ID]bool{}
	for _, d := range all {
		present[d.ID] = true
	}
	var target int
	switch rapid.IntRange(0, 9).Draw(t, "sizeclass") {
	case 0, 1, 2, 3:
		target = rapid.IntRange(1, 20).Draw(t, "n")
	case 4, 5:
		target = rapid.IntRange(21, 300).Draw(t, "n")
	default:
		target = rapid.IntRange(1001, 3000).Draw(t, "n") // crosses the first streaming chunk (1000 ids)
		if evid.Thorough() && rapid.IntRange(0, 19).Draw(t, "verylong") == 19 {
			target = rapid.IntRange(20_000, 100_000).Draw(t, "n100k")
		}
	}
	npresent := rapid.IntRange(0, min(len(all), target)).Draw(t, "npresent")
	if rapid.IntRange(0, 3).Draw(t, "fewpresent") == 0 {
		npresent = min(npresent, 1)
	}
	// present ids: a generated subset
	perm := rapid.Permutation(all).Draw(t, "perm")
	for _, d := range perm[:npresent] {
		h := -1
		switch rapid.IntRange(0, 5).Draw(t, "hintkind") {
		case 0, 1, 2, 3:
			h = fracOf[d.ID]
		case 4:
			h = -1
		default:
			h = -3 // deliberately wrong/unknown for a present doc: validity predicate only
		}
		add(d.ID, h)
	}
	// absent ids built relative to fraction borders and to existing ids
	for len(l.Items) < target {
		var id model.ID
		fr := fracs[rapid.IntRange(0, len(fracs)-1).Draw(t, "af")]
		lo, hi := fr.Docs[0].ID, fr.Docs[0].ID
		for _, d := range fr.Docs {
			if d.ID.Less(lo) {
				lo = d.ID
			}
			if hi.Less(d.ID) {
				hi = d.ID
			}
		}
		switch rapid.IntRange(0, 9).Draw(t, "absentkind") {
		case 0:
			id = model.ID{MID: lo.MID, RID: lo.RID - 1} // same timestamp as the oldest document, smaller random part
		case 1:
			id = model.ID{MID: hi.MID, RID: hi.RID + 1 + rapid.Uint64Range(0, 5).Draw(t, "d")}
		case 2:
			id = model.ID{MID: lo.MID - 1 - rapid.Uint64Range(0, 3).Draw(t, "d"), RID: rapid.Uint64Range(0, 30).Draw(t, "r")}
		case 3:
			id = model.ID{MID: hi.MID + 1 + rapid.Uint64Range(0, 3).Draw(t, "d"), RID: rapid.Uint64Range(0, 30).Draw(t, "r")}
		case 4:
			id = model.ID{MID: 1000 + rapid.Uint64Range(0, 100000).Draw(t, "low"), RID: rapid.Uint64().Draw(t, "r")} // far below everything
		case 5:
			id = model.ID{MID: gen.BaseMID*2 + rapid.Uint64Range(0, 100000).Draw(t, "high"), RID: rapid.Uint64().Draw(t, "r")}
		case 6:
			d := fr.Docs[rapid.IntRange(0, len(fr.Docs)-1).Draw(t, "near")]
			id = model.ID{MID: d.ID.MID, RID: d.ID.RID + 1000 + rapid.Uint64Range(0, 1000).Draw(t, "d")}
		default:
			id = model.ID{MID: lo.MID + rapid.Uint64Range(0, hi.MID-lo.MID+1).Draw(t, "in"), RID: 100 + rapid.Uint64Range(0, 1<<40).Draw(t, "r")}
		}
		for present[id] || used[id] { // absent and distinct by construction, deterministically
			id.RID += 1<<50 + 13
		}
		h := -1
		switch rapid.IntRange(0, 3).Draw(t, "ahint") {
		case 0:
			h = rapid.IntRange(0, len(fracs)-1).Draw(t, "ahf")
		case 1:
			h = -2
		}
		add(id, h)
	}
	order := rapid.IntRange(0, 2).Draw(t, "order")
	switch order {
	case 0:
		sort.Slice(l.Items, func(i, j int) bool { return l.Items[i].ID.Less(l.Items[j].ID) })
	case 1:
		sort.Slice(l.Items, func(i, j int) bool { return l.Items[j].ID.Less(l.Items[i].ID) })
	default:
		l.Items = rapid.Permutation(l.Items).Draw(t, "shuffle")
	}
	return l
}

func runCase(c Case) (evid.Result, error) {
	res := evid.Result{}
	dir := evid.ScratchDir("c04")
	st, err := harness.OpenStore(dir, c.Opts)
	if err != nil {
		return res, err
	}
	defer st.Close()
	var corpus model.Corpus
	for _, f := range c.Fracs {
		if c.Split && len(f.Docs) >= 2 {
			k := len(f.Docs) / 2
			if err := st.Bulk(f.Docs[:k]); err != nil {
				return res, evid.Failf("bulk-error", "%v", err)
			}
			st.WaitIdle()
			if _, err := st.Search(&model.SearchReq{Q: model.All(), From: 0, To: 1 << 62, Limit: 10}, "*", nil); err != nil {
				return res, evid.Failf("search-error", "search of everything between two bulks: %v", err)
			}
			if err := st.Bulk(f.Docs[k:]); err != nil {
				return res, evid.Failf("bulk-error", "%v", err)
			}
			res.Labels = append(res.Labels, "two-bulks-with-a-search-in-between")
		} else if err := st.Bulk(f.Docs); err != nil {
			return res, evid.Failf("bulk-error", "%v", err)
		}
		st.WaitIdle()
		corpus = append(corpus, f.Docs...)
		if f.Sealed {
			st.Seal()
		}
	}
	idx := corpus.Index()
	var names []string
	for _, f := range st.FM.GetAllFracs() {
		names = append(names, f.Info().Name())
	}
	fracOf := map[model.ID]int{}
	for fi, f := range c.Fracs {
		for _, d := range f.Docs {
			fracOf[d.ID] = fi
		}
	}
	api := harness.NewAPI(st, "", nil)
	for li, l := range c.Lists {
		ids := make([]model.ID, len(l.Items))
		var hints []string
		if l.UseHints {
			hints = make([]string, len(l.Items))
		}
		found, foundBytes, borderAbsent := 0, 0, false
		for i, it := range l.Items {
			ids[i] = it.ID
			if d, ok := idx[it.ID]; ok {
				found++
				foundBytes += len(d.Body)
			} else {
				for _, f := range c.Fracs {
					for _, d := range f.Docs {
						if d.ID.MID == it.ID.MID {
							borderAbsent = true
						}
					}
				}
			}
			if l.UseHints {
				switch {
				case it.Hint >= 0 && it.Hint < len(names):
					hints[i] = names[it.Hint]
				case it.Hint == -2:
					hints[i] = "seq-db-01ARZ3NDEKTSV4RRFFQ69G5FAV"
				case it.Hint == -3:
					hints[i] = names[(fracOf[it.ID]+1)%len(names)]
				}
			}
		}
		out, err := api.FetchGRPC(ids, hints, nil)
		if err != nil {
			return res, evid.Failf("fetch-error", "list %d (%d ids, %d present, %d found bytes): %v", li, len(ids), found, foundBytes, err)
		}
		if len(out) != len(ids) {
			return res, evid.Failf("fetch-count", "list %d: %d entries for %d ids", li, len(out), len(ids))
		}
		for i, it := range l.Items {
			if out[i].ID != it.ID {
				return res, evid.Failf("fetch-order", "list %d pos %d: entry is for %v, requested %v", li, i, out[i].ID, it.ID)
			}
			d, ok := idx[it.ID]
			switch {
			case !ok:
				if len(out[i].Body) != 0 {
					return res, evid.Failf("fetch-phantom", "list %d pos %d: absent id %v returned %d bytes %.40q", li, i, it.ID, len(out[i].Body), out[i].Body)
				}
			case l.UseHints && it.Hint == -3:
				// wrong hint for a present document: outside what a real caller sends;
				// only "its bytes or nothing, never another document's" is asserted
				if len(out[i].Body) != 0 && !model.EqualBytes(out[i].Body, d.Body) {
					return res, evid.Failf("fetch-foreign-bytes", "list %d pos %d: id %v returned other bytes", li, i, it.ID)
				}
			default:
				if !model.EqualBytes(out[i].Body, d.Body) {
					return res, evid.Failf("fetch-bytes-differ", "list %d pos %d: id %v got %d bytes %.40q want %d bytes %.40q", li, i, it.ID, len(out[i].Body), out[i].Body, len(d.Body), d.Body)
				}
			}
		}
		res.Evals++
		if found > 0 && found < len(ids) && (borderAbsent || foundBytes < len(ids)) {
			res.NonTrivial = true
		}
		if len(ids) > 1000 {
			res.Labels = append(res.Labels, "list>1000")
			if foundBytes > 0 && foundBytes < len(ids) {
				res.Labels = append(res.Labels, "found-bytes<ids")
			}
		}
		if len(ids) > 0 && foundBytes/len(ids) > 4<<20 {
			res.Labels = append(res.Labels, "avg-doc>4MiB")
		}
		if l.UseHints {
			res.Labels = append(res.Labels, "hints")
		}
		if found == 0 {
			res.Labels = append(res.Labels, "all-absent")
		}
		if borderAbsent {
			res.Labels = append(res.Labels, "absent-on-doc-timestamp")
		}
	}
	return res, nil
}

func TestProp(t *testing.T)   { evid.Check(t, genCase, runCase) }
func TestReplay(t *testing.T) { evid.Replay(t, runCase) }
