// C02: Search returns exactly the matching documents, ordered, limited and counted.
// Model-based: generated corpus + generated query tree against model.Search.
package c02

import (
	"fmt"
	"testing"

	"pgregory.net/rapid"

	"verif/internal/evid"
	"verif/internal/gen"
	"verif/internal/harness"
	"verif/internal/model"
)

type Case struct {
	Corpus model.Corpus      `json:"corpus"`
	Synth  gen.Synth         `json:"synth"` // parametric large corpus (lid-block class)
	Bulks  []int             `json:"bulks"` // sizes of consecutive bulks (arrival order)
	Sealed bool              `json:"sealed"`
	Reqs   []Req             `json:"reqs"`
	Opts   harness.StoreOpts `json:"opts"`
	// SealAfter: bit i = after the i-th bulk the fraction is rotated out and sealed, the next bulk
	// goes into a new one: a store answers from all its fractions (Opts.FracsPerIter of them per
	// iteration, stopping early when the page is certain)
	SealAfter uint32 `json:"seal_after,omitempty"`
}

type Req struct {
	R     model.SearchReq   `json:"r"`
	Style model.RenderStyle `json:"style"`
}

func genCase(t *rapid.T) Case {
	var c Case
	big := rapid.IntRange(0, 39).Draw(t, "big") == 39
	huge := rapid.IntRange(0, 79).Draw(t, "huge") == 79 // one token with > 65536 postings
	o := gen.CorpusOpts{MaxDocs: 40}
	if rapid.IntRange(0, 4).Draw(t, "tiny") == 4 {
		o.MaxDocs = 6
	}
	if big {
		o.MinDocs, o.MaxDocs = 4097, 6000 // crosses IDsPerBlock
		o.BodyMax = 4
	}
	c.Corpus = gen.Corpus(t, o)
	if huge {
		c.Synth = gen.Synth{N: rapid.IntRange(65537, 80000).Draw(t, "n"), PerMID: rapid.SampledFrom([]int{1, 40}).Draw(t, "permid"), Big: true}
		for i := range c.Corpus {
			c.Corpus[i].ID.RID |= 1 << 62 // keep ids distinct from the synthetic ones
		}
	}
	rest := len(c.Corpus)
	for rest > 0 {
		n := rapid.IntRange(1, rest).Draw(t, "bulk")
		if big {
			n = min(rest, 2000)
		}
		c.Bulks = append(c.Bulks, n)
		rest -= n
	}
	c.Sealed = rapid.Bool().Draw(t, "sealed")
	if !big && !huge && len(c.Bulks) > 1 && rapid.IntRange(0, 2).Draw(t, "several") == 2 {
		c.SealAfter = rapid.Uint32Range(1, 1<<min(len(c.Bulks)-1, 12)-1).Draw(t, "sealafter")
		c.Opts.FracsPerIter = rapid.SampledFrom([]int{1, 2, 0}).Draw(t, "fpi")
	}
	all := c.docs()
	nreq := rapid.IntRange(1, 6).Draw(t, "nreq")
	for i := 0; i < nreq; i++ {
		rq := Req{R: gen.SearchReq(t, all, 6), Style: gen.Style(t)}
		if huge {
			a := model.Lit("big", model.Exact("x"))
			switch rapid.IntRange(0, 3).Draw(t, "usebig") {
			case 0:
				rq.R.Q = a
			case 1:
				rq.R.Q = model.And(a, rq.R.Q)
			case 2:
				rq.R.Q = model.And(rq.R.Q, model.Not(a))
			}
			rq.R.Limit = min(rq.R.Limit, rapid.SampledFrom([]int{10, 1000}).Draw(t, "biglimit"))
		}
		c.Reqs = append(c.Reqs, rq)
	}
	return c
}

func (c *Case) docs() model.Corpus {
	if c.Synth.N == 0 {
		return c.Corpus
	}
	return append(append(model.Corpus{}, c.Corpus...), c.Synth.Docs()...)
}

func runCase(c Case) (evid.Result, error) {
	res := evid.Result{}
	dir := evid.ScratchDir("c02")
	st, err := harness.OpenStore(dir, c.Opts)
	if err != nil {
		return res, err
	}
	defer st.Close()
	pos := 0
	for i, n := range c.Bulks {
		if err := st.Bulk(c.Corpus[pos : pos+n]); err != nil {
			return res, evid.Failf("bulk-error", "%v", err)
		}
		pos += n
		if i < 32 && c.SealAfter&(1<<i) != 0 && i < len(c.Bulks)-1 {
			st.WaitIdle()
			st.Seal()
			res.Labels = append(res.Labels, "several-fractions")
		}
	}
	synth := c.Synth.Docs()
	for p := 0; p < len(synth); p += 5000 {
		if err := st.Bulk(synth[p:min(len(synth), p+5000)]); err != nil {
			return res, evid.Failf("bulk-error", "%v", err)
		}
	}
	corpus := c.docs()
	st.WaitIdle()
	if c.Sealed {
		st.Seal()
		res.Labels = append(res.Labels, "sealed")
	} else {
		res.Labels = append(res.Labels, "active")
	}
	if len(corpus) > 4096 {
		res.Labels = append(res.Labels, "id-block")
	}
	if c.Synth.N > 65536 {
		res.Labels = append(res.Labels, "lid-block")
	}
	for i := range c.Reqs {
		rq := &c.Reqs[i]
		text := model.RenderSeqQL(rq.R.Q, rq.Style)
		want := model.Search(corpus, &rq.R)
		qpr, err := st.Search(&rq.R, text, nil)
		if err != nil {
			return res, evid.Failf("search-error", "req %d %q: %v", i, text, err)
		}
		got := harness.FromSeqIDs(qpr.IDs)
		if !model.EqualIDs(got, want.IDs) {
			return res, evid.Failf("ids-differ", "req %d %q from=%d to=%d asc=%v limit=%d: got %d ids %v want %d ids %v", i, text, rq.R.From, rq.R.To, rq.R.Asc, rq.R.Limit, len(got), head(got), len(want.IDs), head(want.IDs))
		}
		if rq.R.WithTotal && qpr.Total != want.Total {
			return res, evid.Failf("total-differs", "req %d %q: got %d want %d", i, text, qpr.Total, want.Total)
		}
		if rq.R.Interval > 0 && !harness.EqualHist(harness.HistOf(qpr), want.Hist) {
			return res, evid.Failf("hist-differs", "req %d %q: got %s want %s", i, text, harness.FmtHist(harness.HistOf(qpr)), harness.FmtHist(want.Hist))
		}
		res.Evals++
		all := len(model.Matching(corpus, &model.SearchReq{Q: rq.R.Q, From: 0, To: ^uint64(0)}))
		if all > 0 && all < len(corpus) {
			res.NonTrivial = true
		}
		res.Labels = append(res.Labels, classify(&rq.R, len(want.IDs), all)...)
	}
	return res, nil
}

func classify(r *model.SearchReq, nres, nmatch int) []string {
	var l []string
	if nres == 0 {
		l = append(l, "empty-result")
	} else {
		l = append(l, "nonempty-result")
	}
	if hasOp(r.Q, "not") {
		l = append(l, "q-not")
	}
	if hasOp(r.Q, "range") {
		l = append(l, "q-range")
	}
	if hasOp(r.Q, "in") {
		l = append(l, "q-in")
	}
	if hasWild(r.Q) {
		l = append(l, "q-wildcard")
	}
	if r.Limit < nmatch {
		l = append(l, "limit-cuts")
	}
	if r.Asc {
		l = append(l, "asc")
	}
	return l
}

func hasOp(q *model.Q, op string) bool {
	if q.Op == op {
		return true
	}
	for _, k := range q.Kids {
		if hasOp(k, op) {
			return true
		}
	}
	return false
}

func hasWild(q *model.Q) bool {
	for _, f := range q.Pat {
		if f.Wild {
			return true
		}
	}
	for _, k := range q.Kids {
		if hasWild(k) {
			return true
		}
	}
	return false
}

func TestProp(t *testing.T)   { evid.Check(t, genCase, runCase) }
func TestReplay(t *testing.T) { evid.Replay(t, runCase) }

var _ = fmt.Sprint

func head(ids []model.ID) []model.ID {
	if len(ids) > 8 {
		return ids[:8]
	}
	return ids
}
