// C02: Search returns exactly the matching documents, ordered, limited and counted.
// Model-based: generated corpus + generated query tree against model.Search.
package c02

import (
	"fmt"
	"testing"

	"pgregory.net/rapid"

	"verif/internal/evid"
	"verif/internal/gen"
	"verif/internal/harness"
	"verif/internal/model"
)

type Case struct {
	Corpus model.Corpus      `json:"corpus"`
	Bulks  []int             `json:"bulks"` // sizes of consecutive bulks (arrival order)
	Sealed bool              `json:"sealed"`
	Reqs   []Req             `json:"reqs"`
	Opts   harness.StoreOpts `json:"opts"`
}

type Req struct {
	R     model.SearchReq   `json:"r"`
	Style model.RenderStyle `json:"style"`
}

func genCase(t *rapid.T) Case {
	var c Case
	big := rapid.IntRange(0, 39).Draw(t, "big") == 39
	o := gen.CorpusOpts{MaxDocs: 40}
	if rapid.IntRange(0, 4).Draw(t, "tiny") == 4 {
		o.MaxDocs = 6
	}
	if big {
		o.MinDocs, o.MaxDocs = 4097, 6000 // crosses IDsPerBlock
		o.BodyMax = 4
	}
	c.Corpus = gen.Corpus(t, o)
	rest := len(c.Corpus)
	for rest > 0 {
		n := rapid.IntRange(1, rest).Draw(t, "bulk")
		if big {
			n = min(rest, 2000)
		}
		c.Bulks = append(c.Bulks, n)
		rest -= n
	}
	c.Sealed = rapid.Bool().Draw(t, "sealed")
	nreq := rapid.IntRange(1, 6).Draw(t, "nreq")
	for i := 0; i < nreq; i++ {
		c.Reqs = append(c.Reqs, Req{R: gen.SearchReq(t, c.Corpus, 6), Style: gen.Style(t)})
	}
	return c
}

func runCase(c Case) (evid.Result, error) {
	res := evid.Result{}
	dir := evid.ScratchDir("c02")
	st, err := harness.OpenStore(dir, c.Opts)
	if err != nil {
		return res, err
	}
	defer st.Close()
	pos := 0
	for _, n := range c.Bulks {
		if err := st.Bulk(c.Corpus[pos : pos+n]); err != nil {
			return res, evid.Failf("bulk-error", "%v", err)
		}
		pos += n
	}
	st.WaitIdle()
	if c.Sealed {
		st.Seal()
		res.Labels = append(res.Labels, "sealed")
	} else {
		res.Labels = append(res.Labels, "active")
	}
	if len(c.Corpus) > 4096 {
		res.Labels = append(res.Labels, "id-block")
	}
	for i := range c.Reqs {
		rq := &c.Reqs[i]
		text := model.RenderSeqQL(rq.R.Q, rq.Style)
		want := model.Search(c.Corpus, &rq.R)
		qpr, err := st.Search(&rq.R, text, nil)
		if err != nil {
			return res, evid.Failf("search-error", "req %d %q: %v", i, text, err)
		}
		got := harness.FromSeqIDs(qpr.IDs)
		if !model.EqualIDs(got, want.IDs) {
			return res, evid.Failf("ids-differ", "req %d %q from=%d to=%d asc=%v limit=%d: got %v want %v", i, text, rq.R.From, rq.R.To, rq.R.Asc, rq.R.Limit, got, want.IDs)
		}
		if rq.R.WithTotal && qpr.Total != want.Total {
			return res, evid.Failf("total-differs", "req %d %q: got %d want %d", i, text, qpr.Total, want.Total)
		}
		if rq.R.Interval > 0 && !harness.EqualHist(harness.HistOf(qpr), want.Hist) {
			return res, evid.Failf("hist-differs", "req %d %q: got %s want %s", i, text, harness.FmtHist(harness.HistOf(qpr)), harness.FmtHist(want.Hist))
		}
		res.Evals++
		all := len(model.Matching(c.Corpus, &model.SearchReq{Q: rq.R.Q, From: 0, To: ^uint64(0)}))
		if all > 0 && all < len(c.Corpus) {
			res.NonTrivial = true
		}
		res.Labels = append(res.Labels, classify(&rq.R, len(want.IDs), all)...)
	}
	return res, nil
}

func classify(r *model.SearchReq, nres, nmatch int) []string {
	var l []string
	if nres == 0 {
		l = append(l, "empty-result")
	} else {
		l = append(l, "nonempty-result")
	}
	if hasOp(r.Q, "not") {
		l = append(l, "q-not")
	}
	if hasOp(r.Q, "range") {
		l = append(l, "q-range")
	}
	if hasOp(r.Q, "in") {
		l = append(l, "q-in")
	}
	if hasWild(r.Q) {
		l = append(l, "q-wildcard")
	}
	if r.Limit < nmatch {
		l = append(l, "limit-cuts")
	}
	if r.Asc {
		l = append(l, "asc")
	}
	return l
}

func hasOp(q *model.Q, op string) bool {
	if q.Op == op {
		return true
	}
	for _, k := range q.Kids {
		if hasOp(k, op) {
			return true
		}
	}
	return false
}

func hasWild(q *model.Q) bool {
	for _, f := range q.Pat {
		if f.Wild {
			return true
		}
	}
	for _, k := range q.Kids {
		if hasWild(k) {
			return true
		}
	}
	return false
}

func TestProp(t *testing.T)   { evid.Check(t, genCase, runCase) }
func TestReplay(t *testing.T) { evid.Replay(t, runCase) }

var _ = fmt.Sprint
