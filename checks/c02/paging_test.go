package c02

// Family: size and offset through the store's real gRPC Search handler.  The proxy forwards
// any non-negative size and offset (it checks the signs only) and asks each store for the top
// size+offset ids.  For all such pairs - including the largest values a client can send - the
// handler answers with the model's top min(size+offset, all) ids and the right total, or with
// an error; it must not take the process down (the handler runs without a recover interceptor).

import (
	"context"
	"fmt"
	"math"
	"testing"

	"pgregory.net/rapid"

	sapi "github.com/ozontech/seq-db/pkg/storeapi"

	"verif/internal/evid"
	"verif/internal/gen"
	"verif/internal/harness"
	"verif/internal/model"
)

type PagingCase struct {
	Corpus    model.Corpus `json:"corpus"`
	Sealed    bool         `json:"sealed"`
	Size      int64        `json:"size"`
	Offset    int64        `json:"offset"`
	WithTotal bool         `json:"with_total"`
	Asc       bool         `json:"asc"`
	Hist      bool         `json:"hist"`
}

func genPaging(t *rapid.T) PagingCase {
	c := PagingCase{Corpus: gen.Corpus(t, gen.CorpusOpts{MinDocs: 1, MaxDocs: 30})}
	big := []int64{math.MaxInt64, math.MaxInt64 - 1, math.MaxInt32, math.MaxInt32 + 1, 1 << 40, math.MaxInt64 / 2, math.MaxInt64/2 + 1}
	pick := func(label string) int64 {
		if rapid.IntRange(0, 2).Draw(t, label+"big") == 2 {
			return rapid.SampledFrom(big).Draw(t, label+"huge")
		}
		return int64(rapid.IntRange(0, len(c.Corpus)+2).Draw(t, label))
	}
	c.Size, c.Offset = pick("size"), pick("offset")
	c.Sealed = rapid.Bool().Draw(t, "sealed")
	c.WithTotal = rapid.Bool().Draw(t, "withtotal")
	c.Asc = rapid.Bool().Draw(t, "asc")
	c.Hist = rapid.IntRange(0, 3).Draw(t, "hist") == 3
	return c
}

func runPaging(c PagingCase) (evid.Result, error) {
	res := evid.Result{}
	if c.Size < 0 || c.Offset < 0 {
		return res, evid.Failf("bad_case", "negative paging values are refused by the proxy")
	}
	st, err := harness.OpenStore(evid.ScratchDir("c02p"), harness.StoreOpts{})
	if err != nil {
		return res, err
	}
	defer st.Close()
	if err := st.Bulk(c.Corpus); err != nil {
		return res, evid.Failf("bulk-error", "%v", err)
	}
	st.WaitIdle()
	if c.Sealed {
		st.Seal()
	}
	api := harness.NewAPI(st, "", nil)
	order := sapi.Order_ORDER_DESC
	if c.Asc {
		order = sapi.Order_ORDER_ASC
	}
	req := &sapi.SearchRequest{Query: "*", From: 0, To: math.MaxInt64, Size: c.Size, Offset: c.Offset, WithTotal: c.WithTotal, Order: order}
	if c.Hist {
		req.Interval = 1000
	}
	resp, err := api.G.Search(harness.SeqQLCtx(context.Background(), true), req)
	res.Evals++
	huge := c.Size > math.MaxInt32 || c.Offset > math.MaxInt32
	if huge {
		res.Labels = append(res.Labels, "size-or-offset>2^31")
	}
	if c.Size > math.MaxInt64-c.Offset {
		res.Labels = append(res.Labels, "size+offset>MaxInt64")
	}
	res.NonTrivial = huge
	if err != nil {
		res.Labels = append(res.Labels, "refused")
		return res, nil
	}
	limit := len(c.Corpus) + 5
	if c.Size <= int64(limit) && c.Offset <= int64(limit) {
		limit = int(c.Size + c.Offset)
	}
	want := model.Search(c.Corpus, &model.SearchReq{Q: model.All(), From: 0, To: math.MaxInt64, Asc: c.Asc, Limit: limit, WithTotal: c.WithTotal})
	var got []model.ID
	for _, e := range resp.IdSources {
		got = append(got, model.ID{MID: e.Id.Mid, RID: e.Id.Rid})
	}
	if !model.EqualIDs(got, want.IDs) {
		return res, evid.Failf("ids-differ", "size %d offset %d: got %d ids %v, want the top %d: %v", c.Size, c.Offset, len(got), got, limit, want.IDs)
	}
	if c.WithTotal && resp.Total != want.Total {
		return res, evid.Failf("total-differs", "size %d offset %d: total %d, want %d", c.Size, c.Offset, resp.Total, want.Total)
	}
	res.Labels = append(res.Labels, fmt.Sprintf("answered:%d-ids", min(len(got), 3)))
	return res, nil
}

func TestPropPaging(t *testing.T)   { evid.Check(t, genPaging, runPaging) }
func TestReplayPaging(t *testing.T) { evid.Replay(t, runPaging) }
