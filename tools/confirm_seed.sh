#!/bin/bash
# tools/confirm_seed.sh <worktree> <A|B> "<demo go test command>"
# Confirms in the seed's own scratch worktree: demo passes clean, patch applies and builds, demo fails with
# the patch, the touched packages' own tests (+ integration tests, minus the 4 always-failing TestSeal) pass.
export PATH=/root/go/pkg/mod/golang.org/toolchain@v0.0.1-go1.24.0.linux-amd64/bin:$PATH GOTOOLCHAIN=local GOFLAGS=-mod=mod GOPROXY=off GOSUMDB=off LOG_LEVEL=fatal
wt=$1; which=$2; demo=$3
cd "$wt" || exit 2
git checkout -q -- . 2>/dev/null
r_clean=FAIL; r_apply=FAIL; r_build=FAIL; r_demo_patched=PASS; r_pkgs=FAIL; r_integ=FAIL
if eval "$demo" >/tmp/cs_clean.$$ 2>&1; then r_clean=PASS; fi
if git apply "SEED_$which.diff" 2>/tmp/cs_apply.$$; then r_apply=OK; fi
if go build ./... 2>/tmp/cs_build.$$; then r_build=OK; fi
if eval "$demo" >/tmp/cs_patched.$$ 2>&1; then r_demo_patched=PASS; else r_demo_patched=FAIL; fi
pkgs=$(git diff --name-only | xargs -n1 dirname | sort -u | sed 's|^|./|;s|$|/...|' | tr '\n' ' ')
if go test -count=1 -skip 'TestSeed|SeedA|SeedB|Seed.Demo' $pkgs >/tmp/cs_pkgs.$$ 2>&1; then r_pkgs=PASS; fi
go test -count=1 -skip "TestSeed" ./tests/integration_tests/... >/tmp/cs_integ.$$ 2>&1
bad=$(grep -E '^\s+--- FAIL' /tmp/cs_integ.$$ | grep -v 'TestSeal ' | wc -l)
if [ "$bad" = 0 ]; then r_integ=PASS; else r_integ="FAIL($(grep -E '^\s+--- FAIL' /tmp/cs_integ.$$ | grep -v 'TestSeal ' | head -2 | tr -s ' ' | tr '\n' ';'))"; fi
git checkout -q -- .
echo "$(basename $wt)-$which demo_clean=$r_clean apply=$r_apply build=$r_build demo_patched=$r_demo_patched pkg_tests($pkgs)=$r_pkgs integration=$r_integ"
rm -f /tmp/cs_*.$$
