#!/bin/bash
# tools/seed_regression.sh [glob]   -> re-runs every kept seeded change (seeded/<id>/patch.diff) against the check its
# meta.json names first in "caught_by" (quick tier) and prints one line per seed: CAUGHT / MISSED / NOAPPLY / SKIP.
# A seed that was caught when it was imported and is MISSED now means a check was loosened or a generator lost a class.
# Output: /tmp/seedreg.<pid>.txt (summary on stdout).  Uses tools/try_seed.sh (scratch worktree, removed afterwards).
set -u
cd /verif
pat=${1:-*}
out=/tmp/seedreg.$$.txt; : > $out
for d in seeded/$pat/; do
  id=$(basename $d)
  [ -f $d/meta.json ] || continue
  chk=$(python3 -c "
import json,re,sys
m=json.load(open('$d/meta.json'))
c=m.get('caught_by','')
if c.startswith('NOT'): print('SKIP'); sys.exit()
r=re.search(r'C\d\d',c); print(r.group(0) if r else 'SKIP')")
  if [ "$chk" = SKIP ]; then echo "SKIP    $id" | tee -a $out; continue; fi
  res=$(./tools/try_seed.sh $d/patch.diff $chk quick 2>&1)
  if echo "$res" | grep -q 'PATCH DOES NOT APPLY'; then echo "NOAPPLY $id ($chk)" | tee -a $out; continue; fi
  line=$(echo "$res" | grep -m1 '^seed=')
  rc=$(echo "$line" | sed -n 's/.* rc=\([0-9]*\) .*/\1/p')
  if [ "$rc" = 1 ]; then v=CAUGHT; elif [ "$rc" = 0 ]; then v=MISSED; else v="RC$rc"; fi
  echo "$v  $id ($chk) $(echo "$line" | sed -n 's/.*\(violations=.*\)/\1/p')" | tee -a $out
done
echo "--- summary"; cut -d' ' -f1 $out | sort | uniq -c
