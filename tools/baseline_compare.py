#!/usr/bin/env python3
"""Runs the pinned suite (guard off) and compares with /root/.vp/BASELINE.json stable_pass."""
import json, subprocess, sys, os
out = sys.argv[1] if len(sys.argv) > 1 else "/tmp/baseline.gotest.json"
if not (len(sys.argv) > 2 and sys.argv[2] == "--parse-only"):
    with open(out, "w") as f:
        subprocess.run("cd /repo && go test -mod=mod -json -vet=off -count=1 -timeout 25m ./...", shell=True, stdout=f, stderr=subprocess.STDOUT)
res = {}
for line in open(out, errors="replace"):
    try:
        e = json.loads(line)
    except ValueError:
        continue
    if e.get("Action") in ("pass", "fail", "skip") and e.get("Test"):
        res[e["Package"] + "::" + e["Test"]] = e["Action"]
b = json.load(open("/root/.vp/BASELINE.json"))
bad = [t for t in b["stable_pass"] if res.get(t) != "pass"]
print("stable_pass:", len(b["stable_pass"]), "now passing:", len(b["stable_pass"]) - len(bad))
for t in bad:
    print("  NOT PASSING:", t, res.get(t))
sys.exit(1 if bad else 0)
