#!/usr/bin/env python3
import json, glob, os
rows = []
for m in sorted(glob.glob('/verif/seeded/*/meta.json')):
    d = json.load(open(m))
    rows.append(d)
out = ["# Seeded changes\n",
       "Each directory holds a change to ozontech/seq-db written by an independent sub-agent that saw only the text of one",
       "property and a scratch worktree (nothing from /verif): `patch.diff` (applies to /repo HEAD with `git apply`), the agent's",
       "demonstration (`demo/`, fails with the change, passes without), its `NOTES.md`, and `meta.json` (what the change needs in",
       "order to manifest, what the lead ran to confirm it). None of them is ever applied to /repo; checks are run against a",
       "scratch worktree with `tools/try_seed.sh seeded/<id>/patch.diff CNN` (VERIF_REPO).  Every change compiles, keeps the",
       "touched packages' own tests and the integration tests green (except the four always-failing TestSeal sub-tests), and its",
       "demonstration was re-run by the lead on the clean and on the patched tree (`tools/confirm_seed.sh`).\n",
       "| seed | property | needs, in order to manifest | caught by |", "|---|---|---|---|"]
for d in rows:
    out.append("| %s | %s | %s | %s |" % (d['id'], d['property'], d['needs_to_manifest'], d['caught_by']))
missed = [d for d in rows if 'was missed' in d['caught_by'] or 'after adding' in d['caught_by']]
out.append("\n%d seeded changes; %d of them were missed by the quick tier when first tried and led to a stronger generator (see the `caught by` column and DESIGN.md 11.5)." % (len(rows), len(missed)))
open('/verif/seeded/README.md', 'w').write("\n".join(out) + "\n")
print(len(rows), "seeds")
