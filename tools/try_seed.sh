#!/bin/bash
# tools/try_seed.sh <patch.diff> <CNN> [tier]   -> applies the patch to a scratch worktree of /repo HEAD,
# runs ./check CNN <tier> against it (VERIF_REPO), prints the verdict, removes the worktree.
set -u
patch=$(readlink -f "$1"); prop=$2; tier=${3:-quick}
wt=/tmp/wt/seedtry-$$-$prop
git -C /repo worktree add -q "$wt" HEAD || exit 2
if ! git -C "$wt" apply "$patch"; then echo "PATCH DOES NOT APPLY"; git -C /repo worktree remove --force "$wt"; exit 2; fi
cd /verif
start=$(date +%s)
VERIF_REPO="$wt" ./check "$prop" "$tier" > /tmp/seedtry-$$.out 2>&1; rc=$?
end=$(date +%s)
nviol=$(grep -c '^VIOLATION' /tmp/seedtry-$$.out)
echo "seed=$(basename $(dirname $patch))/$(basename $patch) check=$prop tier=$tier rc=$rc violations=$nviol secs=$((end-start))"
grep -m3 'sig=' /tmp/seedtry-$$.out | cut -c1-220
rm -f /tmp/seedtry-$$.out
git -C /repo worktree remove --force "$wt"
tag=$(python3 -c "import hashlib,sys;print(hashlib.sha256(sys.argv[1].encode()).hexdigest()[:8])" "$wt")
rm -rf /verif/failures.$tag /verif/.build/*.$tag* /verif/.build/alt-$tag.* /verif/.run/*/*.$tag 2>/dev/null
exit $rc
