#!/usr/bin/env python3
"""tools/import_seed.py <seed worktree> <A|B> <id> <property> <caught_by> <needs...>
Copies SEED_<X>.diff, the demonstration files and the notes into /verif/seeded/<id>/ with a meta.json."""
import sys, os, shutil, json, subprocess, glob
wt, which, sid, prop, caught = sys.argv[1:6]
needs = " ".join(sys.argv[6:])
dst = os.path.join("/verif/seeded", sid)
os.makedirs(os.path.join(dst, "demo"), exist_ok=True)
shutil.copy(os.path.join(wt, "SEED_%s.diff" % which), os.path.join(dst, "patch.diff"))
untracked = subprocess.check_output(["git", "-C", wt, "ls-files", "--others", "--exclude-standard"]).decode().split()
demos = []
for f in untracked:
    low = f.lower()
    if not f.endswith(".go"):
        continue
    base = os.path.basename(low)
    other = "seed_b" if which == "A" else "seed_a"
    if other in base or ("seedb" if which == "A" else "seeda") in base:
        continue
    rel = os.path.join(dst, "demo", f)
    os.makedirs(os.path.dirname(rel), exist_ok=True)
    shutil.copy(os.path.join(wt, f), rel)
    demos.append(f)
if os.path.exists(os.path.join(wt, "SEED_NOTES.md")):
    shutil.copy(os.path.join(wt, "SEED_NOTES.md"), os.path.join(dst, "NOTES.md"))
meta = {
    "id": sid, "property": prop, "author": "independent sub-agent (saw only the property text and a scratch worktree)",
    "needs_to_manifest": needs, "demonstration_files": demos,
    "how_to_run_demo": "apply patch.diff to a scratch worktree of /repo, copy demo/* into it at the same relative paths, run the go test command given in NOTES.md",
    "confirmed_by_lead": [], "round": int(os.environ.get("SEED_ROUND", "3")),
    "caught_by": caught,
}
json.dump(meta, open(os.path.join(dst, "meta.json"), "w"), indent=1)
print("imported", sid, demos)
